"""C12 - Mangle caps / polygons / windows / use-masks / storage forms.
Spec: spec/Mangle.tla; MC: mc/MC_Mangle; Trace: trace/Trace_Mangle.

spec -> code: every state of MC_Mangle is one call (cap | polygon | window in its storage forms | set_use_caps)
with the outcome the specification admits; it is concretised into real arguments (floats, ManglePolygon, .ply /
FITS / blist+bcaps files) and the real answer must be one of the admitted ones.
code -> spec: seeded random rational geometry is pushed through the real functions (all readers, both coordinate
conventions), the calls are recorded and Trace_Mangle (TLC) judges them.
"""
import math
import os
import random
from fractions import Fraction

import numpy as np

from .. import core

MAX_PER_CLASS = 6       # replay files written per class of failure (all failures are counted)


# ---------------------------------------------------------------- concretisation (spec value -> real arguments)
def fl(q):
    return q[0] / q[1]          # int / int is correctly rounded


def vec(v):
    return [fl(q) for q in v]


def cart(pts):
    return np.array([vec(p) for p in pts], dtype=np.float64).reshape((len(pts), 3))


def radec(xyz):
    out = np.zeros((xyz.shape[0], 2), dtype=np.float64)
    for k in range(xyz.shape[0]):
        x, y, z = (float(t) for t in xyz[k])
        out[k, 0] = math.degrees(math.atan2(y, x))
        out[k, 1] = math.degrees(math.asin(max(-1.0, min(1.0, z))))
    return out


def mask_int(use):
    m = 0
    for b in use:
        m |= 1 << int(b)
    return m


def bits(m):
    m = int(m)
    if m < 0:
        return [-1]
    return [b for b in range(m.bit_length()) if (m >> b) & 1]


NLAY = 6
INT_TYPES = [None, np.int64, np.int32, np.int16, np.uint16, np.uint8, np.int8, np.uint32, np.uint64]
NITY = len(INT_TYPES)


def _li(lay):
    """A "form" of an argument is (memory layout, numeric type); a bare int is a layout with the float type."""
    return (lay, 0) if isinstance(lay, int) else (int(lay[0]), int(lay[1]))


def int_type(lo, hi, ity):
    """The integer type number ity if the values lo..hi fit it, else the signed type that holds them."""
    dt = INT_TYPES[ity]
    info = np.iinfo(dt)
    if info.min <= lo and hi <= info.max:
        return dt
    for dt in (np.int8, np.int16, np.int32, np.int64):
        if np.iinfo(dt).min <= lo and hi <= np.iinfo(dt).max:
            return dt
    raise core.MachineryError('no integer type for %r..%r' % (lo, hi))


def as_int(a, ity):
    """The same VALUES with an integer dtype, when every value is integral (ity = 0: leave the floats)."""
    a = np.asarray(a)
    if ity == 0 or a.dtype.kind != 'f' or not bool(np.all(a == np.round(a))):
        return a
    lo, hi = (int(a.min()), int(a.max())) if a.size else (0, 0)
    return a.astype(int_type(lo, hi, ity))


def lay_arr(a, lay):
    """The same VALUES in another form (Mangle.tla, remark "values only").  Memory layouts: 0 plain,
    1 read-only, 2 every second element of a longer array, 3 Fortran-ordered / column view, 4 byte-swapped
    (as FITS data is), 5 read-only and byte-swapped.  Numeric types: INT_TYPES, applied when all values are integral."""
    lay, ity = _li(lay)
    a = as_int(a, ity)
    if lay == 0 or a.ndim == 0:
        return a
    if lay == 1:
        b = a.copy()
        b.setflags(write=False)
        return b
    if lay == 2:
        big = np.full((2 * a.shape[0] + 1,) + a.shape[1:], 7, dtype=a.dtype)
        big[::2][:a.shape[0]] = a
        return big[::2][:a.shape[0]]
    if lay == 3:
        if a.ndim >= 2:
            return np.asfortranarray(a)
        big = np.full((a.shape[0], 2), 7, dtype=a.dtype)
        big[:, 0] = a
        return big[:, 0]
    b = a.astype(a.dtype.newbyteorder())
    if lay == 5:
        b.setflags(write=False)
    return b


def lay_scalar(v, lay):
    """A scalar argument: numpy scalar, Python float, 0-d array, byte-swapped 0-d array, read-only 0-d array; when the
    value is integral and an integer type is asked for: Python int, numpy integer scalar or 0-d integer array."""
    lay, ity = _li(lay)
    dt = np.dtype(np.float64)
    if ity and float(v) == round(float(v)):
        if lay in (1, 2):
            return int(v)
        dt = np.dtype(int_type(int(v), int(v), ity))
        if lay == 0:
            return dt.type(int(v))
    if lay == 0:
        return np.float64(v)
    if lay in (1, 2):
        return float(v)
    if lay == 3:
        return np.array(v, dtype=dt)
    b = np.array(v, dtype=dt.newbyteorder())
    if lay == 5:
        b.setflags(write=False)
    return b


def lay_int(v, lay):
    """An integer argument (use_caps, ncaps): Python int or a numpy integer scalar of the asked width."""
    lay, ity = _li(lay)
    return int(v) if ity == 0 else int_type(int(v), int(v), ity)(int(v))


def lay_index(idx, lay):
    """An index list (array-like): list, tuple, or an integer array of any width in any layout."""
    lay, ity = _li(lay)
    il = [int(v) for v in idx]
    if ity == 0 and lay == 0:
        return il
    if ity == 0 and lay == 5:
        return tuple(il)
    dt = int_type(min(il + [0]), max(il + [0]), ity) if ity else (np.int32 if lay == 3 else np.int64)
    return lay_arr(np.array(il, dtype=dt), lay)


def make_polygon(poly, lay=0):
    from pydl.pydlutils.mangle import ManglePolygon
    caps = poly['caps']
    if len(caps) == 0 and not poly['use']:
        return ManglePolygon()
    x = np.array([vec(c['x']) for c in caps], dtype=np.float64).reshape((len(caps), 3))
    cm = np.array([fl(c['cm']) for c in caps], dtype=np.float64).reshape((len(caps),))
    return ManglePolygon(x=lay_arr(x, lay), cm=lay_arr(cm, lay), use_caps=lay_int(mask_int(poly['use']), lay))


def fits_rows(polys):
    """Harness-side assembly of a FITS polygon table from a polygon list (recorded direction only;
    in the replay direction the rows come from TLC's FitsForm)."""
    m = max(len(p['caps']) for p in polys)
    zero = ((0, 1), (0, 1), (0, 1))
    return [{'XCAPS': [p['caps'][j]['x'] if j < len(p['caps']) else zero for j in range(m)],
             'CMCAPS': [p['caps'][j]['cm'] if j < len(p['caps']) else (0, 1) for j in range(m)],
             'NCAPS': len(p['caps']), 'USE_CAPS': p['use']} for p in polys]


def ply_form(polys):
    return [{'id': k, 'ncaps': len(p['caps']), 'lines': [tuple(c['x']) + (c['cm'],) for c in p['caps']]}
            for k, p in enumerate(polys)]


def balkan_form(polys, order):
    """order: storage order of the polygons' caps (0-based polygon numbers)."""
    icap, bcaps, off = {}, [], 0
    for k in order:
        icap[k] = off
        bcaps += [{'X': c['x'], 'CM': c['cm']} for c in polys[k]['caps']]
        off += len(polys[k]['caps'])
    return {'blist': [{'ICAP': icap[k], 'NCAPS': len(p['caps'])} for k, p in enumerate(polys)], 'bcaps': bcaps}


def write_fits(path, rows):
    from astropy.io import fits
    n = len(rows)
    m = len(rows[0]['XCAPS'])
    x = np.zeros((n, m, 3), dtype=np.float64)
    cm = np.zeros((n, m), dtype=np.float64)
    for k, r in enumerate(rows):
        for j in range(m):
            x[k, j, :] = vec(r['XCAPS'][j])
            cm[k, j] = fl(r['CMCAPS'][j])
    cols = [fits.Column(name='XCAPS', format='%dD' % (3 * m), dim='(3,%d)' % m, array=x),
            fits.Column(name='CMCAPS', format='%dD' % m, array=cm),
            fits.Column(name='IFIELD', format='J', array=np.arange(n, dtype=np.int32) + 100),
            fits.Column(name='NCAPS', format='J', array=np.array([r['NCAPS'] for r in rows], dtype=np.int32)),
            fits.Column(name='WEIGHT', format='D', array=np.ones(n)),
            fits.Column(name='PIXEL', format='J', array=np.zeros(n, dtype=np.int32)),
            fits.Column(name='STR', format='D', array=np.ones(n)),
            fits.Column(name='USE_CAPS', format='J', bzero=2**31,
                        array=np.array([mask_int(r['USE_CAPS']) for r in rows], dtype=np.uint32))]
    fits.HDUList([fits.PrimaryHDU(), fits.BinTableHDU.from_columns(cols)]).writeto(path, overwrite=True)


NSTYLE = 4


def spell(v, style, is_cm):
    """One number of a cap line.  style 0 is what Mangle itself writes (%19.16f for the direction cosines,
    %.16g for cm, so |cm| < 1e-4 comes out in exponent notation); the others are further legal spellings of
    the same value: 1 shortest round-trip %.17g; 2 explicit + sign and upper-case E; 3 no leading zero (".5"),
    bare trailing point ("1.", "1.e-06")."""
    if style == 0:
        return ('%.16g' if is_cm else '%19.16f') % v
    s = '%.17g' % v
    if style == 2:
        return ('%+.17g' % v).upper()
    if style == 3:
        mant, e, ex = s.partition('e')
        if '.' not in mant:
            mant += '.'
        if mant.startswith('0.') and len(mant) > 2:
            mant = mant[1:]
        elif mant.startswith('-0.') and len(mant) > 3:
            mant = '-' + mant[2:]
        return mant + e + ex
    return s


def write_ply(path, ply, style=0):
    sep = {0: ' ', 1: ' ', 2: '   ', 3: ' \t'}[style]
    with open(path, 'w') as fh:
        fh.write('%d polygons\nsnapped\nbalkanized\n' % len(ply))
        for p in ply:
            fh.write('polygon %d ( %d caps, 1 weight, 0 pixel, 1.0 str):\n' % (p['id'], p['ncaps']))
            for ln in p['lines']:
                fh.write(' ' + sep.join(spell(fl(q), style, j == 3) for j, q in enumerate(ln)) +
                         ('  ' if style == 3 else '') + '\n')


def write_balkans(dirname, b):
    from astropy.io import fits
    n = len(b['blist'])
    bl = [fits.Column(name='IPRIMARY', format='J', array=np.arange(n, dtype=np.int32) + 7),
          fits.Column(name='IBINDX', format='J', array=np.zeros(n, dtype=np.int32)),
          fits.Column(name='NCAPS', format='J', array=np.array([r['NCAPS'] for r in b['blist']], dtype=np.int32)),
          fits.Column(name='ICAP', format='J', array=np.array([r['ICAP'] for r in b['blist']], dtype=np.int32)),
          fits.Column(name='WEIGHT', format='D', array=np.ones(n)),
          fits.Column(name='STR', format='D', array=np.ones(n))]
    fits.HDUList([fits.PrimaryHDU(), fits.BinTableHDU.from_columns(bl)]).writeto(
        os.path.join(dirname, 'window_blist.fits'), overwrite=True)
    nc = len(b['bcaps'])
    bc = [fits.Column(name='X', format='3D', array=np.array([vec(r['X']) for r in b['bcaps']]).reshape((nc, 3))),
          fits.Column(name='CM', format='D', array=np.array([fl(r['CM']) for r in b['bcaps']]).reshape((nc,)))]
    fits.HDUList([fits.PrimaryHDU(), fits.BinTableHDU.from_columns(bc)]).writeto(
        os.path.join(dirname, 'window_bcaps.fits'), overwrite=True)


_COUNTER = [0]
FORMS_FULL = ('memory', 'fits_raw', 'fits_convert', 'ply', 'balkans')
FORMS_MASKED = ('memory', 'fits_raw', 'fits_convert')


def load_form(ctx, form, polys, fits_r=None, ply=None, balkans=None, lay=0, style=0):
    """The polygon list in one storage form, read back by the reader of that form."""
    from pydl.pydlutils import mangle as mng
    _COUNTER[0] += 1
    d = os.path.join(ctx.scratch, 'forms', '%06d' % _COUNTER[0])      # never overwrite a file a reader may still map
    os.makedirs(d, exist_ok=True)
    if form == 'memory':
        return mng.PolygonList([make_polygon(p, lay) for p in polys])
    if form in ('fits_raw', 'fits_convert'):
        path = os.path.join(d, 'polygons.fits')
        write_fits(path, fits_r if fits_r is not None else fits_rows(polys))
        return mng.read_fits_polygons(path, convert=(form == 'fits_convert'))
    if form == 'ply':
        path = os.path.join(d, 'polygons.ply')
        write_ply(path, ply if ply is not None else ply_form(polys), style)
        return mng.read_mangle_polygons(path)
    if form == 'balkans':
        from pydl.photoop.window import window_read
        write_balkans(d, balkans if balkans is not None else balkan_form(polys, list(range(len(polys)))))
        old = os.environ.get('PHOTO_RESOLVE')
        os.environ['PHOTO_RESOLVE'] = d
        try:
            return window_read(balkans=True)['balkans']
        finally:
            if old is None:
                del os.environ['PHOTO_RESOLVE']
            else:
                os.environ['PHOTO_RESOLVE'] = old
    raise core.MachineryError('unknown storage form ' + form)


# ---------------------------------------------------------------- observation (real result -> spec value)
def exc_name(ex):
    return '%s: %s' % (type(ex).__name__, str(ex)[:120])


def obs_bool(fn, npts):
    try:
        r = fn()
    except Exception as ex:
        return {'exc': exc_name(ex), 'val': []}
    r = np.asarray(r)
    if r.shape != (npts,) or r.dtype != np.bool_:
        return {'exc': 'shape/dtype %r %s' % (r.shape, r.dtype), 'val': []}
    return {'exc': None, 'val': [bool(v) for v in r]}


def obs_window(fn, npts):
    try:
        inw, idx = fn()
    except Exception as ex:
        return {'exc': exc_name(ex), 'idx': [], 'inw': []}
    inw, idx = np.asarray(inw), np.asarray(idx)
    if inw.shape != (npts,) or idx.shape != (npts,) or inw.dtype != np.bool_ or idx.dtype.kind != 'i':
        return {'exc': 'shape/dtype %r %s %r %s' % (inw.shape, inw.dtype, idx.shape, idx.dtype), 'idx': [], 'inw': []}
    return {'exc': None, 'idx': [int(v) for v in idx], 'inw': [bool(v) for v in inw]}


def obs_usecaps(poly, idx, add, allow_doubles, allow_neg, lay):
    from pydl.pydlutils.mangle import set_use_caps
    P = make_polygon(poly, lay)
    P.use_caps = lay_int(mask_int(poly['use']), lay)
    il = lay_index(idx, lay)
    try:
        r = set_use_caps(P, il, add=add, allow_doubles=allow_doubles, allow_neg_doubles=allow_neg)
    except Exception as ex:
        return {'err': True, 'exc': exc_name(ex), 'ret': [], 'attr': bits(P.use_caps)}
    return {'err': False, 'exc': None, 'ret': bits(r), 'attr': bits(P.use_caps)}


# ---------------------------------------------------------------- running one spec case on the real code
def jsonable(v):
    if isinstance(v, dict):
        return {k: jsonable(x) for k, x in v.items()}
    if isinstance(v, (set, frozenset)):
        return sorted(jsonable(x) for x in v)
    if isinstance(v, (list, tuple)):
        return [jsonable(x) for x in v]
    return v


def points(pts, coords, lay=0):
    xyz = cart(pts)
    return lay_arr(xyz if coords == 'xyz' else radec(xyz), lay)


def run_cap(c, pts, coords, lay=0):
    from pydl.pydlutils.mangle import cap_distance, is_in_cap
    x = lay_arr(np.array(vec(c['cap']['x']), dtype=np.float64), lay)
    cm = lay_scalar(fl(c['cap']['cm']), lay)
    p = points(pts, coords, lay)
    obs = obs_bool(lambda: is_in_cap(x, cm, p), len(pts))
    if obs['exc'] is None:
        # observe_at: cap_distance's sign is the membership (negative = outside)
        try:
            d = np.asarray(cap_distance(x, cm, p))
            if d.shape != (len(pts),) or [bool(v >= 0) for v in d] != obs['val']:
                obs = {'exc': 'cap_distance sign disagrees with is_in_cap: %r' % (d.tolist(),), 'val': []}
        except Exception as ex:
            obs = {'exc': 'cap_distance: ' + exc_name(ex), 'val': []}
    return obs


def run_poly(c, pts, coords, lay=0):
    from pydl.pydlutils.mangle import is_in_polygon
    P = make_polygon(c['poly'], lay)
    n = lay_int(c['n'], lay)
    p = points(pts, coords, lay)
    if n == 0 and coords == 'xyz':
        return obs_bool(lambda: is_in_polygon(P, p), len(pts))     # default argument
    return obs_bool(lambda: is_in_polygon(P, p, ncaps=n), len(pts))


def run_window(ctx, c, pts, coords, form, loaded=None, lay=0, how=None):
    """loaded: cache {form: polygons | Exception} so that one state writes / reads each storage form once"""
    from pydl.pydlutils.mangle import is_in_window
    if loaded is None:
        loaded = {}
    how = how or {'lay': 0, 'style': 0}     # layout of in-memory polygons, spelling of the .ply numbers
    if form not in loaded:
        try:
            loaded[form] = load_form(ctx, form, c['polys'], c.get('fits'), c.get('ply'), c.get('balkans'),
                                     how['lay'], how['style'])
        except Exception as ex:
            loaded[form] = ex
    polys = loaded[form]
    if isinstance(polys, Exception):
        return {'exc': 'reader: ' + exc_name(polys), 'idx': [], 'inw': []}
    n = lay_int(c['n'], lay)
    p = points(pts, coords, lay)
    return obs_window(lambda: is_in_window(polys, p, ncaps=n), len(pts))


def integral_points(pts):
    """1-based numbers of the pool points all of whose coordinates are integers (the six axis points): they, and
    their RA/Dec in degrees, can be handed over as integer arrays."""
    return [i + 1 for i, p in enumerate(pts) if all(q[1] == 1 for q in p)]


def restrict(exp, sub):
    """TLC's expectation for the sub-array of points numbered `sub` (renumbered 1..len(sub))."""
    pos = {i: j + 1 for j, i in enumerate(sub)}
    out = {}
    for key, v in exp.items():
        if key in ('in', 'out', 'dev2out'):
            out[key] = frozenset(pos[i] for i in v if i in pos)
        elif key in ('allowed', 'dev2'):
            out[key] = tuple(v[i - 1] for i in sub)
        else:
            out[key] = v
    return out


def judge_bool(exp, obs):
    """indices (1-based, as in the spec) of the points whose answer the spec does not admit"""
    if obs['exc'] is not None:
        return None
    return [i for i in range(1, len(obs['val']) + 1)
            if (i in exp['in'] and not obs['val'][i - 1]) or (i in exp['out'] and obs['val'][i - 1])]


def judge_window(exp, obs):
    if obs['exc'] is not None:
        return None
    return [i for i in range(1, len(obs['idx']) + 1)
            if obs['idx'][i - 1] not in exp['allowed'][i - 1] or obs['inw'][i - 1] != (obs['idx'][i - 1] >= 0)]


# ---------------------------------------------------------------- named deviations (DESIGN.md section 6)
def classify_membership(exp, obs, bad, form=None, maxcaps=None):
    """Name the deviation of Mangle.tla that admits the observed answers, using only what TLC dumped:
    D-C12-2 (exp.dev2out / exp.dev2 come from CapAllowedD / PolyAllowedD / WindowAllowedD with dev = TRUE).
    D-C12-4 is a crash, not an answer: IndexError from a raw FITS table whose widest polygon has one cap."""
    if bad is None:
        if form == 'fits_raw' and maxcaps == 1 and (obs['exc'] or '').startswith('IndexError'):
            return 'D-C12-4'
        return None
    if 'val' in obs:
        if all(i in exp['dev2out'] and not obs['val'][i - 1] for i in bad):
            return 'D-C12-2'
        return None
    if all(obs['idx'][i - 1] in exp['dev2'][i - 1] and obs['inw'][i - 1] == (obs['idx'][i - 1] >= 0) for i in bad):
        return 'D-C12-2'
    return None


def classify_usecaps(exp, obs):
    o = {'err': obs['err'], 'use': frozenset(obs['ret'])}
    if not obs['err'] and obs['ret'] != obs['attr']:
        return None
    if obs['err'] and 'IndexError' not in (obs['exc'] or ''):
        return None
    d = {k: {'err': exp[k]['err'], 'use': frozenset(exp[k]['use'])} for k in ('dev1', 'dev3', 'dev13')}
    if o == d['dev3']:
        return 'D-C12-3'
    if o == d['dev1'] or o == d['dev13']:
        return 'D-C12-1'
    return None


_FORM_CACHE = {}


class Reporter:
    """Counts every failure, files at most MAX_PER_CLASS replay cases per class."""

    def __init__(self, ctx):
        self.ctx = ctx
        self.classes = {}

    def fail(self, cls, case, finding):
        n = self.classes.get(cls, 0)
        self.classes[cls] = n + 1
        if n < MAX_PER_CLASS:
            self.ctx.violation(case, finding=finding)

    def finish(self):
        if self.classes:
            self.ctx.cov['failure_classes'] = dict(self.classes)
            for cls, n in sorted(self.classes.items()):
                print('  failures of class %-40s %d%s' % (cls, n, '' if n <= MAX_PER_CLASS else
                                                          ' (first %d filed as replay cases)' % MAX_PER_CLASS))


# ---------------------------------------------------------------- spec -> code
def replay_state(ctx, rep, c, exp, pts, k):
    """All real calls of one TLC state.  Every call uses one form = (memory layout, numeric type) for its array /
    scalar arguments, rotated over the cases by seed; integer types apply to whatever is integral in the case
    (axis centres, cm in {0, +-1, +-2}, masks, ncaps, index lists).  One extra call per membership state hands over
    only the integral pool points (the axis points; as Cartesian integers or as integer RA/Dec degrees)."""
    fam = c['fam']
    ncalls = 0
    rot = k + ctx.seed
    isub = integral_points(pts)

    def form(j):
        return [(rot + j) % NLAY, (rot // NLAY + j) % NITY]

    def intform(j):
        return [(rot + j) % NLAY, 1 + (rot // NLAY + j) % (NITY - 1)]

    if fam in ('cap', 'poly'):
        name = 'cap' if fam == 'cap' else 'polygon'
        plan = [('xyz', None, form(0)), ('radec', None, form(1)), ('xyz' if k % 2 else 'radec', isub, intform(2))]
        for coords, sub, lay in plan:
            spts = pts if sub is None else [pts[i - 1] for i in sub]
            sexp = exp if sub is None else restrict(exp, sub)
            obs = run_cap(c, spts, coords, lay) if fam == 'cap' else run_poly(c, spts, coords, lay)
            ncalls += 1
            bad = judge_bool(sexp, obs)
            if bad is None or bad:
                finding = classify_membership(sexp, obs, bad)
                what = ('is_in_%s %s coords=%s%s: %s [layout %d, numeric type %s]' % (
                    name, brief(c), coords, '' if sub is None else ' (integral points only)',
                    obs['exc'] if bad is None else 'wrong at points %s; e.g. point %s expected %s observed %s' % (
                        bad[:6], spts[bad[0] - 1], bad[0] in sexp['in'], obs['val'][bad[0] - 1]),
                    lay[0], getattr(INT_TYPES[lay[1]], '__name__', 'float64')))
                rep.fail('%s/%s%s/%s' % (fam, coords, '' if sub is None else '-int', finding or 'unexplained'),
                         {'what': what, 'fam': fam, 'c': jsonable(c), 'coords': coords, 'form': '', 'lay': lay,
                          'pts': jsonable(spts), 'expected': jsonable(sexp), 'observed': obs}, finding)
        ctx.evaluated(ncalls, 'is_in_' + name)
        if exp['in'] and exp['out']:
            ctx.nontriv((fam, brief(c)))
    elif fam == 'window':
        forms = FORMS_FULL if c['full'] else FORMS_MASKED
        maxcaps = len(c['fits'][0]['XCAPS'])
        # states that differ only in the ncaps argument share their storage forms: written and read once
        key = (brief(c).rsplit(' ncaps=', 1)[0], repr(c['order']))
        if key not in _FORM_CACHE:
            if len(_FORM_CACHE) >= 8:
                _FORM_CACHE.pop(next(iter(_FORM_CACHE)))
            _FORM_CACHE[key] = {'how': {'style': rot % NSTYLE, 'lay': form(3)}}
        loaded = _FORM_CACHE[key]
        how = loaded['how']          # spelling of the .ply file / form of the in-memory polygons of this list
        plan = [(f, coords, None) for f in forms
                for coords in (('xyz', 'radec') if f in ('memory', 'fits_raw') or k % 2 else ('xyz',))]
        plan.append((forms[rot % len(forms)], 'xyz' if k % 2 else 'radec', isub))
        for sform, coords, sub in plan:
            lay = form(ncalls) if sub is None else intform(ncalls)
            spts = pts if sub is None else [pts[i - 1] for i in sub]
            sexp = exp if sub is None else restrict(exp, sub)
            obs = run_window(ctx, c, spts, coords, sform, loaded, lay, how)
            ncalls += 1
            bad = judge_window(sexp, obs)
            if bad is None or bad:
                finding = classify_membership(sexp, obs, bad, sform, maxcaps)
                what = ('is_in_window %s form=%s coords=%s%s: %s [layout %d, numeric type %s, ply style %d]' % (
                    brief(c), sform, coords, '' if sub is None else ' (integral points only)',
                    obs['exc'] if bad is None else 'wrong at points %s; e.g. point %s admitted %s observed %s' % (
                        bad[:6], spts[bad[0] - 1], sorted(sexp['allowed'][bad[0] - 1]), obs['idx'][bad[0] - 1]),
                    lay[0], getattr(INT_TYPES[lay[1]], '__name__', 'float64'), how['style']))
                rep.fail('window/%s/%s%s/%s' % (sform, coords, '' if sub is None else '-int', finding or 'unexplained'),
                         {'what': what, 'fam': fam, 'c': jsonable(c), 'coords': coords, 'form': sform,
                          'lay': lay, 'how': dict(how),
                          'pts': jsonable(spts), 'expected': jsonable(sexp), 'observed': obs}, finding)
        ctx.evaluated(ncalls, 'is_in_window')
        if len({min(a) for a in exp['allowed'] if len(a) == 1}) > 1:
            ctx.nontriv((fam, brief(c)))
    elif fam == 'usecaps':
        lay = form(0)
        obs = obs_usecaps(c['poly'], c['idx'], c['add'], c['allowDoubles'], c['allowNeg'], lay)
        ncalls = 1
        good = (not obs['err']) and frozenset(obs['ret']) == exp['use'] and obs['attr'] == obs['ret']
        if not good:
            finding = classify_usecaps(exp, obs)
            what = 'set_use_caps %s: expected bits %s observed %s [layout %d, numeric type %s]' % (
                brief(c), sorted(exp['use']), obs['exc'] if obs['err'] else (obs['ret'], obs['attr']),
                lay[0], getattr(INT_TYPES[lay[1]], '__name__', 'default'))
            rep.fail('usecaps/%s' % (finding or 'unexplained'),
                     {'what': what, 'fam': fam, 'c': jsonable(c), 'coords': '',
                      'form': '', 'lay': lay, 'pts': [], 'expected': jsonable(exp), 'observed': obs}, finding)
        ctx.evaluated(1, 'set_use_caps')
        if len(c['idx']) > 0:
            ctx.nontriv((fam, brief(c)))
    ctx.validated()
    return ncalls


def brief(c):
    def q(r):
        return '%d/%d' % tuple(r) if r[1] != 1 else '%d' % r[0]

    def cap(cp):
        return '(%s; cm=%s)' % (','.join(q(t) for t in cp['x']), q(cp['cm']))

    def poly(p):
        return '[%s use=%s]' % (' '.join(cap(cp) for cp in p['caps']), sorted(p['use']))
    if c['fam'] == 'cap':
        return cap(c['cap'])
    if c['fam'] == 'poly':
        return '%s ncaps=%d' % (poly(c['poly']), c['n'])
    if c['fam'] == 'window':
        return '{%s} ncaps=%d' % (', '.join(poly(p) for p in c['polys']), c['n'])
    return '%s idx=%s add=%s allow_doubles=%s allow_neg_doubles=%s' % (
        poly(c['poly']), list(c['idx']), c['add'], c['allowDoubles'], c['allowNeg'])


# ---------------------------------------------------------------- code -> spec: recorded calls
def quadruple_pool(dmax):
    """All rational unit vectors (a, b, c)/d with integer a, b, c and d <= dmax."""
    out = set()
    for d in range(1, dmax + 1):
        for a in range(-d, d + 1):
            for b in range(-d, d + 1):
                r = d * d - a * a - b * b
                if r < 0:
                    continue
                s = math.isqrt(r)
                if s * s == r:
                    for cc in {s, -s}:
                        out.add((Fraction(a, d), Fraction(b, d), Fraction(cc, d)))
    return sorted(out)


def rq(f):
    f = Fraction(f)
    return [f.numerator, f.denominator]


def rvec(v):
    return [rq(t) for t in v]


def neg(v):
    return tuple(-t for t in v)


CM_SPECIAL = [Fraction(k, 100) for k in (1, 50, 100, 150, 199, 200, 0, -1, -50, -100, -150, -199, -200)] + \
    [Fraction(1, 20000), Fraction(-1, 20000), Fraction(1, 1000000), Fraction(-1, 1000000)]   # exponent notation in .ply


def _tup(j):
    """JSON-shaped polygon -> the value shape the concretisers take"""
    return {'caps': [{'x': [tuple(t) for t in cp['x']], 'cm': tuple(cp['cm'])} for cp in j['caps']],
            'use': frozenset(j['use'])}


def _tpts(pts):
    return [[tuple(t) for t in p] for p in pts]


def execute_record(ctx, rec, m):
    """Run the real call described by (rec, m) and store what it returned in rec / m['exc']."""
    from pydl.pydlutils import mangle as mng
    kind = rec['kind']
    if kind == 'window':
        tp = [_tup(p) for p in rec['polys']]
        c = {'fam': 'window', 'polys': tp, 'n': rec['n'], 'balkans': balkan_form(tp, m['order'])}
        obs = run_window(ctx, c, _tpts(rec['pts']), m['coords'], m['form'], None, m['lay'],
                         {'lay': m['lay2'], 'style': m['style']})
        rec['obs'], rec['obsin'] = obs['idx'], obs['inw']
    elif kind == 'poly':
        obs = run_poly({'poly': _tup(rec['poly']), 'n': rec['n']}, _tpts(rec['pts']), m['coords'], m['lay'])
        rec['obs'] = obs['val']
    elif kind == 'cap':
        obs = run_cap({'cap': {'x': [tuple(t) for t in rec['cap']['x']], 'cm': tuple(rec['cap']['cm'])}},
                      _tpts(rec['pts']), m['coords'], m['lay'])
        rec['obs'] = obs['val']
    elif kind == 'usecaps':
        obs = obs_usecaps(_tup(rec['poly']), rec['idx'], rec['add'], rec['allowDoubles'], rec['allowNeg'],
                          m['lay'])
        rec['err'], rec['ret'], rec['attr'] = obs['err'], obs['ret'], obs['attr']
    elif kind == 'self':
        # an arbitrary (irrational) point handed to the code as the centre of the cap / as the centre's antipode
        p = lay_arr(np.array([m['point']], dtype=np.float64), m['lay'])
        if m['coords'] == 'radec':
            ra, dec = math.radians(m['point'][0]), math.radians(m['point'][1])
            x = np.array([math.cos(ra) * math.cos(dec), math.sin(ra) * math.cos(dec), math.sin(dec)])
        else:
            x = np.array(m['point'], dtype=np.float64)
        if rec['rel'] == 'antipode':
            x = -x
        cm = fl(rec['cm'])
        if m['via'] == 'is_in_cap':
            obs = obs_bool(lambda: mng.is_in_cap(lay_arr(x, m['lay']), lay_scalar(cm, m['lay']), p), 1)
        else:
            P = mng.ManglePolygon(x=lay_arr(x.reshape((1, 3)), m['lay']), cm=lay_arr(np.array([cm]), m['lay']))
            obs = obs_bool(lambda: mng.is_in_polygon(P, p), 1)
        rec['obs'] = obs['val'][0] if obs['val'] else False
    else:
        raise core.MachineryError('unknown record kind %r' % kind)
    m['exc'] = obs['exc'] or ''


def record_calls(ctx, rng, nwin, npoly, ncap, nuse, nself):
    full_pool = quadruple_pool(25)          # Mangle!MaxDen
    axis = [v for v in full_pool if all(t.denominator == 1 for t in v)]
    icm = [Fraction(t) for t in (0, 1, 2, -1, -2, 1, -1)]
    recs, meta = [], []
    # "grid" records live on the integer grid (axis centres and points, cm in {0, +-1, +-2}) so that every array
    # and scalar of the call can be handed over with an integer dtype
    state = {'grid': False}
    pool = full_pool

    def set_grid(prob):
        nonlocal pool
        state['grid'] = rng.random() < prob
        pool = axis if state['grid'] else full_pool
        return state['grid']

    def rcm():
        if state['grid']:
            return rng.choice(icm)
        return rng.choice(CM_SPECIAL) if rng.random() < 0.3 else Fraction(rng.randint(-200, 200), 100)

    def rcaps(n, centres):
        caps = []
        for _ in range(n):
            p = rng.random()
            x = rng.choice(centres) if (centres and p < 0.35) else (neg(rng.choice(centres)) if (centres and p < 0.5)
                                                                     else rng.choice(pool))
            centres.append(x)
            caps.append({'x': rvec(x), 'cm': rq(rcm())})
        return caps

    def rpts(n, centres):
        pts = []
        for _ in range(n):
            p = rng.random()
            v = rng.choice(centres) if (centres and p < 0.3) else (neg(rng.choice(centres)) if (centres and p < 0.45)
                                                                   else rng.choice(pool))
            pts.append(rvec(v))
        return pts

    for k in range(nwin):
        form = 'memory' if (set_grid(0.25) and rng.random() < 0.5) else rng.choice(FORMS_FULL)
        centres = []
        polys = []
        for _ in range(rng.randint(1, 4)):
            nc = rng.randint(1, 4)
            use = list(range(nc)) if form in ('ply', 'balkans') or rng.random() < 0.3 else \
                sorted(b for b in range(nc + 1) if rng.random() < 0.7)
            polys.append({'caps': rcaps(nc, centres), 'use': use})
        order = list(range(len(polys)))
        rng.shuffle(order)
        recs.append({'kind': 'window', 'polys': polys, 'n': rng.choice([0, 0, 1, 2, 3, 5]), 'pts': rpts(10, centres)})
        meta.append({'form': form, 'coords': rng.choice(['xyz', 'radec']), 'order': order,
                     'maxcaps': max(len(p['caps']) for p in polys)})
    for k in range(npoly):
        set_grid(0.25)
        centres = []
        nc = rng.randint(0, 5)
        poly = {'caps': rcaps(nc, centres), 'use': sorted(b for b in range(nc + 2) if rng.random() < 0.7)}
        recs.append({'kind': 'poly', 'poly': poly, 'n': rng.choice([0, 0, 1, 2, 3, 4, 7]), 'pts': rpts(12, centres)})
        meta.append({'form': 'memory', 'coords': rng.choice(['xyz', 'radec'])})
    for k in range(ncap):
        set_grid(0.3)
        centres = []
        cap = rcaps(1, centres)[0]
        recs.append({'kind': 'cap', 'cap': cap, 'pts': rpts(12, centres)})
        meta.append({'form': '', 'coords': rng.choice(['xyz', 'radec'])})
    set_grid(0.0)
    ucentres = [pool[0], pool[len(pool) // 2], pool[-1]]
    ucm = [Fraction(1, 2), Fraction(-1, 2), Fraction(1), Fraction(-1), Fraction(1, 100), Fraction(-1, 100), Fraction(3, 2)]
    for k in range(nuse):
        nc = rng.randint(1, 5)
        if rng.random() < 0.3:          # integer grid: axis centres, integral cm (unsigned differences, integer sums)
            caps = [{'x': rvec(rng.choice(axis[:2] if rng.random() < 0.8 else axis)),
                     'cm': rq(rng.choice(icm))} for _ in range(nc)]
        else:
            caps = [{'x': rvec(rng.choice(ucentres[:2] if rng.random() < 0.8 else ucentres)),
                     'cm': rq(rng.choice(ucm[:4] if rng.random() < 0.7 else ucm))} for _ in range(nc)]
        poly = {'caps': caps, 'use': sorted(b for b in range(nc + 1) if rng.random() < 0.5)}
        idx = [rng.randrange(nc) for _ in range(rng.randint(0, nc))]
        if rng.random() < 0.15:
            idx = list(range(nc))
        recs.append({'kind': 'usecaps', 'poly': poly, 'idx': idx, 'add': rng.random() < 0.4,
                     'allowDoubles': rng.random() < 0.25, 'allowNeg': rng.random() < 0.4})
        meta.append({'form': '', 'coords': ''})
    for k in range(nself):
        coords = rng.choice(['xyz', 'radec'])
        rel = 'centre' if rng.random() < 0.6 else 'antipode'
        cm = rcm()
        whole = rng.random() < 0.4       # whole degrees / axis vectors: can be handed over as integers
        if whole:
            cm = rng.choice(icm + CM_SPECIAL)
        if coords == 'radec':
            ra = rng.uniform(-180.0, 360.0)
            dec = math.degrees(math.asin(rng.uniform(-1.0, 1.0)))
            if whole:
                ra, dec = float(rng.randint(0, 359) if rng.random() < 0.7 else rng.randint(-180, -1)), \
                    float(rng.randint(0, 90) if rng.random() < 0.5 else rng.randint(-90, 90))
            point = [ra, dec]
        elif whole:
            point = [float(t) for t in rng.choice(axis)]
        else:
            v = np.array([rng.gauss(0, 1), rng.gauss(0, 1), rng.gauss(0, 1)])
            point = [float(t) for t in v / math.sqrt(float((v * v).sum()))]
        recs.append({'kind': 'self', 'rel': rel, 'cm': rq(cm)})
        meta.append({'form': '', 'coords': coords, 'point': point,
                     'via': 'is_in_cap' if rng.random() < 0.5 else 'is_in_polygon'})
    for rec, m in zip(recs, meta):
        m.update({'lay': [rng.randrange(NLAY), rng.randrange(NITY)], 'lay2': [rng.randrange(NLAY), rng.randrange(NITY)],
                  'style': rng.randrange(NSTYLE)})
        execute_record(ctx, rec, m)
    return recs, meta


def classify_record(rec, m, why):
    """why = "<kind> <deviation id or empty>" as decided by Trace_Mangle!DevAdmits; exceptions never reach TLC."""
    if why == 'exception':
        if rec['kind'] == 'window' and m['form'] == 'fits_raw' and m.get('maxcaps') == 1 and m['exc'].startswith('IndexError'):
            return 'D-C12-4'
        return None
    dev = why.split(' ', 1)[1].strip() if ' ' in why else ''
    if rec['kind'] == 'usecaps' and rec['err'] and not m['exc'].startswith('IndexError'):
        return None
    return dev or None


# ---------------------------------------------------------------- entry points
def run(ctx):
    ctx.level = 'model_checking'
    ctx.rule = ('every non-seed state of MC_Mangle is one real call per coordinate convention / storage form '
                '(cap: is_in_cap; poly: is_in_polygon with use-mask and ncaps; window: is_in_window through memory, '
                'FITS raw, FITS convert, .ply, blist+bcaps; usecaps: set_use_caps); each call decides all pool points at '
                'once; evaluations = real calls; non-trivial = distinct cases whose admitted answers differ between points '
                '(or non-empty index list); recorded calls = seeded random rational geometry judged by Trace_Mangle')
    ctx.assumptions = ['points exactly on a cap boundary (1 - x.p = |cm| in exact rationals) are not decided (both answers admitted)',
                       'geometry restricted to rational unit vectors (denominators <= 25) and rational cm so that TLC decides exactly; '
                       'irrational points only as a cap\'s own centre / antipode ("self" records)',
                       'stored polygon lists have >= 1 cap per polygon (quantifier of the property); zero-cap polygons only in memory',
                       'set_use_caps index lists within the documented precondition (entries < ncaps, length <= ncaps); tol left at its default',
                       'every array / scalar argument is rotated over memory layouts (read-only, strided, Fortran, byte-swapped, 0-d) and, '
                       'where its values are integral (axis vectors, whole degrees, cm in {0, +-1, +-2}, masks, ncaps, index lists), over '
                       'int8..int64 / uint8..uint64 / Python int; expected values are TLC\'s for the same values',
                       'use_caps wider than the integer type the caller stored it in (polygon.use_caps = np.int8(..) with >= 8 caps) is the '
                       'caller\'s overflow, not covered']
    cfg = 'MC_Mangle_quick.cfg' if ctx.quick else 'MC_Mangle_thorough.cfg'
    r = ctx.tlc('MC_Mangle.tla', cfg, dump=True, timeout=1500)
    states = []
    pts = None
    for st in core.iter_states(r):
        c = st['c']
        if c['fam'] == 'pool':
            pts = c['pts']
        elif c['fam'] in ('cap', 'poly', 'window', 'usecaps'):
            states.append((c, st['exp']))
    if pts is None:
        raise core.MachineryError('no pool state in the dump')
    states.sort(key=lambda s: (s[0]['fam'], brief(s[0]), repr(s[0].get('order'))))   # dump order depends on worker scheduling
    rep = Reporter(ctx)
    for k, (c, exp) in enumerate(states):
        replay_state(ctx, rep, c, exp, pts, k)
        if k % max(1, len(states) // 5) == 0:
            ctx.sample({'case': brief(c), 'expected': _brief_exp(exp)})
    # ---- code -> spec
    rng = random.Random(ctx.seed)
    sizes = (150, 150, 100, 400, 500) if ctx.quick else (1200, 1500, 800, 5000, 5000)
    recs, meta = record_calls(ctx, rng, *sizes)
    # a membership call that raised has no answer to judge: it is a failure by itself, not sent to TLC
    judged = [k for k in range(len(recs)) if not (meta[k]['exc'] and recs[k]['kind'] != 'usecaps')]
    verdict = core.validate_records(ctx, 'Trace_Mangle', [recs[k] for k in judged], chunk=1000)
    bad = {judged[j]: why for j, why in verdict.items()}
    for k in range(len(recs)):
        if k not in judged:
            bad[k] = 'exception'
    ctx.evaluated(len(recs), 'recorded')
    ctx.validated(len(recs))
    for k, rec in enumerate(recs):
        if rec['kind'] != 'self':
            ctx.nontriv(('rec', k))
    for k in sorted(bad):
        if bad[k] == 'input':
            raise core.MachineryError('Trace_Mangle rejected the INPUT of record %d: %r' % (k, recs[k]))
        finding = classify_record(recs[k], meta[k], bad[k])
        rep.fail('recorded/%s/%s' % (recs[k]['kind'], finding or 'unexplained'),
                 {'what': 'recorded %s call rejected by Trace_Mangle (%s) %s: %s' % (
                     recs[k]['kind'], bad[k], meta[k], str(recs[k])[:400]),
                  'fam': 'record', 'record': recs[k], 'meta': meta[k]},
                 finding)
    ctx.sample({'recorded_call': recs[0], 'meta': meta[0]})
    # ---- binding self-test: accepted records with one observed field falsified must all be rejected by Trace_Mangle
    import copy
    fals, per_kind = [], {}
    for k, rec in enumerate(recs):
        kind = rec['kind']
        if k in bad or per_kind.get(kind, 0) >= 60:
            continue
        r2 = copy.deepcopy(rec)
        if kind in ('cap', 'poly'):
            # every answer inverted; at least one of the 12 points is decided unless all lie exactly on boundaries,
            # which the integer-grid records (cm in {0, +-1, +-2}, axis points) can do: those are left out
            caps = [rec['cap']] if kind == 'cap' else rec['poly']['caps']
            if not rec['pts'] or any(cp['cm'][1] == 1 for cp in caps):
                continue
            r2['obs'] = [not v for v in rec['obs']]
        elif kind == 'window':              # "inside" flag contradicting the returned index, at one point
            j = k % len(rec['obsin'])
            r2['obsin'][j] = not r2['obsin'][j]
        elif kind == 'usecaps':             # one bit of the returned use_caps toggled (returned value and attribute)
            b = k % (len(rec['poly']['caps']) + 1)
            r2['ret'] = sorted(set(rec['ret']) ^ {b})
            r2['attr'] = list(r2['ret']) if k % 3 else rec['attr']
        else:                               # self: the centre / antipode answer inverted (cm = 0, +-2 are boundaries)
            if rec['cm'] in ([0, 1], [2, 1], [-2, 1]):
                continue
            r2['obs'] = not rec['obs']
        per_kind[kind] = per_kind.get(kind, 0) + 1
        fals.append(r2)
    core.binding_selftest(ctx, 'Trace_Mangle', fals, 'recorded_calls')
    rep.finish()
    ctx.exhaustive = not ctx.quick


def _brief_exp(exp):
    if 'allowed' in exp:
        return {'first_points_admitted': [sorted(a) for a in exp['allowed'][:8]]}
    if 'use' in exp:
        return {'use_caps_bits': sorted(exp['use'])}
    return {'n_in': len(exp['in']), 'n_out': len(exp['out']), 'n_undecided_boundary': 'rest'}


def replay(ctx, case):
    """bin/check C12 --replay <file>: re-run the one failing call of a replay file against its stored expectation."""
    ctx.level = 'model_checking'
    ctx.rule = 'single replayed case'
    ctx.nontriv('a')
    ctx.nontriv('b')
    ctx.evaluated(1)
    fam = case['fam']
    if fam == 'record':
        rec, m = dict(case['record']), dict(case['meta'])
        execute_record(ctx, rec, m)
        print('recorded call re-executed:', str(rec)[:600], m)
        if m['exc'] and rec['kind'] != 'usecaps':
            ctx.violation(case)
        elif core.validate_records(ctx, 'Trace_Mangle', [rec]):
            ctx.violation(case)
        return
    c, exp, pts = case['c'], case['expected'], case['pts']
    if fam in ('cap', 'poly'):
        lay = case.get('lay', 0)
        obs = run_cap(c, pts, case['coords'], lay) if fam == 'cap' else run_poly(c, pts, case['coords'], lay)
        bad = judge_bool({'in': set(exp['in']), 'out': set(exp['out'])}, obs)
        fail = bad is None or bool(bad)
    elif fam == 'window':
        obs = run_window(ctx, c, pts, case['coords'], case['form'], None, case.get('lay', 0), case.get('how'))
        bad = judge_window({'allowed': [set(a) for a in exp['allowed']]}, obs)
        fail = bad is None or bool(bad)
    else:
        obs = obs_usecaps({'caps': c['poly']['caps'], 'use': set(c['poly']['use'])}, c['idx'], c['add'],
                          c['allowDoubles'], c['allowNeg'], case.get('lay', 0))
        bad = None
        fail = obs['err'] or sorted(obs['ret']) != sorted(exp['use']) or obs['attr'] != obs['ret']
    print('replayed:', case['what'], '\nobserved now:', obs, '\nwrong points:', bad)
    if fail:
        ctx.violation(case)
