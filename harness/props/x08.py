"""X08 (growth unit) - the parts of the yanny reader / writer, one by one.

Spec: spec/YannyParts.tla (EXTENDS Yanny; every operator is a projection of the reference model of the format onto
what one helper / accessor returns); MC: mc/MC_YannyParts; Trace: trace/Trace_YannyParts.

spec -> code: every case state of MC_YannyParts (family tok / prot / tc / dts / acc / conv: one call c with the
outcome exp the specification admits) is executed on the real pydl.pydlutils.yanny.yanny and compared with exp.
code -> spec: seeded random / adversarial calls of the same functions (longer strings, wider alphabets, random typedef
texts and layouts, random dtypes) are recorded as [fn, arguments, abstracted result] and judged by TLC
(Trace_YannyParts) with the same operators.
Python only concretises (text -> str / numpy str_ / bytes_, field list -> numpy dtype in several representations,
text -> file read by path / text object / binary object, raw or not) and abstracts (str -> list of characters,
numpy dtype -> (kind, width, shape) per field, float -> the rational of its shortest decimal form).
"""
import copy
import json
import os
import random
import re
from fractions import Fraction

import numpy as np

from .. import core, tlaval

SEEDS = ('root', 'seed', 'dseed', 'aseed')
FINDING_BY_NOTE = (('brace', 'D-X08-3'), ('charname', 'D-X08-4'), ('emptyauto', 'D-X08-5'))   # D-X08-1/-2 are fixed: they excuse nothing
MAX_LISTED = 30


# ----------------------------------------------------------------------------------------------
# fast reader of the TLC dump (records, tuples, integers, strings, booleans -> JSON), self-checked
# against the generic parser
# ----------------------------------------------------------------------------------------------
_FIELD = re.compile(r'([A-Za-z_]\w*) \|->')
_STRING = re.compile(r'"(?:[^"\\]|\\.)*"')


def _fast_value(text):
    strings = []

    def keep(m):
        strings.append(m.group(0))
        return '\x00%d\x00' % (len(strings) - 1)
    t = _STRING.sub(keep, text)
    t = _FIELD.sub(r'"\1":', t).replace('[', '{').replace(']', '}')
    t = t.replace('<<', '[').replace('>>', ']').replace('TRUE', 'true').replace('FALSE', 'false')
    t = re.sub('\x00(\\d+)\x00', lambda m: strings[int(m.group(1))], t)
    return json.loads(t)


def _listify(v):
    if isinstance(v, dict):
        return {k: _listify(x) for k, x in v.items()}
    if isinstance(v, (tuple, list)):
        return [_listify(x) for x in v]
    return v


def fast_states(r, selfcheck=200):
    path = r.get('dump')
    if not path or not os.path.exists(path):
        raise core.MachineryError('TLC wrote no dump')
    count = [0]

    def parse(block):
        st = {}
        ref = {}
        count[0] += 1
        check = count[0] <= selfcheck or count[0] % 1009 == 0
        for conj in block.split('\n/\\ '):
            conj = conj.strip()
            if conj.startswith('/\\ '):
                conj = conj[3:]
            if not conj:
                continue
            name, _, val = conj.partition(' = ')
            st[name.strip()] = _fast_value(val)
            if check:
                ref[name.strip()] = _listify(tlaval.parse_value(val))
        if check and ref != st:
            raise core.MachineryError('fast dump reader disagrees with tlaval on state %d' % count[0])
        return st

    buf = []
    with open(path) as fh:
        for line in fh:
            if line.startswith('State '):
                if buf:
                    yield parse(''.join(buf))
                buf = []
            elif line.strip():
                buf.append(line)
    if buf:
        yield parse(''.join(buf))
    try:
        os.remove(path)
    except OSError:
        pass


# ----------------------------------------------------------------------------------------------
# concretise / execute / abstract, one function per family
# ----------------------------------------------------------------------------------------------
def Y():
    from pydl.pydlutils.yanny import yanny
    return yanny


def as_kind(s, kind):
    if kind == 'npstr':
        return np.str_(s)
    if kind == 'npbytes':
        return np.bytes_(s.encode('ascii'))
    return s


def run_tok(s, rot=0):
    arg = np.str_(s) if rot % 2 else s
    try:
        r = Y().get_token(arg)
    except Exception as ex:   # noqa
        return {'exc': type(ex).__name__, 'word': '', 'rem': ''}
    if not (isinstance(r, tuple) and len(r) == 2 and all(isinstance(x, str) for x in r)):
        return {'exc': 'returned %r' % (r,), 'word': '', 'rem': ''}
    return {'exc': '', 'word': str(r[0]), 'rem': str(r[1])}


def run_prot(s, kind):
    try:
        r = Y().protect(as_kind(s, kind))
    except Exception as ex:   # noqa
        return {'exc': type(ex).__name__, 'val': ''}
    if not isinstance(r, str):
        return {'exc': 'returned %s' % type(r).__name__, 'val': ''}
    return {'exc': '', 'val': str(r)}


def run_tc(s, rot=0):
    arg = np.str_(s) if rot % 2 else s
    try:
        r = Y().trailing_comment(arg)
    except Exception as ex:   # noqa
        return {'exc': type(ex).__name__, 'val': ''}
    if not isinstance(r, str):
        return {'exc': 'returned %s' % type(r).__name__, 'val': ''}
    return {'exc': '', 'val': str(r)}


NPCODE = {'i2': 'i2', 'i4': 'i4', 'i8': 'i8', 'f4': 'f4', 'f8': 'f8', 'u4': 'u4', 'i1': 'i1', 'b1': '?', 'f2': 'f2', 'c8': 'c8'}
DTS_REPRS = ('native', 'swapped', 'aligned', 'recarray', 'table', 'offsets')


def make_dtype(cols, how):
    fields = []
    for f in cols:
        code = ('S%d' % f['w']) if f['kind'] == 'S' else ('U%d' % f['w']) if f['kind'] == 'U' else NPCODE[f['kind']]
        fields.append((f['name'], code, (f['alen'],)) if f['alen'] > 0 else (f['name'], code))
    dt = np.dtype(fields)
    if how == 'swapped':
        return dt.newbyteorder()
    if how == 'aligned':
        return np.dtype(fields, align=True)
    if how == 'recarray':
        return np.zeros((2,), dtype=dt).view(np.recarray).dtype
    if how == 'table':
        from astropy.table import Table
        return Table(np.zeros((1,), dtype=dt)).dtype
    if how == 'offsets':       # the same fields laid out back to front in memory
        offs, pos = [], 0
        for nme in reversed(dt.names):
            offs.append((nme, pos))
            pos += dt[nme].itemsize
        o = dict(offs)
        return np.dtype({'names': list(dt.names), 'formats': [dt[n] for n in dt.names], 'offsets': [o[n] for n in dt.names],
                         'itemsize': pos})
    return dt


def run_dts(c, rot=0):
    """c: cols [{name, kind, w, alen}], enums [{col, ename, labels}], sname."""
    how = DTS_REPRS[rot % len(DTS_REPRS)]
    try:
        dt = make_dtype(c['cols'], how)
    except Exception as ex:   # noqa  (a representation numpy itself refuses: use the plain one)
        dt = make_dtype(c['cols'], 'native')
    kw = {}
    if c['enums']:
        lab = tuple if (rot // 2) % 2 else list
        kw['enums'] = {e['col']: (e['ename'], lab(e['labels'])) for e in c['enums']}
    elif rot % 3:
        kw['enums'] = None if rot % 3 == 1 else {}
    if not (c['sname'] == 'mystruct' and rot % 2):
        kw['structname'] = c['sname']
    before = (repr(dt), str(dt), copy.deepcopy(kw))
    try:
        r = Y().dtype_to_struct(dt, **kw)
    except Exception as ex:   # noqa
        return {'err': True, 'key': '', 'names': [], 'struct': '', 'enums': [], 'exc': type(ex).__name__, 'how': how}
    if (repr(dt), str(dt), kw) != before:
        return {'err': False, 'key': '', 'names': [], 'struct': '', 'enums': [], 'exc': 'an argument was modified', 'how': how}
    try:
        keys = [k for k in r if k not in ('enum', 'struct')]
        ok = isinstance(r, dict) and len(keys) == 1 and len(r['struct']) == 1 and isinstance(r['struct'][0], str) and \
            all(isinstance(x, str) for x in r['enum']) and all(isinstance(x, str) for x in r[keys[0]])
    except Exception:   # noqa
        ok = False
    if not ok:
        return {'err': False, 'key': '', 'names': [], 'struct': '', 'enums': [], 'exc': 'result has not the documented shape: %r' % (r,), 'how': how}
    return {'err': False, 'key': str(keys[0]), 'names': [str(x) for x in r[keys[0]]], 'struct': str(r['struct'][0]),
            'enums': [str(x) for x in r['enum']], 'exc': '', 'how': how}


def dts_conforms(exp, obs, struct_field='struct'):
    if exp['err']:
        return obs['err']
    return (not obs['err'] and obs['exc'] == '' and obs['key'] == exp['key'] and obs['names'] == exp['names']
            and obs['struct'] == exp[struct_field]
            and set(exp['enumreq']) <= set(obs['enums']) <= set(exp['enumall']))


# ---- accessors -------------------------------------------------------------------------------
WAYS = ('path', 'text', 'binary')
NONE = {'k': 'none', 'n': 0}


def _call(f, *a):
    try:
        return f(*a), ''
    except Exception as ex:   # noqa
        return None, type(ex).__name__


def _text_or(v, err):
    if err:
        return '!' + err
    if v is None:
        return '!None'
    return str(v) if isinstance(v, str) else '!' + type(v).__name__


def _bool_or(v, err):
    return bool(v) if (not err and isinstance(v, (bool, np.bool_))) else ('!' + (err or type(v).__name__))


def _clen(v, err):
    if err:
        return {'k': 'exc', 'n': 0}
    if v is None:
        return dict(NONE)
    if isinstance(v, (int, np.integer)) and not isinstance(v, bool):
        return {'k': 'int', 'n': int(v)}
    return {'k': 'other', 'n': 0}


def _dt_fields(dt, ncols):
    """numpy dtype -> per field {kind, w, shape}."""
    out = []
    for nme in dt.names:
        f = dt[nme]
        base, shape = (f.subdtype[0], list(f.subdtype[1])) if f.subdtype else (f, [])
        if base.kind == 'S':
            out.append({'name': nme, 'kind': 'S', 'w': int(base.itemsize), 'shape': shape})
        else:
            out.append({'name': nme, 'kind': base.str[1:], 'w': 0, 'shape': shape})
    return out


def open_object(ctx, text, way, raw):
    path = os.path.join(ctx.scratch, 'x08.par')
    with open(path, 'w', newline='') as fh:
        fh.write(text)
    yanny = Y()
    try:
        if way == 'path':
            return yanny(path, raw=raw)
        if way == 'text':
            with open(path, 'r', newline='') as fh:
                return yanny(fh, raw=raw)
        with open(path, 'rb') as fh:
            return yanny(fh, raw=raw)
    finally:
        os.remove(path)


def observe_acc(ctx, text, rot=0, raw=None):
    """Read `text` and ask every accessor (twice, in an order that depends on rot); returns the observation in the
    shape of YannyParts!Accessors."""
    way = WAYS[rot % 3]
    if raw is None:
        raw = bool((rot // 3) % 2)
    try:
        y = open_object(ctx, text, way, raw)
    except Exception as ex:   # noqa
        return {'fail': 'yanny(%s, raw=%s) raised %s: %s' % (way, raw, type(ex).__name__, str(ex)[:80]), 'tables': [], 'pairs': [],
                'undef': dict(NONE), 'tabs': [], 'way': way, 'raw': raw}
    o = {'fail': '', 'way': way, 'raw': raw}
    v, err = _call(y.tables)
    o['tables'] = [str(x) for x in v] if not err and all(isinstance(x, str) for x in v) else ['!' + (err or 'type')]
    v, err = _call(y.pairs)
    o['pairs'] = [str(x) for x in v] if not err and all(isinstance(x, str) for x in v) else ['!' + (err or 'type')]
    tabs = []
    names = o['tables'] if not o['tables'] or not o['tables'][0].startswith('!') else []
    first_col = None
    for t in names:
        v, err = _call(y.columns, t)
        cols = [str(x) for x in v] if not err and isinstance(v, list) and all(isinstance(x, str) for x in v) else ['!' + (err or 'type')]
        v, err = _call(y.size, t)
        size = int(v) if not err and isinstance(v, (int, np.integer)) and not isinstance(v, bool) else -1
        acc = {}
        order = ['type', 'basetype', 'isarray', 'isenum', 'array_length', 'char_length']
        k = rot % 4
        order = order[k:] + order[:k] if k < 3 else order[::-1]
        colobs = []
        for cn in cols:
            if cn.startswith('!'):
                continue
            if first_col is None:
                first_col = cn
            got = {}
            for rep in (0, 1):          # the second round is answered from the object's caches: it must say the same
                for fn in order:
                    r = _call(getattr(y, fn), t, cn)
                    if rep == 0:
                        got[fn] = r
                    elif got[fn] != r and not (isinstance(r[0], float) and r[0] != r[0]):
                        got[fn] = (None, 'second call differs')
            colobs.append({'name': cn,
                           'type': _text_or(*got['type']), 'base': _text_or(*got['basetype']),
                           'isarray': _bool_or(*got['isarray']), 'isenum': _bool_or(*got['isenum']),
                           'alen': int(got['array_length'][0]) if not got['array_length'][1] and isinstance(got['array_length'][0], (int, np.integer))
                           and not isinstance(got['array_length'][0], bool) else -1,
                           'clen': _clen(*got['char_length'])})
        v, err = _call(y.dtype, t)
        if not err and isinstance(v, np.dtype) and v.names is not None and list(v.names) == [c['name'] for c in colobs]:
            for c, f in zip(colobs, _dt_fields(v, len(colobs))):
                c['dt'] = {'kind': f['kind'], 'w': f['w'], 'shape': f['shape']}
        else:
            for c in colobs:
                c['dt'] = {'kind': '!' + (err or 'names'), 'w': 0, 'shape': []}
        if not raw and not err:
            # in non-raw mode the table itself is a record array of exactly this dtype
            try:
                if y[t].dtype != v:
                    for c in colobs:
                        c['dt'] = {'kind': '!table dtype differs', 'w': 0, 'shape': []}
            except Exception:   # noqa
                pass
        tabs.append({'name': t, 'columns': cols, 'size': size, 'cols': colobs})
    o['tabs'] = tabs
    # type() of names the text does not define: None is documented
    undef = [_call(y.type, 'NO_SUCH_TABLE', first_col or 'a')]
    if names:
        undef.append(_call(y.type, names[0], 'no_such_member'))
    o['undef'] = dict(NONE) if all(err == '' and v is None for v, err in undef) else {'k': 'other', 'n': 0}
    return o


def _clen_ok(e, o):
    return e['k'] == 'open' or (o['k'] == e['k'] and o['n'] == e['n'])


def _dt_ok(e, o):
    return o['kind'] == e['kind'] and list(o['shape']) == list(e['shape']) and \
        (o['w'] >= e['w'] if e['wmin'] else o['w'] in (0, 1) if (e['kind'] == 'S' and e['w'] == 0) else o['w'] == e['w'])


def acc_whys(e, o):
    """Every part of the observation that differs from Accessors(text) (the comparison Trace_YannyParts!AccWhys makes):
    a list of (accessor, table, member, description); [] = conforms."""
    if o['fail']:
        return [('fail', '', '', 'object could not be read: ' + o['fail'])]
    if o['tables'] != list(e['tables']) or len(o['tabs']) != len(e['tabs']):
        return [('tables', '', '', 'tables() = %r, specified %r' % (o['tables'], list(e['tables'])))]
    out = []
    if o['pairs'] != list(e['pairs']):
        out.append(('pairs', '', '', 'pairs() = %r, specified %r' % (o['pairs'], list(e['pairs']))))
    if o['undef'] != e['undef']:
        out.append(('undef', '', '', 'type() of an undefined structure / member is not None'))
    for te, to in zip(e['tabs'], o['tabs']):
        if to['columns'] != list(te['columns']) or len(to['cols']) != len(te['cols']):
            out.append(('columns', te['name'], '', 'columns(%s) = %r, specified %r' % (te['name'], to['columns'], list(te['columns']))))
            continue
        if to['size'] != te['size']:
            out.append(('size', te['name'], '', 'size(%s) = %r, specified %r' % (te['name'], to['size'], te['size'])))
        for ce, co in zip(te['cols'], to['cols']):
            for fld, acc in (('type', 'type'), ('base', 'basetype'), ('isarray', 'isarray'), ('isenum', 'isenum'), ('alen', 'array_length')):
                if co[fld] != ce[fld]:
                    out.append((acc, te['name'], ce['name'], '%s(%s, %s) = %r, specified %r' % (acc, te['name'], ce['name'], co[fld], ce[fld])))
            if not _clen_ok(ce['clen'], co['clen']):
                out.append(('char_length', te['name'], ce['name'],
                            'char_length(%s, %s) = %r, specified %r' % (te['name'], ce['name'], co['clen'], ce['clen'])))
        if not any(ce['dt']['open'] for ce in te['cols']):
            for ce, co in zip(te['cols'], to['cols']):
                if not _dt_ok(ce['dt'], co['dt']):
                    out.append(('dtype', te['name'], ce['name'],
                                'dtype(%s) field %s = %r, specified %r' % (te['name'], ce['name'], co['dt'], ce['dt'])))
                    break
    return out


def acc_why(e, o):
    w = acc_whys(e, o)
    return w[0][3] if w else ''


# ---- which still-known deviation(s) reproduce what was observed -----------------------------------------------
# A deviation is used only when its status in known_findings.json is "known" and only for the parts of the observation
# it produces: D-X08-3 (brace in a typedef comment) loses the structure (tables() differs / the object cannot be read);
# D-X08-4 makes isarray / array_length / char_length / dtype of a member of an enum type named *char* wrong; D-X08-5
# makes dtype() of a table with an all-empty char NAME[n][] member raise.  The fixed D-X08-1 / D-X08-2 explain nothing.
def _charname_member(ce):
    return ce['base'] != 'char' and 'char' in ce['base']


def _emptyauto_member(te, ce):
    return ce['base'] == 'char' and ce['isarray'] and ce['type'].endswith('[]') and te['size'] > 0 and ce['clen'] == {'k': 'int', 'n': 0}


def _explains(key, e, w):
    acc, tname, member = w[0], w[1], w[2]
    if acc == 'fail':
        return True                      # the constructor builds every table's dtype
    if key == 'brace':
        return acc == 'tables'
    tab = [t for t in e['tabs'] if t['name'] == tname]
    if not tab:
        return False
    te = tab[0]
    if key == 'charname':
        if acc in ('isarray', 'array_length', 'char_length'):
            return any(ce['name'] == member and _charname_member(ce) for ce in te['cols'])
        return acc == 'dtype' and any(_charname_member(ce) for ce in te['cols'])
    if key == 'emptyauto':
        return acc == 'dtype' and any(_emptyauto_member(te, ce) for ce in te['cols'])
    return False


def findings_of(ctx, exp, whys):
    """The smallest set of still-known deviations present in the text that accounts for every differing part."""
    import itertools
    known = {f.get('id') for f in ctx.findings if f.get('status') == 'known'}
    cand = [(key, fid) for key, fid in FINDING_BY_NOTE if exp['notes'].get(key) and fid in known]
    for size in range(1, len(cand) + 1):
        for sub in itertools.combinations(cand, size):
            if all(any(_explains(key, exp, w) for key, _ in sub) for w in whys):
                return [fid for _, fid in sub]
    return []


# ---- convert ---------------------------------------------------------------------------------
CONV_TEXT = '''typedef enum { A, BB } E;
typedef struct {
    short s; int i; long l; float f; double d; char c[5]; E e;
    short sa[2]; int ia[2]; long la[2]; float fa[2]; double da[2]; char ca[2][5]; E ea[2];
} CV;
'''
CONV_COL = {'short': 's', 'int': 'i', 'long': 'l', 'float': 'f', 'double': 'd', 'char': 'c', 'E': 'e'}
_conv_obj = []


def conv_object(ctx):
    if not _conv_obj:
        _conv_obj.append(open_object(ctx, CONV_TEXT, 'path', True))
    return _conv_obj[0]


def _abs_conv(v):
    if isinstance(v, bool):
        return {'k': 'other', 'i': 0, 'q': [0, 1], 's': ''}
    if isinstance(v, int):
        return {'k': 'int', 'i': v, 'q': [0, 1], 's': ''} if abs(v) < 2**31 else {'k': 'other', 'i': 0, 'q': [0, 1], 's': ''}
    if isinstance(v, float):
        q = Fraction(repr(v)) if v == v and abs(v) != float('inf') else None
        if q is None or abs(q.numerator) >= 2**31 or q.denominator >= 2**31:
            return {'k': 'other', 'i': 0, 'q': [0, 1], 's': ''}
        return {'k': 'rat', 'i': 0, 'q': [q.numerator, q.denominator], 's': ''}
    if isinstance(v, str):
        return {'k': 'str', 'i': 0, 'q': [0, 1], 's': str(v)}
    return {'k': 'other', 'i': 0, 'q': [0, 1], 's': ''}


def run_conv(ctx, base, isarray, value):
    """value: list of token texts (one for a scalar member)."""
    y = conv_object(ctx)
    col = CONV_COL[base] + ('a' if isarray else '')
    arg = list(value) if isarray else value[0]
    keep = copy.deepcopy(arg)
    try:
        r = y.convert('CV', col, arg)
    except Exception as ex:   # noqa
        return [{'k': 'exc:' + type(ex).__name__, 'i': 0, 'q': [0, 1], 's': ''}]
    if arg != keep:
        return [{'k': 'argument modified', 'i': 0, 'q': [0, 1], 's': ''}]
    if isarray:
        if not isinstance(r, list):
            return [{'k': 'not a list', 'i': 0, 'q': [0, 1], 's': ''}]
        return [_abs_conv(x) for x in r]
    return [_abs_conv(r)]


def conv_ok(exp, obs):
    if all(e['k'] == 'open' for e in exp):
        return True
    if len(exp) != len(obs):
        return False
    for e, o in zip(exp, obs):
        if e['k'] == 'open':
            continue
        if o['k'] != e['k'] or (e['k'] == 'int' and o['i'] != e['i']) or (e['k'] == 'rat' and list(o['q']) != list(e['q'])) \
                or (e['k'] == 'str' and o['s'] != e['s']):
            return False
    return True


# ----------------------------------------------------------------------------------------------
# code -> spec: generators of recorded calls
# ----------------------------------------------------------------------------------------------
WORDCH = 'abzAZ09_.;,:-+/\\\'#"'


def gen_word(rng, hostile=True):
    n = rng.choice([1, 1, 2, 3, 5, 9])
    pool = WORDCH if hostile else WORDCH[:-2]
    return ''.join(rng.choice(pool) for _ in range(n))


def gen_quoted(rng):
    n = rng.choice([0, 1, 3, 6])
    return '"' + ''.join(rng.choice('ab #{}\t;\\x') for _ in range(n)) + '"'


def gen_braced(rng):
    parts = []
    for _ in range(rng.choice([0, 1, 2, 4])):
        parts.append(rng.choice([gen_word(rng, False), gen_word(rng, False), gen_quoted(rng).replace('}', 'x').replace('{', 'y'), '1.5', '""']))
    pad = rng.choice(['', '', ' ', '  ', '\t'])
    inner = pad + rng.choice([' ', '  ', '\t']).join(parts) + rng.choice(['', '', ' ', '\t '])
    if rng.random() < 0.08:
        inner = inner + rng.choice(['{x}', '"}"', '{'])       # nested / quoted brace: left open by the spec
    return '{' + inner + '}'


def gen_sep(rng):
    return rng.choice([' ', ' ', '  ', '\t', ' \t ', '\r', '   '])


def gen_line(rng):
    toks = []
    for _ in range(rng.choice([1, 1, 2, 3, 5])):
        p = rng.random()
        toks.append(gen_word(rng) if p < 0.5 else gen_quoted(rng) if p < 0.75 else gen_braced(rng))
    s = toks[0]
    for t in toks[1:]:
        s += (gen_sep(rng) if rng.random() < 0.93 else '') + t
    p = rng.random()
    if p < 0.12:
        s += gen_sep(rng)
    elif p < 0.16:
        s = gen_sep(rng) + s                      # leading blank: open
    elif p < 0.20:
        s += rng.choice([' "abc', ' {a b', '"', '{'])   # unterminated: open
    elif p < 0.22:
        s = ''
    return s


def gen_comment_line(rng):
    toks = []
    for _ in range(rng.choice([0, 1, 2, 3, 4])):
        p = rng.random()
        toks.append(gen_word(rng, False) if p < 0.5 else rng.choice(['"#hashtag"', '"a # b"', '"x"', '""', '"# # #"', '{1 2}', '{"#" a}']))
    s = rng.choice(['', '', ' ']) + ' '.join(toks)
    p = rng.random()
    if p < 0.45:
        body = rng.choice([' a comment.', ' a "comment".', '', ' x', '#', ' I like # characters', " a 'pathological\" comment", ' "q" "r"', ' ;{}'])
        s += rng.choice([' ', '  ', '\t', '', ' ']) + '#' + body
    elif p < 0.55:
        s += rng.choice(['   ', '\t', ' "open', ' a"b'])
    return s


IDENT = ['a', 'ab', 'abc', 'b', 'xa', 'a2', 'flux', 'flux_err', 'ra', 'ra_rate', 'mag', 'n', 'id', 'Tb', 'x_1']
NUMTYPES = ['short', 'int', 'long', 'float', 'double']


def gen_value(rng, base, w):
    if base in ('short', 'int', 'long'):
        return str(rng.choice([0, 1, -1, 7, 12, -12, 255, 32767, -32768]))
    if base in ('float', 'double'):
        return rng.choice(['0', '1.5', '-0.25', '3', '17.5', '1e3', '-2.5E-2', '.5', '1.'])
    if base == 'char':
        n = rng.randint(0, max(0, min(w, 6)))
        return ''.join(rng.choice('abXY12 #;') for _ in range(n))
    return None


def gen_acc_text(rng):
    """A random small parameter file: pairs, enums, 1-3 structs in random member forms and layouts, rows."""
    lines = ['#%yanny']
    for _ in range(rng.choice([0, 0, 1, 2, 3])):
        key = rng.choice(['mjd', 'alpha', 'key', 'enum', 'struct', 'typedefs', 'k_2', 'mjd'])
        lines.append('%s%s%s%s' % (key, rng.choice([' ', '\t', '  ']), rng.choice(['54579', 'beta gamma', 'a;b', 'x "y" z']),
                                   rng.choice(['', '', ' # a note', '   '])))
    enums = {}
    for nme in rng.sample(['E', 'STATUS', 'charm', 'Flag'], rng.choice([0, 1, 1, 2])):
        labels = rng.sample(['A', 'BB', 'CCC', 'FAILURE', 'OK', 'X1'], rng.choice([1, 2, 3]))
        enums[nme] = labels
        if rng.random() < 0.5:
            lines.append('typedef enum {')
            for k, lb in enumerate(labels):
                lines.append('    %s%s' % (lb, ',' if k + 1 < len(labels) else ''))
            lines.append('} %s;' % nme)
        else:
            lines.append('typedef enum { %s } %s;' % (', '.join(labels), nme))
    structs = []
    names = rng.sample(['T', 'TB', 'OBJ', 'SPECOBJ', 'my_s', 'Foo'], rng.choice([1, 1, 2, 3]))
    for sn in names:
        ncol = rng.choice([1, 2, 2, 3, 4])
        cols = []
        for cn in rng.sample(IDENT, ncol):
            p = rng.random()
            if p < 0.45:
                base = rng.choice(NUMTYPES)
            elif p < 0.8 or not enums:
                base = 'char'
            else:
                base = rng.choice(sorted(enums))
            o1, c1 = rng.choice(['[]', '[]', '<>'])
            o2, c2 = rng.choice(['[]', '[]', '<>'])
            alen, w, auto = 0, 0, False
            if base == 'char':
                w = rng.choice([1, 3, 8, 20])
                form = rng.choice(['w', 'w', 'nw', 'auto', 'nauto'])
                if form in ('nw', 'nauto'):
                    alen = rng.choice([1, 2, 3])
                auto = form in ('auto', 'nauto')
                dims = ('%s%d%s' % (o1, alen, c1) if alen else '') + (o2 + ('' if auto else str(w)) + c2)
                if auto:
                    w = 6
            else:
                if rng.random() < 0.4:
                    alen = rng.choice([1, 2, 5])
                dims = '%s%d%s' % (o1, alen, c1) if alen else ''
            cols.append({'name': cn, 'base': base, 'alen': alen, 'w': w, 'decl': '%s%s%s%s;' % (base, rng.choice([' ', ' ', '\t', '  ']), cn, dims)})
        structs.append((sn, cols))
        lay = rng.choice(['multi', 'multi', 'one'])
        cmts = ['', '', '', ' # a note', '\t# width in "pixels"', ' # old: float q;', ' # bits {8, 16}']
        if lay == 'one':
            lines.append('typedef struct { %s } %s;%s' % (' '.join(c['decl'] for c in cols), sn, rng.choice(['', ' # a note'])))
        else:
            eol = rng.choice(['', '', '\r'])
            lines.append('typedef struct {' + rng.choice(['', '', ' # members']) + eol)
            for c in cols:
                lines.append(rng.choice(['    ', '  ', '\t', '']) + c['decl'] + (rng.choice(cmts) if rng.random() < 0.35 else '') + eol)
            lines.append('}%s%s;' % (rng.choice([' ', ' ', '']), sn) + eol)
    rows = []
    for sn, cols in structs:
        for _ in range(rng.choice([0, 1, 2, 3])):
            cells = []
            for c in cols:
                def one():
                    v = gen_value(rng, c['base'], c['w'])
                    if v is None:
                        v = rng.choice(enums[c['base']])
                    return '"%s"' % v if c['base'] == 'char' else v
                cells.append('{' + ' '.join(one() for _ in range(c['alen'])) + '}' if c['alen'] else one())
            rows.append(rng.choice([sn, sn.upper(), sn.lower()]) + ' ' + rng.choice([' ', '\t', '  ']).join(cells) + rng.choice(['', '', ' # row']))
    rng.shuffle(rows)
    lines += rows
    return '\n'.join(lines) + '\n'


def gen_dts(rng):
    ncol = rng.choice([1, 2, 3, 4, 5])
    cols = []
    for nme in rng.sample(IDENT, ncol):
        kind = rng.choice(['i2', 'i4', 'i8', 'f4', 'f8', 'S', 'U', 'S', 'U'] if rng.random() < 0.95 else ['u4', 'i1', 'b1', 'f2', 'c8'])
        cols.append({'name': nme, 'kind': kind, 'w': rng.choice([1, 2, 7, 25, 100]) if kind in 'SU' else 0,
                     'alen': rng.choice([0, 0, 0, 1, 2, 5, 10])})
    enums = []
    pool = [c['name'] for c in cols] + ['zz']
    for nme in rng.sample(pool, rng.choice([0, 0, 1, 2]) if len(pool) > 1 else 0):
        enums.append({'col': nme, 'ename': rng.choice(['status', 'BOOLEAN', 'Flag_2']),
                      'labels': rng.sample(['FALSE', 'TRUE', 'X', 'YY', 'a_b'], rng.choice([1, 2, 3]))})
    # one enum type has one definition: the same name always gets the same labels
    first = {}
    for e in enums:
        e['labels'] = first.setdefault(e['ename'], e['labels'])
    return {'cols': cols, 'enums': enums, 'sname': rng.choice(['mystruct', 'MYSTRUCT', 'Foo', 'spec_obj', 'T2']), 'order': 'native'}


def chars(s):
    return list(s)


# ----------------------------------------------------------------------------------------------
_listed = {}


def listed(ctx, fam, fid):
    """At most MAX_LISTED failing cases per (family, explaining finding) become replay files; the rest are counted."""
    k = (fam, fid)
    _listed[k] = _listed.get(k, 0) + 1
    if _listed[k] <= MAX_LISTED:
        return True
    key = 'failing_cases_not_listed'
    ctx.cov['parts'][key] = ctx.cov['parts'].get(key, 0) + 1
    return False


def report(ctx, fam, what, case, finding=None):
    """finding: the id of the deviation that reproduces the observation.  Only a deviation whose status in
    known_findings.json is "known" excuses anything; the id of a FIXED one is shown as a regression label."""
    status = {f.get('id'): f.get('status') for f in ctx.findings}
    if finding and status.get(finding) == 'known':
        ctx.violation(dict(case, what=what, family=fam), finding=finding)
        return
    if listed(ctx, fam, finding):
        tag = ''
        if finding:
            tag = ('[what the fixed %s did] ' if status.get(finding) == 'fixed' else '[%s, not in known_findings.json] ') % finding
        ctx.violation(dict(case, what=tag + what, family=fam, explained_by=finding or ''))


def check_state(ctx, st, n):
    """spec -> code for one dumped state; n = running case number (drives the rotation of representations)."""
    c, exp = st['c'], st['exp']
    fam = c['fam']
    if fam == 'tok':
        obs = run_tok(c['s'], n)
        if exp['open']:
            return 'open', obs
        ctx.nontriv(('tok', c['s']))
        if obs['exc'] or obs['word'] not in exp['words'] or obs['rem'] not in exp['rems']:
            report(ctx, fam, 'get_token(%r) = %s, specified word in %r, remainder in %r' % (
                c['s'], obs['exc'] or (obs['word'], obs['rem']), exp['words'], exp['rems']), {'call': c, 'expected': exp, 'observed': obs})
        return 'judged', obs
    if fam == 'prot':
        kind = ('str', 'npstr', 'npbytes')[n % 3]
        obs = run_prot(c['s'], kind)
        ctx.nontriv(('prot', c['s']))
        if obs['exc'] or obs['val'] != exp['val']:
            report(ctx, fam, 'protect(%r as %s) = %r, specified %r' % (c['s'], kind, obs['exc'] or obs['val'], exp['val']),
                   {'call': dict(c, kind=kind), 'expected': exp, 'observed': obs})
        return 'judged', obs
    if fam == 'tc':
        obs = run_tc(c['s'], n)
        if not exp['open']:
            ctx.nontriv(('tc', c['s']))
        if obs['exc'] or obs['val'] not in exp['vals']:
            report(ctx, fam, 'trailing_comment(%r) = %r, specified one of %r%s' % (
                c['s'], obs['exc'] or obs['val'], exp['vals'], ' (documented limitation: weak law only)' if exp['open'] else ''),
                {'call': c, 'expected': exp, 'observed': obs})
        return ('open' if exp['open'] else 'judged'), obs
    if fam == 'dts':
        obs = run_dts(c, n)
        ctx.nontriv(('dts', json.dumps([c['cols'], c['enums'], c['sname']], sort_keys=True)))
        if not dts_conforms(exp, obs):
            again = ' (what the fixed D-X08-1 did: unicode widths in bytes)' if (not exp['err'] and dts_conforms(exp, obs, 'devstruct')) else ''
            report(ctx, fam, 'dtype_to_struct(%s dtype of %s, structname=%r, enums=%s): %s; specified %s' % (
                obs['how'], [(f['name'], f['kind'] + (str(f['w']) if f['w'] else ''), f['alen']) for f in c['cols']], c['sname'],
                [(e['col'], e['ename']) for e in c['enums']],
                ('raised ' + obs['exc']) if obs['err'] else (obs['exc'] or repr(obs['struct'])),
                ('an exception' if exp['err'] else repr(exp['struct'])) + again), {'call': c, 'rot': n, 'expected': exp, 'observed': obs})
        return 'judged', obs
    if fam == 'acc':
        needs_raw = any(ce['dt']['open'] and te['size'] == 0 for te in exp['tabs'] for ce in te['cols'])
        obs = observe_acc(ctx, c['text'], n, raw=True if needs_raw else None)
        ctx.nontriv(('acc', c['text']))
        whys = acc_whys(exp, obs)
        if whys:
            fids = findings_of(ctx, exp, whys)
            report(ctx, fam, '%s%s (read by %s, raw=%s); text %r' % (
                whys[0][3], (' [together with %s]' % ', '.join(fids[1:])) if len(fids) > 1 else '', obs['way'], obs['raw'], c['text'][:600]),
                {'call': c, 'rot': n, 'expected': exp, 'observed': obs, 'all_differences': [w[3] for w in whys[:12]]},
                fids[0] if fids else None)
        return 'judged', obs
    if fam == 'conv':
        obs = run_conv(ctx, c['base'], c['isarray'], c['value'])
        ctx.nontriv(('conv', c['base'], c['isarray'], tuple(c['value'])))
        if not conv_ok(exp, obs):
            report(ctx, fam, 'convert(%s%s member, %r) = %r, specified %r' % (c['base'], ' array' if c['isarray'] else '', c['value'], obs, exp),
                   {'call': c, 'expected': exp, 'observed': obs})
        return ('open' if all(e['k'] == 'open' for e in exp) else 'judged'), obs
    raise core.MachineryError('unknown family %r' % fam)


def recorded_calls(ctx, rng):
    """Seeded random calls of the real functions, as records for Trace_YannyParts."""
    q = ctx.quick
    recs = []
    for k in range(700 if q else 6000):
        s = gen_line(rng)
        o = run_tok(s, k)
        recs.append({'fn': 'get_token', 's': chars(s), 'word': chars(o['word']), 'rem': chars(o['rem']), 'exc': o['exc']})
    for k in range(300 if q else 3000):
        s = rng.choice([gen_word(rng), gen_word(rng) + rng.choice([' ', '\t', '\n', '\r']) + gen_word(rng), '', gen_quoted(rng)[1:-1], gen_braced(rng)])
        kind = ('str', 'npstr', 'npbytes')[k % 3]
        o = run_prot(s, kind)
        recs.append({'fn': 'protect', 's': chars(s), 'kind': kind, 'val': chars(o['val']), 'exc': o['exc']})
    for k in range(700 if q else 6000):
        s = gen_comment_line(rng)
        o = run_tc(s, k)
        recs.append({'fn': 'trailing_comment', 's': chars(s), 'val': chars(o['val']), 'exc': o['exc']})
    for k in range(300 if q else 3000):
        c = gen_dts(rng)
        o = run_dts(c, k)
        recs.append({'fn': 'dtype_to_struct',
                     'c': {'cols': [dict(f, name=chars(f['name'])) for f in c['cols']],
                           'enums': [{'col': chars(e['col']), 'ename': chars(e['ename']), 'labels': [chars(x) for x in e['labels']]} for e in c['enums']],
                           'sname': chars(c['sname']), 'order': 'native'},
                     'o': {'err': bool(o['err'] or o['exc']), 'key': chars(o['key']), 'names': [chars(x) for x in o['names']],
                           'struct': chars(o['struct']), 'enums': [chars(x) for x in o['enums']]},
                     'note': o['exc'], 'plain': c, 'rot': k})
    for k in range(120 if q else 1200):
        text = gen_acc_text(rng)
        o = observe_acc(ctx, text, k, raw=True if k % 2 else None)
        if o['fail'] and not o['raw']:
            # a table whose char[] width cannot be determined (no rows) cannot be built as a record array: the
            # specification leaves that open; observe the accessors on the raw object instead
            o2 = observe_acc(ctx, text, k, raw=True)
            if not o2['fail'] and 'max()' in o['fail']:
                o = o2
        recs.append({'fn': 'acc', 'text': chars(text), 'o': acc_record(o), 'plain': text, 'rot': k, 'way': o.get('way'), 'raw': o.get('raw')})
    for k in range(150 if q else 1500):
        base = rng.choice(sorted(CONV_COL))
        isarray = rng.random() < 0.4
        def one():
            if base in ('short', 'int', 'long'):
                return rng.choice([str(rng.randint(-99999, 99999)), '+%d' % rng.randint(0, 99), '00%d' % rng.randint(0, 99), '0', '-0'])
            if base in ('float', 'double'):
                return rng.choice(['%d.%d' % (rng.randint(0, 999), rng.randint(0, 999)), '-%d.%02d' % (rng.randint(0, 99), rng.randint(0, 99)),
                                   str(rng.randint(-500, 500)), '0.1', '0.30', '12.5'])
            return rng.choice(['', 'ab', 'a b', '12', '#x', 'A'])
        value = [one() for _ in range(rng.choice([1, 2, 3]) if isarray else 1)]
        o = run_conv(ctx, base, isarray, value)
        recs.append({'fn': 'convert', 'base': chars(base), 'isarray': isarray, 'value': [chars(v) for v in value] if isarray else chars(value[0]),
                     'o': [dict(x, s=chars(x['s'])) for x in o], 'plain': value})
    return recs


def acc_record(o):
    """The observation in the JSON shape Trace_YannyParts expects (texts as character lists; markers stay texts)."""
    def cl(x):
        return chars(x) if isinstance(x, str) else x

    def tf(x):                      # booleans travel as "T" / "F" (a failed call as its marker text)
        return ('T' if x else 'F') if isinstance(x, bool) else str(x)
    return {'fail': o['fail'], 'tables': [cl(x) for x in o['tables']], 'pairs': [cl(x) for x in o['pairs']], 'undef': o['undef'],
            'tabs': [{'name': cl(t['name']), 'columns': [cl(x) for x in t['columns']], 'size': t['size'],
                      'cols': [{'name': cl(c['name']), 'type': cl(c['type']), 'base': cl(c['base']), 'isarray': tf(c['isarray']),
                                'isenum': tf(c['isenum']), 'alen': c['alen'], 'clen': c['clen'], 'dt': c['dt']} for c in t['cols']]}
                     for t in o['tabs']]}


def strip_private(rec):
    return {k: v for k, v in rec.items() if k not in ('plain', 'rot', 'note', 'way', 'raw')}


def describe_record(rec):
    fn = rec['fn']
    if fn in ('get_token', 'trailing_comment', 'protect'):
        return '%s(%r) -> %s' % (fn, ''.join(rec['s']), rec['exc'] or {k: ''.join(rec[k]) for k in ('word', 'rem', 'val') if k in rec})
    if fn == 'dtype_to_struct':
        c = rec['plain']
        return 'dtype_to_struct(%s, structname=%r, enums=%s) -> %s' % (
            [(f['name'], f['kind'] + (str(f['w']) if f['w'] else ''), f['alen']) for f in c['cols']], c['sname'],
            [(e['col'], e['ename'], e['labels']) for e in c['enums']], rec['note'] or repr(''.join(rec['o']['struct'])))
    if fn == 'acc':
        return 'accessors of the object read (%s, raw=%s) from %r' % (rec.get('way'), rec.get('raw'), rec['plain'][:500])
    return 'convert(%s%s, %r) -> %r' % (''.join(rec['base']), ' array' if rec['isarray'] else '', rec['plain'], rec['o'])


def falsify(rec, k):
    """One field of an accepted record replaced by a value the real code did not produce (binding self-test)."""
    r = copy.deepcopy(strip_private(rec))
    fn = r['fn']
    if fn == 'get_token':
        if r['exc']:
            return None
        if k % 2:
            r['word'] = r['word'] + ['q']
        else:
            r['rem'] = ['q'] + r['rem']
    elif fn == 'protect':
        r['val'] = r['val'][1:-1] if (r['val'] and r['val'][0] == '"' and len(r['val']) > 1) else ['"'] + r['val'] + ['"']
    elif fn == 'trailing_comment':
        r['val'] = r['val'] + ['q']
    elif fn == 'dtype_to_struct':
        if r['o']['err']:
            return None
        if k % 3 == 0:
            r['o']['struct'][9] = 'S'
        elif k % 3 == 1:
            r['o']['names'] = r['o']['names'][::-1] + [['q']]
        else:
            r['o']['key'] = r['o']['key'] + ['Q']
    elif fn == 'acc':
        o = r['o']
        if o['fail'] or not o['tabs'] or not o['tabs'][0]['cols']:
            return None
        col = o['tabs'][0]['cols'][-1]
        m = k % 6
        if m == 0:
            col['type'] = col['type'] + ['[', '9', ']']
        elif m == 1:
            col['isarray'] = 'F' if col['isarray'] == 'T' else 'T'
        elif m == 2:
            col['alen'] = col['alen'] + 1
        elif m == 3:
            o['tabs'][0]['size'] += 1
        elif m == 4:
            col['isenum'] = 'F' if col['isenum'] == 'T' else 'T'
        else:
            o['tables'] = o['tables'] + [['Q']]
    else:
        if not r['o'] or r['o'][0]['k'] not in ('int', 'rat', 'str'):
            return None
        e = r['o'][0]
        if e['k'] == 'int':
            e['i'] += 1
        elif e['k'] == 'rat':
            e['q'] = [e['q'][0] + 1, e['q'][1]]
            g = Fraction(e['q'][0], e['q'][1])
            e['q'] = [g.numerator, g.denominator]
        else:
            e['s'] = e['s'] + ['q']
    return r


def run(ctx):
    ctx.level = 'model_checking'
    ctx.rule = ('every case state of MC_YannyParts is one call (family tok: get_token, prot: protect, tc: trailing_comment, dts: '
                'dtype_to_struct, acc: all accessors of the object read from one text, conv: convert) with the outcome YannyParts '
                'specifies; non-trivial = distinct calls whose outcome is specified (not open); recorded calls = seeded random / '
                'adversarial calls judged by Trace_YannyParts')
    ctx.assumptions = [
        'reading of the format = spec/Yanny.tla (DESIGN.md Appendix A); YannyParts only projects it',
        'get_token / trailing_comment are given one line (no newline); blanks are space, tab, CR',
        'outcomes the documentation leaves open (exp.open, clen/dt open) are executed but not judged: empty string, leading blank, '
        'unterminated or nested quote/brace for get_token; the limitations the docstring of trailing_comment names; accessors other than '
        'type() for undefined names; widths of `char NAME;` and of char[] in an empty table; the exact width of enum fields',
        'objects with an undeterminable char[] width (no rows) are read with raw=True (the record-array conversion is left open there)',
        'convert: decimal texts [sign]digits[.digits] below 2^31; a float is compared through the rational of its shortest decimal form']
    rng = random.Random(ctx.seed)
    cfg = 'MC_YannyParts_quick.cfg' if ctx.quick else 'MC_YannyParts_thorough.cfg'
    r = ctx.tlc('MC_YannyParts.tla', cfg, dump=True, timeout=2400)
    n = 0
    nopen = 0
    per = {}
    for st in fast_states(r):
        fam = st['c']['fam']
        if fam in SEEDS:
            continue
        n += 1
        verdict, obs = check_state(ctx, st, n)
        ctx.evaluated(1, fam)
        ctx.validated()
        per[fam] = per.get(fam, 0) + 1
        if verdict == 'open':
            nopen += 1
        if per[fam] % 1500 == 7:
            ctx.sample({'call': st['c'], 'expected': st['exp'], 'observed': obs})
    ctx.cov['parts']['open_outcomes_not_judged'] = nopen
    for fam in ('tok', 'prot', 'tc', 'dts', 'acc', 'conv'):
        if not per.get(fam):
            raise core.MachineryError('family %s produced no case' % fam)

    # ---- code -> spec ---------------------------------------------------------------------------
    recs = recorded_calls(ctx, rng)
    bad = core.validate_records(ctx, 'Trace_YannyParts', [strip_private(x) for x in recs], chunk=4000)
    ctx.evaluated(len(recs), 'recorded')
    ctx.validated(len(recs))
    for k, rec in enumerate(recs):
        ctx.nontriv(('rec', rec['fn'], k))
    for k in sorted(bad):
        rec = recs[k]
        why = bad[k]
        m = re.match(r'(D-X08-\d+): ', why)
        report(ctx, 'recorded ' + rec['fn'], 'recorded call rejected by Trace_YannyParts (%s): %s' % (why, describe_record(rec)[:700]),
               {'record': strip_private(rec), 'why': why, 'rot': rec.get('rot', 0), 'raw': rec.get('raw')}, m.group(1) if m else None)
    ctx.sample({'recorded_call': describe_record(recs[0])})
    # ---- binding self-test: falsified observations must be rejected by the same judge -----------------
    fals = []
    byfn = {}
    for k, rec in enumerate(recs):
        if k in bad or byfn.get(rec['fn'], 0) >= 40:
            continue
        if rec['fn'] in ('get_token', 'trailing_comment'):
            # only records whose outcome is specified (the judge accepts anything where the spec is open)
            s = ''.join(rec['s'])
            if rec['fn'] == 'get_token' and (not s or s[0] in ' \t\r' or s[0] in '"{' or rec['exc']):
                continue
            if rec['fn'] == 'trailing_comment' and ('#' in s or '"' in s):
                continue
        f = falsify(rec, k)
        if f is not None:
            fals.append(f)
            byfn[rec['fn']] = byfn.get(rec['fn'], 0) + 1
    core.binding_selftest(ctx, 'Trace_YannyParts', fals, 'recorded_calls')
    ctx.exhaustive = not ctx.quick


def replay(ctx, case):
    """bin/check X08 --replay <file>: re-execute the single failing call of a replay file.  The expected outcome in the
    file came from TLC (state dump); recorded calls are judged again by Trace_YannyParts."""
    ctx.level = 'model_checking'
    ctx.rule = 'single replayed case'
    ctx.nontriv('a')
    ctx.nontriv('b')
    ctx.evaluated(1)
    ctx.validated()
    if 'record' in case:
        rec = case['record']
        print('recorded call:', json.dumps(rec)[:1500])
        # re-observe
        fn = rec['fn']
        if fn == 'get_token':
            o = run_tok(''.join(rec['s']))
            rec = dict(rec, word=chars(o['word']), rem=chars(o['rem']), exc=o['exc'])
        elif fn == 'protect':
            o = run_prot(''.join(rec['s']), rec['kind'])
            rec = dict(rec, val=chars(o['val']), exc=o['exc'])
        elif fn == 'trailing_comment':
            o = run_tc(''.join(rec['s']))
            rec = dict(rec, val=chars(o['val']), exc=o['exc'])
        elif fn == 'acc':
            o = observe_acc(ctx, ''.join(rec['text']), case.get('rot', 0), raw=case.get('raw', True))
            rec = dict(rec, o=acc_record(o))
        elif fn == 'dtype_to_struct':
            c = {'cols': [dict(f, name=''.join(f['name'])) for f in rec['c']['cols']],
                 'enums': [{'col': ''.join(e['col']), 'ename': ''.join(e['ename']), 'labels': [''.join(x) for x in e['labels']]} for e in rec['c']['enums']],
                 'sname': ''.join(rec['c']['sname'])}
            o = run_dts(c, case.get('rot', 0))
            rec = dict(rec, o={'err': bool(o['err'] or o['exc']), 'key': chars(o['key']), 'names': [chars(x) for x in o['names']],
                               'struct': chars(o['struct']), 'enums': [chars(x) for x in o['enums']]})
        elif fn == 'convert':
            value = [''.join(v) for v in rec['value']] if rec['isarray'] else [''.join(rec['value'])]
            o = run_conv(ctx, ''.join(rec['base']), rec['isarray'], value)
            rec = dict(rec, o=[dict(x, s=chars(x['s'])) for x in o])
        bad = core.validate_records(ctx, 'Trace_YannyParts', [rec])
        print('Trace_YannyParts:', bad.get(0, 'accepted'))
        if bad:
            m = re.match(r'(D-X08-\d+): ', bad[0])
            ctx.violation(case, finding=m.group(1) if m else None)
        return
    st = {'c': case['call'], 'exp': case['expected']}
    before = len(ctx.violations) + sum(len(v) for v in ctx.known_hits.values())
    verdict, obs = check_state(ctx, st, case.get('rot', 0))
    print('replayed call:', json.dumps(case['call'])[:1500], '\nobserved:', json.dumps(obs, default=repr)[:1500])
    after = len(ctx.violations) + sum(len(v) for v in ctx.known_hits.values())
    print('verdict:', 'conforms' if after == before else 'deviates')
