"""C02 - the meaning of a parameter file does not depend on its surface syntax.
Spec: spec/Yanny.tla (SpecParse, Canon, Render*); MC: mc/MC_YannyLayout (Render state machine) + mc/MC_YannyCanon;
code -> spec: trace/Trace_YannyRead (reference reader applied to texts the real reader was given)."""
import glob
import os
import random
import re

from .. import core
from .. import yannylib as Y

GROUPS_QUICK = [('tokens', 'MC_YannyLayout_tokens.cfg'), ('typedef', 'MC_YannyLayout_typedef.cfg'),
                ('order', 'MC_YannyLayout_order.cfg'), ('lines', 'MC_YannyLayout_lines_quick.cfg')]
GROUPS_THOROUGH = [('tokens', 'MC_YannyLayout_tokens.cfg'), ('typedef', 'MC_YannyLayout_typedef.cfg'),
                   ('order', 'MC_YannyLayout_order.cfg'), ('lines', 'MC_YannyLayout_lines.cfg')]


def load_canon(ctx):
    r = ctx.tlc('MC_YannyCanon.tla', 'MC_YannyCanon.cfg', dump=True, workers=2)
    canon = {}
    for st in core.iter_states(r):
        canon[st['id']] = (st['canon'], st['nitems'])
    return canon


def read_all_ways(path, ways):
    """Yield (way, yanny object or exception)."""
    from pydl.pydlutils.yanny import yanny
    for way in ways:
        raw = way.endswith('+raw')
        kind = way.split('+')[0]
        try:
            if kind == 'path':
                par = yanny(path, raw=raw)
            elif kind == 'text':
                with open(path, 'r', newline='') as fh:
                    par = yanny(fh, raw=raw)
            else:
                with open(path, 'rb') as fh:
                    par = yanny(fh, raw=raw)
        except Exception as ex:  # a reader that raises on an admissible rendering violates the property
            par = ex
        yield way, raw, par


def read_text(ctx, txt):
    from pydl.pydlutils.yanny import yanny
    path = os.path.join(ctx.scratch, 's.par')
    with open(path, 'w', newline='') as fh:
        fh.write(txt)
    par = yanny(path)
    os.remove(path)
    return par


def check_text(ctx, txt, canon, ways, what, extra):
    """Give one text to the real reader in several ways and compare with the spec's value."""
    path = os.path.join(ctx.scratch, 'r.par')
    with open(path, 'w', newline='') as fh:
        fh.write(txt)
    bad = []
    for way, raw, par in read_all_ways(path, ways):
        ctx.evaluated(1, way)
        if isinstance(par, Exception):
            bad.append('%s: raised %s: %s' % (way, type(par).__name__, str(par)[:120]))
            continue
        d = Y.compare(canon, par, raw=raw)
        if d:
            bad.append('%s: %s' % (way, '; '.join(d[:3])))
    os.remove(path)
    if bad:
        case = dict(extra)
        case.update({'what': '%s: %s' % (what, bad[0][:400]), 'text': txt, 'differences': bad})
        return case
    return None


def classify(case, txt):
    """Known deviations are identified from the text by the spec's notes / Dev_ operators
    (ParseNotes in Yanny.tla); the id is attached by the caller."""
    return None


WAYS_FULL = ['path', 'text', 'binary', 'path+raw']
WAYS_LIGHT = ['path', 'binary+raw']


def perturb(rng, txt):
    """Re-layout a real file conservatively (only transformations the format certainly allows):
    CRLF line ends, leading/trailing blanks, comment and blank lines between lines, plain trailing
    comments on lines that have no '#' and no quote, doubled inter-token blanks outside quotes/braces."""
    lines = txt.split('\n')
    out = []
    mode = rng.choice(['crlf', 'lead', 'noise', 'trail', 'mix'])
    in_td = False
    for ln in lines:
        s = ln
        if re.match(r'\s*typedef', s):
            in_td = True
        cont = s.rstrip().endswith('\\')
        plain = ('#' not in s and '"' not in s and s.strip() != '')
        if mode in ('lead', 'mix') and s.strip() and rng.random() < 0.5:
            s = rng.choice([' ', '\t', '   ']) + s
        if mode in ('trail', 'mix') and plain and not cont and rng.random() < 0.5:
            s = s + rng.choice(['  ', '\t', ' # note', '  # a plain comment'])
        if mode in ('noise', 'mix') and not cont and not in_td and rng.random() < 0.3:
            out.append(s)
            s = rng.choice(['', '   ', '# inserted comment', '\t# x'])
        out.append(s)
        if in_td and re.search(r'\}\s*\w+\s*;', ln):
            in_td = False
    eol = '\r\n' if mode in ('crlf', 'mix') and rng.random() < 0.8 else '\n'
    return eol.join(out)


def run(ctx):
    ctx.level = 'model_checking'
    ctx.rule = ('states of MC_YannyLayout in which every item of the document has been emitted are renderings; each is read by pydl '
                '(path / text object / binary object / raw) and compared with Canon(doc) computed by TLC; non-trivial = distinct complete text; '
                'recorded direction: fixture files and conservative re-layouts parsed by SpecParse in TLC and compared with pydl\'s result')
    ctx.assumptions = ['reading of the format = DESIGN.md Appendix A (the sdss.org specification is not available offline)',
                       'numeric cells are compared by the value of their text (int()/float() of the token), strings exactly',
                       'trailing-comment bodies: plain family asserted; hostile family (contains # or an odd number of quotes) reported separately']
    rng = random.Random(ctx.seed)
    canon = load_canon(ctx)
    groups = GROUPS_QUICK if ctx.quick else GROUPS_THOROUGH
    seen = set()
    accepted = []
    for gname, cfg in groups:
        r = ctx.tlc('MC_YannyLayout.tla', cfg, dump=True, timeout=1500, label=cfg)
        complete = 0
        for st in core.iter_states(r, lazy=('text',), keep=lambda p: len(p['done']) == canon[p['id']][1]):
            cn, nitems = canon[st['id']]
            if len(st['done']) != nitems:
                continue
            txt = Y.text(st['text'])
            if txt in seen:
                continue
            seen.add(txt)
            complete += 1
            # quick: all texts read by path, a seeded third also through the other interfaces
            ways = WAYS_FULL if (not ctx.quick or rng.random() < 0.34) else WAYS_LIGHT
            ctx.nontriv(hash(txt))
            ctx.validated()
            case = check_text(ctx, txt, cn, ways, 'rendering of %s (group %s)' % (st['id'], gname), {'doc': st['id'], 'group': gname})
            if not case and complete % 40 == 1:
                accepted.append((txt, cn))
            if complete % 700 == 1:
                ctx.sample({'doc': st['id'], 'group': gname, 'text': txt})
            if case:
                ctx.violation(case)
        ctx.cov['parts']['renderings_' + gname] = complete
        if complete == 0:
            raise core.MachineryError('group %s produced no complete rendering' % gname)
    # hostile trailing comments (body contains '#' or an odd number of quotes): explored separately so that the
    # documented limitation of pydl (known finding D-C02-3) cannot mask, or be masked by, anything else
    r = ctx.tlc('MC_YannyLayout.tla', 'MC_YannyLayout_hostile.cfg', dump=True, label='MC_YannyLayout_hostile.cfg')
    nh = 0
    for st in core.iter_states(r, lazy=('text',), keep=lambda p: len(p['done']) == canon[p['id']][1]):
        cn, nitems = canon[st['id']]
        if len(st['done']) != nitems:
            continue
        txt = Y.text(st['text'])
        nh += 1
        ctx.validated()
        ctx.nontriv(hash(txt))
        case = check_text(ctx, txt, cn, WAYS_LIGHT, 'rendering of %s with hostile trailing comments' % st['id'], {'doc': st['id'], 'group': 'hostile'})
        if case:
            ctx.violation(case, finding='D-C02-3')
    ctx.cov['parts']['renderings_hostile'] = nh
    if not ctx.quick:
        simulate_all(ctx, canon, seen)
    rng.shuffle(accepted)
    Y.comparator_selftest(ctx, accepted, lambda t: read_text(ctx, t), 'renderings')
    recorded_direction(ctx, rng)
    ctx.exhaustive = False


def simulate_all(ctx, canon, seen):
    """Full product of layout choices (group "all") by TLC simulation."""
    from .. import tlaval
    simdir = os.path.join(ctx.scratch, 'sim')
    os.makedirs(simdir)
    ctx.tlc('MC_YannyLayout.tla', 'MC_YannyLayout_all.cfg', simulate='file=%s/tr,num=%d' % (simdir, 1500), depth=16,
            seed=ctx.seed, workers=1, timeout=1200, label='simulate all', count=False)
    n = 0
    for f in sorted(glob.glob(simdir + '/tr*')):
        beh = tlaval.parse_sim_trace(f)
        os.remove(f)
        if not beh:
            continue
        st = beh[-1][1]
        cn, nitems = canon[st['id']]
        if len(st['done']) != nitems:
            continue
        txt = Y.text(st['text'])
        if txt in seen:
            continue
        seen.add(txt)
        n += 1
        ctx.nontriv(hash(txt))
        ctx.validated()
        case = check_text(ctx, txt, cn, WAYS_FULL, 'simulated rendering of %s' % st['id'], {'doc': st['id'], 'group': 'all'})
        if case:
            ctx.violation(case)
    ctx.cov['parts']['renderings_simulated'] = n


def recorded_direction(ctx, rng):
    """Texts the real reader is given (fixtures and their re-layouts) are parsed by the reference reader in TLC."""
    from pydl.pydlutils.yanny import yanny
    files = sorted(glob.glob(os.path.join(core.PYDL_SRC, 'pydl', '**', '*.par'), recursive=True))
    texts = []
    for f in files:
        with open(f) as fh:
            t = fh.read()
        if len(t) > 6000:      # keep TLC's work bounded: cut long files at a line boundary after the typedefs
            cut = t.rfind('\n', 0, 6000)
            t = t[:cut + 1]
        texts.append((os.path.basename(f), t))
    base = list(texts)
    nvar = 3 if ctx.quick else 20
    for name, t in base:
        for k in range(nvar):
            texts.append(('%s~%d' % (name, k), perturb(rng, t)))
    recs = [Y.chars(t) for _, t in texts]
    path = core.write_json(os.path.join(ctx.scratch, 'read.json'), recs)
    r = ctx.tlc('Trace_YannyRead.tla', 'Trace_YannyRead.cfg', dump=True, env={'VERIF_TRACE': path}, count=False,
                label='Trace_YannyRead fixtures', timeout=900)
    n = 0
    for st in core.iter_states(r):
        name, t = texts[st['i'] - 1]
        n += 1
        ctx.validated()
        ctx.nontriv(hash(t))
        finding = 'D-C02-4' if 'brace-in-typedef-comment' in st['notes'] else \
            ('D-C02-3' if 'hostile-trailing-comment' in st['notes'] else None)
        case = check_text(ctx, t, st['res'], WAYS_LIGHT, 'recorded text %s' % name, {'source': name})
        if case:
            case['spec_notes'] = sorted(st['notes'])
            ctx.violation(case, finding=finding)
    if n != len(texts):
        raise core.MachineryError('Trace_YannyRead judged %d of %d texts' % (n, len(texts)))
    ctx.cov['parts']['recorded_texts'] = n


def replay(ctx, case):
    ctx.level = 'model_checking'
    ctx.rule = 'single replayed text'
    canon = load_canon(ctx)
    txt = case['text']
    if 'doc' in case:
        cn = canon[case['doc']][0]
    else:
        path = core.write_json(os.path.join(ctx.scratch, 'one.json'), [Y.chars(txt)])
        r = ctx.tlc('Trace_YannyRead.tla', 'Trace_YannyRead.cfg', dump=True, env={'VERIF_TRACE': path}, count=False)
        cn = [st['res'] for st in core.iter_states(r)][0]
    ctx.nontriv('a'); ctx.nontriv('b')
    c = check_text(ctx, txt, cn, WAYS_FULL, 'replayed text', {})
    print('text:\n' + txt)
    print('differences:', c['differences'] if c else 'none')
    if c:
        ctx.violation(c)
