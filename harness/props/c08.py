"""C08 - B-spline knots and evaluation.
Spec: spec/BSplineBasis.tla; MC: mc/MC_BSplineBasis; Trace: trace/Trace_BSplineBasis.

spec -> code: every case TLC enumerates (construction calls per breakpoint option; evaluation problems:
knots x order x coefficient vectors x points in several orders) is replayed into the real
pydl.pydlutils.bspline.bspline and compared with the outcome TLC computed (knots to 1e-6 relative - the
code keeps constructed breakpoints in single precision -, values / basis rows to 1e-10, masks and
interval indices exactly).  The knots every constructed object holds are also sent to
Trace_BSplineBasis, which judges the three laws of the statement on them.
code -> spec: seeded random constructor calls and evaluations on small dyadic numbers (exact in binary
floating point and small enough for TLC) are recorded and judged by Trace_BSplineBasis; the exact
outcome TLC computes for each record is then used to tighten the float comparison to 1e-10.
Representations: the same VALUES are handed to the code in several numpy forms (float64, float32, int64,
int32, int16, uint8, byte-swapped, strided, read-only) wherever the form carries them exactly; TLC picks the
form of every array of a case (spec part 4, C08_FormsRepresent / C08_FormIndependent), the recorded direction
draws it at random.  The expected outcome is the one TLC computed for the values.
After the recorded direction a binding self-test hands falsified copies of accepted records to the same trace
operators (Trace_BSplineBasisSelf): every one must be rejected.
Python only converts (rational <-> float/int array, float -> scaled integer); every expected value is TLC's.
"""
import math
import os
import random
import struct
from fractions import Fraction

import numpy as np

from .. import core

KS = 65536          # knot abstraction of the trace records: round(t * KS)
VS = 4096           # value abstraction: round(v * VS)
VTOL = 1e-10        # values / basis rows against TLC's exact rationals
VTOL_SINGLE = 2e-5  # ... when the abscissae themselves are single precision (form f4)
KTOL = 1e-6         # constructed knots (single precision in the code)
FINDING_WHAT = {
    'D-C08-1': 'everyn: sample index nx not clamped (IndexError when nbkpts-1 divides nx)',
    'D-C08-2': 'everyn > nx/2: one breakpoint only, breakpoint range does not cover the data',
    'D-C08-3': 'point on a repeated lowest breakpoint is attributed to the empty first cell: NaN',
    'D-C08-4': 'everyn samples unsorted data in the caller\'s order: knots not non-decreasing',
    'D-C08-5': 'coverage fix raises the first of several equal highest breakpoints: knots not non-decreasing',
    'D-C08-6': 'value() of an empty array of points raises IndexError instead of returning empty arrays',
    'D-C08-7': 'integer / read-only bkpt= or placed= array is used in place: knots truncated, wrapped, or ValueError',
}


# ---------------------------------------------------------------- conversions (trivial) ----------------
def fr(q):
    return Fraction(int(q[0]), int(q[1]))


def fl(q):
    return int(q[0]) / int(q[1])


def qq(v):
    """exact rational [num, den] of a binary float (or Fraction / int)"""
    f = Fraction(v)
    return [f.numerator, f.denominator]


def jsonable(o):
    if isinstance(o, dict):
        return {k: jsonable(v) for k, v in o.items()}
    if isinstance(o, (tuple, list)):
        return [jsonable(v) for v in o]
    if isinstance(o, frozenset):
        return sorted(jsonable(v) for v in o)
    if isinstance(o, (np.integer,)):
        return int(o)
    if isinstance(o, (np.floating,)):
        return float(o)
    if isinstance(o, np.bool_):
        return bool(o)
    return o


INT_FORMS = ('i8', 'i4', 'i2', 'u1')
FORMS = ('f8', 'f4', 'i8', 'i4', 'i2', 'u1', 'f8swap', 'f8strided', 'f8readonly')
SINGLE_FORMS = ('f4',)


def as_fraction(v):
    if isinstance(v, (list, tuple)):
        return fr(v)
    return Fraction(v)


def representable(form, v):
    """harness-side mirror used only to DRAW forms in the recorded direction; TLC re-checks (UNREPRESENTABLE)"""
    v = as_fraction(v)
    if form in ('i8', 'i4'):
        return v.denominator == 1 and abs(v) < 2**30
    if form == 'i2':
        return v.denominator == 1 and -32768 <= v <= 32767
    if form == 'u1':
        return v.denominator == 1 and 0 <= v <= 255
    if form == 'f4':
        return v.denominator in (1, 2, 4, 8, 16, 32, 64) and abs(v.numerator) < 1048576
    return True


def forms_for(vals):
    return [f for f in FORMS if all(representable(f, v) for v in vals)]


def typed(vals, form):
    """The numpy array that carries the values (rationals [num, den] or Fractions) in the given form."""
    fs = [as_fraction(v) for v in vals]
    if form in INT_FORMS:
        a = np.array([int(v) for v in fs], dtype=form)
    elif form == 'f4':
        a = np.array([float(v) for v in fs], dtype='f')
    elif form == 'f8swap':
        a = np.array([float(v) for v in fs], dtype=np.dtype('d').newbyteorder())
    elif form == 'f8strided':
        buf = np.full((2 * len(fs) + 1,), -777.25, dtype='d')
        a = buf[1::2]
        a[:] = [float(v) for v in fs]
    else:
        a = np.array([float(v) for v in fs], dtype='d')
        if form == 'f8readonly':
            a.setflags(write=False)
        elif form != 'f8':
            raise core.MachineryError('unknown form %r' % (form,))
    exact = form in INT_FORMS or form == 'f4'      # double precision forms carry the nearest double (e.g. of 1/3)
    if a.shape != (len(fs),) or any((Fraction(float(x)) != v) if exact else (float(x) != float(v))
                                    for x, v in zip(a.tolist(), fs)):
        raise core.MachineryError('form %s cannot carry %s' % (form, [str(v) for v in fs]))
    return a


def scaled(v, s):
    v = float(v)
    if not math.isfinite(v) or abs(v) * s >= 2**30:
        return None
    return int(round(v * s))


# ---------------------------------------------------------------- driving the real code ----------------
def option_kwargs(opt, arg, aform='f8'):
    if opt == 'bkpt':
        return {'bkpt': typed(arg, aform)}
    if opt == 'placed':
        return {'placed': typed(arg, aform)}
    if opt == 'bkspace':
        return {'bkspace': fl(arg)}
    if opt == 'nbkpts':
        return {'nbkpts': int(arg)}
    if opt == 'everyn':
        return {'everyn': int(arg)}
    raise core.MachineryError('unknown option ' + str(opt))


def construct(data, nord, spread, opt, arg, form='f8', aform='f8'):
    """One constructor call, data and bkpt/placed arrays in the given forms.
    Returns (object or None, exception text or None)."""
    from pydl.pydlutils.bspline import bspline
    x = typed(data, form)
    kw = option_kwargs(opt, arg, aform)
    try:
        return bspline(x, nord=int(nord), bkspread=fl(spread), **kw), None
    except Exception as ex:
        return None, '%s: %s' % (type(ex).__name__, str(ex)[:120])


def build_eval_object(c):
    """The object of an evaluation problem: through the constructor (explicit breakpoints) or with the
    knot vector stored directly in the documented attributes."""
    from pydl.pydlutils.bspline import bspline
    bk = [fl(q) for q in c['bk']]
    nord = int(c['nord'])
    kform = c.get('kform', 'f8')          # double or single precision breakpoint array
    try:
        obj = bspline(np.array([bk[0], bk[-1]], dtype='d'), nord=nord, bkpt=typed(c['bk'], kform),
                      bkspread=fl(c['spread']))
        if c['how'] == 'direct':
            t = typed(c['t'], kform)
            obj.breakpoints = t
            obj.mask = np.ones(t.shape, dtype='bool')
            obj.coeff = np.zeros((t.size - nord,), dtype='d')
            obj.icoeff = np.zeros((t.size - nord,), dtype='d')
        return obj, None
    except Exception as ex:
        return None, '%s: %s' % (type(ex).__name__, str(ex)[:120])


def observe_eval(obj, xs, cs, form='f8', with_sorted=True):
    """value(xs) for every coefficient vector (caller's order), and intrv / bsplvn of the sorted points;
    xs (rationals / Fractions) are handed over as an array of the given form."""
    x = typed(xs, form)
    keep = x.tolist()
    obs = {'err': None, 'vals': [], 'mask': None, 'order': None, 'intrv': None, 'rows': None}
    try:
        for cv in cs:
            obj.coeff = np.array(cv, dtype='d')
            yy, mask = obj.value(x)
            if x.tolist() != keep:
                obs['err'] = 'value() changed the caller\'s array of points'
                return obs
            yy = np.asarray(yy)
            mask = np.asarray(mask)
            if yy.shape != x.shape or mask.shape != x.shape:
                obs['err'] = 'shape of value()/mask %r %r for %d points' % (yy.shape, mask.shape, x.size)
                return obs
            if obs['mask'] is not None and not np.array_equal(obs['mask'], mask):
                obs['err'] = 'mask depends on the coefficients'
                return obs
            obs['vals'].append([float(v) for v in yy])
            obs['mask'] = mask
        obs['mask'] = [bool(m) for m in obs['mask']]
        if with_sorted and x.size > 0:
            order = np.argsort(x, kind='stable')
            xw = x[order]                      # same element type as the caller's array
            il = obj.intrv(xw)
            rows = obj.bsplvn(xw, il)
            obs['order'] = [int(a) for a in order]
            obs['intrv'] = [int(v) for v in il]
            obs['rows'] = [[float(v) for v in row] for row in np.asarray(rows)]
    except Exception as ex:
        obs['err'] = '%s: %s' % (type(ex).__name__, str(ex)[:120])
    return obs


# ---------------------------------------------------------------- comparing with TLC's outcome ----------
def close(v, want, tol=VTOL):
    return math.isfinite(v) and abs(Fraction(v) - want) <= Fraction(tol) * max(1, abs(want))


def compare_eval(pts, idx, nord, obs, ncs, single=False):
    """pts: TLC's PointExp records; idx[k] = index into pts of the k-th evaluated point.
    Returns a list of (problem text, id of the named deviation that explains it or None)."""
    probs = []
    tol = VTOL_SINGLE if single else VTOL
    if obs['err']:
        return [('raised/invalid: ' + obs['err'], 'D-C08-6' if (len(idx) == 0 and 'Error' in obs['err']) else None)]
    for k, p in enumerate(idx):
        pe = pts[p]
        if obs['mask'][k] != pe['inr']:
            probs.append(('point #%d: mask %s, specified %s' % (k, obs['mask'][k], pe['inr']), None))
        if not pe['inr'] or not pe['cand']:
            continue
        for q in range(ncs):
            v = obs['vals'][q][k]
            if not any(close(v, fr(cd['vals'][q]), tol) for cd in pe['cand']):
                probs.append(('point #%d coefficient vector %d: value %r, specified %s' % (
                    k, q, v, ' or '.join(str(fr(cd['vals'][q])) for cd in pe['cand'])), 'D-C08-3' if pe['emptyfirst'] else None))
    if obs['order'] is not None:
        for s, a in enumerate(obs['order']):
            pe = pts[idx[a]]
            cell = obs['intrv'][s] + 1
            if not pe['inr']:
                if cell not in pe['clamp']:
                    probs.append(('sorted point #%d (outside): intrv %d, documented clamp %s' % (
                        s, cell - 1, [k - 1 for k in pe['clamp']]), None))
                continue
            if not pe['cand']:
                continue
            hit = [cd for cd in pe['cand'] if cd['cell'] == cell]
            if not hit:
                probs.append(('sorted point #%d: intrv %d, cells containing the point %s' % (
                    s, cell - 1, [cd['cell'] - 1 for cd in pe['cand']]), 'D-C08-3' if pe['emptyfirst'] else None))
                continue
            row = obs['rows'][s]
            want = [fr(w) for w in hit[0]['row']]
            if len(row) != nord or not all(close(row[l], want[l], tol) for l in range(nord)):
                probs.append(('sorted point #%d: bsplvn row %r, specified %s' % (s, row, [str(w) for w in want]),
                              'D-C08-3' if pe['emptyfirst'] else None))
            elif any(v < 0 for v in row) or abs(sum(row) - 1) > (1e-5 if single else 1e-12):
                probs.append(('sorted point #%d: basis row negative or not summing to one: %r' % (s, row), None))
    return probs


def knots_of(obj):
    return [float(v) for v in np.asarray(obj.breakpoints, dtype='d')]


def compare_knots(obj, want):
    got = knots_of(obj)
    if len(got) != len(want):
        return 'object holds %d knots, specified %d' % (len(got), len(want))
    scale = max([1.0] + [abs(fl(w)) for w in want])
    for k, (g, w) in enumerate(zip(got, want)):
        if not math.isfinite(g) or abs(Fraction(g) - fr(w)) > Fraction(KTOL) * Fraction(scale):
            return 'knot %d is %r, specified %s (all: %s)' % (k, g, fr(w), got)
    return None


# ---------------------------------------------------------------- trace records -------------------------
def knots_record(data, nord, spread, opt, arg, obj, exc, form='f8', aform='f8'):
    rec = {'kind': 'knots', 'nord': int(nord), 'opt': opt, 'spread': jsonable(spread), 'data': jsonable(data),
           'arg': jsonable(arg) if opt not in ('nbkpts', 'everyn') else int(arg), 'form': form, 'aform': aform}
    if obj is None:
        rec['obs'] = {'err': True, 'exc': exc, 'finite': True, 'knots': [], 'ncoef': 0}
    else:
        kn = knots_of(obj)
        sc = [scaled(v, KS) for v in kn]
        fin = all(v is not None for v in sc)
        rec['obs'] = {'err': False, 'exc': '', 'finite': fin, 'knots': sc if fin else [],
                      'ncoef': int(np.asarray(obj.coeff).shape[-1])}
    return rec


def eval_record(nord, t, cs, xs, obs, xform='f8'):
    """t, xs: Fractions (exact images of the numbers used); cs: integer vectors; xform: form of the points."""
    rec = {'kind': 'eval', 'nord': int(nord), 't': [qq(v) for v in t], 'cs': [[int(v) for v in cv] for cv in cs],
           'xs': [qq(v) for v in xs], 'xform': xform}
    n = len(xs)
    if obs['err']:
        rec['obs'] = {'err': True, 'exc': obs['err'], 'mask': [], 'vals': [], 'vfin': [], 'sorted': False,
                      'order': [], 'intrv': [], 'rows': [], 'rsign': [], 'rsum': []}
        return rec
    vals, vfin = [], []
    for q in range(len(cs)):
        sc = [scaled(v, VS) for v in obs['vals'][q]]
        vfin.append([v is not None for v in sc])
        vals.append([0 if v is None else v for v in sc])
    if obs['order'] is None:            # no points: nothing was sorted
        rec['obs'] = {'err': False, 'exc': '', 'mask': obs['mask'], 'vals': vals, 'vfin': vfin, 'sorted': False,
                      'order': [], 'intrv': [], 'rows': [], 'rsign': [], 'rsum': []}
        return rec
    rows = [[scaled(v, VS) for v in row] for row in obs['rows']]
    o = {'err': False, 'exc': '', 'mask': obs['mask'], 'vals': vals, 'vfin': vfin, 'sorted': True,
         'order': [a + 1 for a in obs['order']], 'intrv': obs['intrv'],
         'rows': [[0 if v is None else v for v in row] for row in rows],
         'rsign': [[(-1 if (v < 0 or not math.isfinite(v)) else (1 if v > 0 else 0)) for v in row] for row in obs['rows']],
         'rsum': [(-1 if scaled(sum(row), VS) is None else scaled(sum(row), VS)) for row in obs['rows']]}
    rec['obs'] = o
    assert len(o['mask']) == n
    return rec


def judge(ctx, records, label, chunk=8000):
    """code -> spec: Trace_BSplineBasis judges the records.  Returns [(why, out)] in record order."""
    res = [None] * len(records)
    for base in range(0, len(records), chunk):
        part = records[base:base + chunk]
        path = os.path.join(ctx.scratch, 'trace_c08_%s_%d.json' % (label, base))
        core.write_json(path, part)
        r = ctx.tlc('Trace_BSplineBasis.tla', 'Trace_BSplineBasis.cfg', dump=True, env={'VERIF_TRACE': path},
                    count=False, label='Trace_BSplineBasis:%s[%d:%d]' % (label, base, base + len(part)), timeout=900)
        seen = 0
        for st in core.iter_states(r):
            if st['why'] == 'PENDING':
                continue
            seen += 1
            if st['why'].startswith('UNJUDGEABLE') or st['why'].startswith('UNREPRESENTABLE'):
                raise core.MachineryError('trace record %d cannot be judged in 32 bits: %s' % (base + st['i'] - 1, part[st['i'] - 1]))
            res[base + st['i'] - 1] = (st['why'], st['out'])
        if seen != len(part):
            raise core.MachineryError('Trace_BSplineBasis judged %d of %d records (%s)' % (seen, len(part), label))
        os.remove(path)
    return res


class Reporter:
    """At most CAP replay files per class of violation (a named deviation, or 'other'); all are counted."""
    CAP = 4

    def __init__(self, ctx):
        self.ctx = ctx
        self.counts = {}

    def __call__(self, case, finding=None):
        key = finding or 'unexplained'
        self.counts[key] = self.counts.get(key, 0) + 1
        if self.counts[key] <= (self.CAP if finding else 25):
            self.ctx.violation(case, finding=finding)

    def finish(self):
        self.ctx.cov['violations_by_class'] = dict(self.counts)
        for key, n in sorted(self.counts.items()):
            print('C08 violations of class %s: %d%s' % (key, n, (' - ' + FINDING_WHAT[key]) if key in FINDING_WHAT else ''))


# ---------------------------------------------------------------- points within a few ulp of the ends ---
ENDS_W = 2**29 + 2**24          # half width (in double-precision ordinals) of the window around each end:
ENDS_L = ENDS_W + 2**20         # a bit more than one single-precision ulp; ends sit at -ENDS_L and +ENDS_L
HEXINF = float('inf')


def ord64(v):
    """the position of a double among all doubles (consecutive doubles differ by one; -0.0 and 0.0 share 0)"""
    b = struct.unpack('<q', struct.pack('<d', float(v)))[0]
    return b if b >= 0 else -(b & 0x7fffffffffffffff)


def ends_coord(v, lo, hi):
    """order-preserving abstraction of a double relative to the two end breakpoints (see Trace_BSplineBasis)"""
    dl, dh = ord64(v) - ord64(lo), ord64(v) - ord64(hi)
    if abs(dl) <= ENDS_W:
        return -ENDS_L + dl
    if abs(dh) <= ENDS_W:
        return ENDS_L + dh
    if dl < 0:
        return -(ENDS_L + ENDS_W + 1)
    if dh > 0:
        return ENDS_L + ENDS_W + 1
    return 0


def hexes(a):
    return [float(v).hex() for v in a]


def random_ends_call(rng):
    """A constructor call on arbitrary (non-dyadic) binary floats, any breakpoint option, double or single
    precision arrays.  Everything is kept as hex strings so that the call can be replayed bit for bit."""
    n = rng.randint(6, 60)
    a = rng.choice([0.1, -2.7, 1.0 / 3, 5.3, 100.7, 1e-3, -0.6, 17.0]) * rng.choice([1.0, 1.0, rng.uniform(0.5, 2.0)])
    b = a + rng.uniform(0.5, 9.0) * max(1.0, abs(a) / 10)
    style = rng.choice(['linspace', 'linspace', 'uniform', 'unsorted'])
    if style == 'linspace':
        data = [a + (b - a) * k / (n - 1) for k in range(n)]
    else:
        data = sorted([a, b] + [rng.uniform(a, b) for _ in range(n - 2)])
        if style == 'unsorted':
            rng.shuffle(data)
    dform = rng.choice(['f8', 'f8', 'f8', 'f4', 'f8strided'])
    if dform == 'f4':
        data = [float(np.float32(v)) for v in data]
    lo, hi = min(data), max(data)
    opt = rng.choice(['bkpt', 'placed', 'bkspace', 'nbkpts', 'everyn', 'everyn'])
    aform = 'f8'
    if opt == 'nbkpts':
        arg = rng.randint(2, 9)
    elif opt == 'everyn':
        arg = rng.randint(1, max(1, n // 2))
    elif opt == 'bkspace':
        arg = float((hi - lo) / rng.uniform(1.5, 8.0)).hex()
    else:
        k = rng.randint(2, 6)
        inner = sorted(rng.uniform(lo, hi) for _ in range(k))
        if opt == 'bkpt':
            inner = sorted(set([rng.choice([lo, lo, lo - 0.3, lo + 0.05])] + inner + [rng.choice([hi, hi, hi + 0.4, hi - 0.05])]))
        aform = rng.choice(['f8', 'f4', 'f4', 'f8readonly'])
        if aform == 'f4':
            inner = sorted(set(float(np.float32(v)) for v in inner))
        arg = hexes(inner)
    return {'data': hexes(data), 'dform': dform, 'nord': rng.randint(1, 6),
            'spread': float(rng.choice([1.0, 1.0, 0.5, 2.0])).hex(), 'opt': opt, 'arg': arg, 'aform': aform,
            'xform': rng.choice(['f8', 'f8', 'f8', 'f4', 'f8strided', 'f8readonly', 'f8swap']),
            'seed': rng.randrange(10**6)}


def record_ends(call):
    """Execute the call, probe the validity mask within a few ulp (double and single precision) of the first and
    last breakpoint the object holds, return the trace record (numbers abstracted by ends_coord)."""
    from pydl.pydlutils.bspline import bspline
    rng = random.Random(call['seed'])
    data = [float.fromhex(h) for h in call['data']]
    nord = call['nord']
    opt = call['opt']
    rec = {'kind': 'ends', 'nord': nord, 'option': opt, 'call': call, 'lo': -ENDS_L, 'hi': ENDS_L, 'xs': [],
           'held': '', 'points': []}
    try:
        if opt in ('bkpt', 'placed'):
            kw = {opt: typed([Fraction(float.fromhex(h)) for h in call['arg']], call['aform'])}
        elif opt == 'bkspace':
            kw = {opt: float.fromhex(call['arg'])}
        else:
            kw = {opt: int(call['arg'])}
        obj = bspline(typed([Fraction(v) for v in data], call['dform']), nord=nord,
                      bkspread=float.fromhex(call['spread']), **kw)
        kn = np.asarray(obj.breakpoints)
        rec['held'] = str(kn.dtype)
        lo, hi = float(kn[nord - 1]), float(kn[kn.size - nord])
        if not (ord64(hi) - ord64(lo) > 2 * ENDS_W + 2):
            return None                       # no room for the two windows (degenerate range): not a probe case
        pts = [min(data), max(data), 0.5 * (lo + hi), lo - 1.0, hi + 1.0] + rng.sample(data, min(4, len(data)))
        for e in (lo, hi):
            d, u = e, e
            for _ in range(3):
                d, u = float(np.nextafter(d, -HEXINF)), float(np.nextafter(u, HEXINF))
                pts += [d, u]
            f = np.float32(e)
            pts += [e, float(f), float(np.nextafter(f, np.float32(-HEXINF))), float(np.nextafter(f, np.float32(HEXINF)))]
            ulp = abs(float(np.spacing(f)))
            pts += [e + s * q * ulp for s in (-1, 1) for q in (0.125, 0.25, 0.49, 0.51, 0.75, 1.0, 3.0)]
        if call['xform'] == 'f4':
            pts = [float(np.float32(v)) for v in pts]
        pts = [v for v in pts if math.isfinite(v)]
        rng.shuffle(pts)
        x = typed([Fraction(v) for v in pts], call['xform'])
        obj.coeff = np.array([rng.uniform(-1, 1) for _ in range(np.asarray(obj.coeff).size)], dtype='d')
        yy, mask = obj.value(x)
        mask = np.asarray(mask)
        if mask.shape != x.shape:
            raise ValueError('mask of shape %r for %d points' % (mask.shape, x.size))
        rec['xs'] = [ends_coord(v, lo, hi) for v in pts]
        rec['points'] = hexes(pts)
        rec['ends'] = [lo.hex(), hi.hex()]
        rec['obs'] = {'err': False, 'exc': '', 'mask': [bool(m) for m in mask]}
    except Exception as ex:
        rec['obs'] = {'err': True, 'exc': '%s: %s' % (type(ex).__name__, str(ex)[:120]), 'mask': []}
    return rec


def finding_of(text):
    for fid in FINDING_WHAT:
        if text.startswith(fid):
            return fid
    return None


# ---------------------------------------------------------------- spec -> code --------------------------
def pick_finding(probs):
    """the named deviation that explains EVERY problem of a case, or None"""
    tags = set(t for _, t in probs)
    return tags.pop() if len(tags) == 1 and None not in tags else None


def run_eval_case(c, exp):
    """Replay one evaluation problem.  Returns (problems, observations, object)."""
    obj, exc = build_eval_object(c)
    if obj is None:
        return [('constructor raised ' + exc, None)], None, None
    bad = compare_knots(obj, exp['knots'])
    if bad and c['how'] == 'bkpt':
        return [('constructed knots: ' + bad, None)], None, obj
    probs = []
    allobs = []
    for o, order in enumerate(c['orders']):
        idx = [int(k) - 1 for k in order['idx']]
        xs = [c['P'][k] for k in idx]
        obs = observe_eval(obj, xs, c['cs'], order['form'])
        allobs.append(obs)
        for text, tag in compare_eval(exp['pts'], idx, int(c['nord']), obs, len(c['cs']), order['single']):
            probs.append(('order %d (%d points as %s): %s' % (o, len(idx), order['form'], text), tag))
    if c.get('E'):
        # probes a hair beside the ends of the range: only the validity mask is specified
        try:
            obj.coeff = np.array(c['cs'][0], dtype='d')
            mask = [bool(m) for m in obj.value(typed(c['E'], 'f8'))[1]]
        except Exception as ex:
            mask = '%s: %s' % (type(ex).__name__, str(ex)[:100])
        if mask != [bool(m) for m in exp['ends']]:
            probs.append(('end probes %s (knots as %s, held as %s): mask %s, specified %s' % (
                [str(fr(q)) for q in c['E']], c.get('kform', 'f8'), np.asarray(obj.breakpoints).dtype, mask,
                [bool(m) for m in exp['ends']]), None))
    return probs, allobs, obj


def run_opt_case(c, exp):
    """Replay one construction call.  Returns (problem text or None, finding id or None, trace record)."""
    form, aform = c.get('form', 'f8'), c.get('aform', 'f8')
    obj, exc = construct(c['data'], c['nord'], c['spread'], c['opt'], c['arg'], form, aform)
    rec = knots_record(c['data'], c['nord'], c['spread'], c['opt'], c['arg'], obj, exc, form, aform)
    devs = set(exp.get('devs', ()))
    if obj is None:
        fid = 'D-C08-1' if ('D-C08-1' in devs and exc.startswith('IndexError')) else ('D-C08-7' if 'D-C08-7' in devs else None)
        return 'constructor raised ' + exc, fid, rec
    if exp['exact']:
        bad = compare_knots(obj, exp['knots'])
        if bad:
            got = knots_of(obj)
            fid = None
            if 'D-C08-2' in devs and len(got) == 2 * int(c['nord']) - 1:
                fid = 'D-C08-2'
            elif 'D-C08-5' in devs and len(got) == len(exp['knots']) and any(a > b for a, b in zip(got, got[1:])):
                fid = 'D-C08-5'
            elif 'D-C08-7' in devs:
                fid = 'D-C08-7'
            return 'knots: ' + bad, fid, rec
    return None, None, rec


def brief_case(c):
    if c['kind'] == 'opt':
        return 'bspline(x=%s as %s, nord=%d, bkspread=%s, %s=%s%s)' % (
            [str(fr(q)) for q in c['data']], c.get('form', 'f8'), c['nord'], fr(c['spread']), c['opt'],
            c['arg'] if c['opt'] in ('nbkpts', 'everyn') else
            (str(fr(c['arg'])) if c['opt'] == 'bkspace' else [str(fr(q)) for q in c['arg']]),
            (' as ' + c.get('aform', 'f8')) if c['opt'] in ('bkpt', 'placed') else '')
    return 'knots=%s nord=%d (%s, %s)' % ([str(fr(q)) for q in c['t']], c['nord'], c['fam'], c['how'])


def _tick(ctx, what):
    if os.environ.get('C08_TIMING'):
        print('C08 timing %6.1fs %s' % (core.time.time() - ctx.t0, what), flush=True)


def run(ctx):
    ctx.level = 'model_checking'
    ctx.rule = ('every non-seed state of MC_BSplineBasis is one case: a constructor call (option, argument, data, order, '
                'bkspread) or an evaluation problem (knot vector, order, 3 coefficient vectors, points, evaluation orders); '
                'non-trivial = distinct constructor calls with at least 2 distinct data values, and distinct '
                '(knots, order, point order) evaluation problems with a point inside the range; recorded calls = seeded '
                'random constructor calls and evaluations on dyadic numbers judged by Trace_BSplineBasis; every array '
                '(data, bkpt/placed, evaluation points) is handed over in a numpy form chosen by TLC / drawn at random '
                'among those that carry its values exactly (f8 f4 i8 i4 i2 u1, byte-swapped, strided, read-only)')
    ctx.assumptions = [
        'TLC 32-bit integers: enumerated knots are small integers, points halves and thirds; for orders 5-6 the padding '
        'extent is kept within 10 units and thirds are left out; recorded evaluations use grids 1/8 .. 1/2',
        'constructed breakpoints are single precision in the code: knots compared to 1e-6 relative (statement: "to '
        'single-precision rounding"), values and basis rows to 1e-10 against the spline of the knots the object holds',
        'a value on an interior breakpoint may be that of either neighbouring cell (differs only for order 1 or knots of '
        'multiplicity >= order); values at points outside the range are not asserted (only mask False, no exception)',
        'every-n is documented for sorted data: equality with the documented breakpoints is demanded for sorted data, '
        'for unsorted data only the laws of the statement (non-decreasing, covering, order-1 extra knots)',
        'explicit / placed breakpoints are supplied in non-decreasing order',
        'element type / byte order / stride / writability of an array is a representation of its values: same expected '
        'outcome; for float32 abscissae (the precision of the caller\'s own numbers) values and basis rows are compared to '
        '2e-5 relative instead of 1e-10; every integer type must give double precision',
        'in the domain and checked: empty array of evaluation points (empty result, no exception); a single evaluation '
        'point; order 1; a single datum or constant data in the constructor (zero-width range: the three laws and the '
        'documented breakpoints are demanded, no value is defined on an empty breakpoint range)',
        'outside the domain: 0-d (scalar) and 2-d arrays of points or data - the statement speaks of points "in the '
        'caller\'s order" and the class is documented for 1-d numpy.ndarray (x.size, x[i]); empty DATA in the '
        'constructor - there is no data range to cover',
    ]
    cfg = 'MC_BSplineBasis_quick.cfg' if ctx.quick else 'MC_BSplineBasis_thorough.cfg'
    r = ctx.tlc('MC_BSplineBasis.tla', cfg, dump=True, timeout=1500)
    _tick(ctx, 'MC done')
    rng = random.Random(ctx.seed)
    report = Reporter(ctx)
    krecs = []          # knots records of every object constructed during the replay
    kcases = []
    n = 0
    for st in core.iter_states(r):
        c, exp = st['c'], st['exp']
        if c['kind'] not in ('eval', 'opt'):
            continue
        n += 1
        if c['kind'] == 'opt':
            bad, fid, rec = run_opt_case(c, exp)
            krecs.append(rec)
            kcases.append((c, exp, bad is not None))
            ctx.evaluated(1, 'construct-' + c['opt'])
            ctx.cov['parts']['dataform-' + c['form']] = ctx.cov['parts'].get('dataform-' + c['form'], 0) + 1
            ctx.validated()
            if len(set(c['data'])) >= 2:
                ctx.nontriv(('opt', c['opt'], repr(c['arg']), c['data'], c['nord'], c['spread'], c['form'], c['aform']))
            if n % 700 == 1:
                ctx.sample({'call': brief_case(c), 'specified_knots': [str(fr(q)) for q in exp['knots']],
                            'observed_knots': rec['obs']['knots'] and [v / KS for v in rec['obs']['knots']]})
            if bad:
                report({'what': '%s: %s' % (brief_case(c), bad), 'mode': 'opt', 'c': jsonable(c), 'exp': jsonable(exp)},
                              finding=fid)
            continue
        probs, allobs, obj = run_eval_case(c, exp)
        npts = sum(len(o['idx']) for o in c['orders'])
        ctx.evaluated(npts * len(c['cs']), 'value-' + c['fam'])
        ctx.evaluated(npts, 'intrv-bsplvn-' + c['fam'])
        ctx.validated()
        if any(p['inr'] for p in exp['pts']):
            for o in c['orders']:
                ctx.nontriv(('eval', c['t'], c['nord'], o['idx'], o['form']))
                ctx.evaluated(0, 'form-' + o['form'])
                ctx.cov['parts']['form-' + o['form']] += 1
        if n % 700 == 2 and allobs:
            ctx.sample({'problem': brief_case(c), 'points': [str(fr(q)) for q in c['P']], 'order': list(c['orders'][0]['idx']),
                        'form': c['orders'][0]['form'],
                        'coeff': list(c['cs'][1]), 'observed_values': allobs[0]['vals'][1] if not allobs[0]['err'] else allobs[0]['err']})
        if probs:
            fid = pick_finding(probs)
            report({'what': '%s: %s%s' % (brief_case(c), probs[0][0], ' (+%d more)' % (len(probs) - 1) if len(probs) > 1 else ''),
                           'mode': 'eval', 'c': jsonable(c), 'exp': jsonable(exp), 'problems': [p for p, _ in probs][:12]},
                          finding=fid)
    if n == 0:
        raise core.MachineryError('TLC produced no cases')
    _tick(ctx, 'replay done')
    # ---- code -> spec: recorded random calls judged by Trace_BSplineBasis -------------------------------
    recs, meta = [], []
    nk = 700 if ctx.quick else 6000
    ne = 350 if ctx.quick else 3000
    for _ in range(nk):
        call = random_construction(rng)
        form = rng.choice(forms_for(call[0]))
        aform = rng.choice(forms_for(call[4])) if call[3] in ('bkpt', 'placed') else 'f8'
        obj, exc = construct(*call, form, aform)
        recs.append(knots_record(*call, obj, exc, form, aform))
        meta.append(('knots', call, None))
        if len(set(tuple(q) for q in call[0])) >= 2:
            ctx.nontriv(('rk', repr(call)))
    for _ in range(ne):
        prob = random_evaluation(rng)
        rec, obs = record_evaluation(prob)
        recs.append(rec)
        meta.append(('eval', prob, obs))
        ctx.nontriv(('re', repr(rec['t']), rec['nord'], repr(rec['xs'])))
    nends = 250 if ctx.quick else 2500
    held = {}
    supplied = set()
    while sum(1 for m in meta if m[0] == 'ends') < nends:
        call = random_ends_call(rng)
        rec = record_ends(call)
        if rec is None:
            continue
        recs.append(rec)
        meta.append(('ends', call, None))
        held[(call['opt'], rec['held'])] = held.get((call['opt'], rec['held']), 0) + 1
        supplied.add((call['opt'], 'data:' + call['dform']))
        if call['opt'] in ('bkpt', 'placed'):
            supplied.add((call['opt'], 'array:' + call['aform']))
        ctx.nontriv(('ends', repr(call)))
    # the precision in which the object HOLDS its knots is the implementation's business (recorded for information);
    # the coverage demanded of this run is over what the harness SUPPLIED
    ctx.cov['parts']['recorded-end-probes'] = {'%s/%s' % k: v for k, v in sorted(held.items())}
    need = set((o, 'data:' + d) for o in ('bkpt', 'placed', 'bkspace', 'nbkpts', 'everyn') for d in ('f8', 'f4')) | \
        set((o, 'array:' + a) for o in ('bkpt', 'placed') for a in ('f8', 'f4'))
    if not need <= supplied:
        raise core.MachineryError('end probes: the harness did not supply %s' % sorted(need - supplied))
    _tick(ctx, 'random calls recorded')
    # one TLC run judges the knots of every object constructed during the replay (laws of the statement)
    # and the recorded random calls
    allres = judge(ctx, krecs + recs, 'replayed-constructions+recorded')
    ctx.evaluated(len(krecs), 'knot-laws')
    for (c, exp, already), rec, (why, _) in zip(kcases, krecs, allres[:len(krecs)]):
        if why and not already:
            report({'what': '%s: %s' % (brief_case(c), why), 'mode': 'opt', 'c': jsonable(c), 'exp': jsonable(exp),
                    'why': why}, finding=finding_of(why))
    res = allres[len(krecs):]
    _tick(ctx, 'trace judged')
    ctx.evaluated(nk, 'recorded-constructions')
    ctx.evaluated(sum(len(m[1]['xs']) * len(m[1]['cs']) for m in meta if m[0] == 'eval'), 'recorded-values')
    ctx.evaluated(sum(len(r['xs']) for r in recs if r['kind'] == 'ends'), 'recorded-end-probe-points')
    ctx.validated(len(recs))
    kinds = set()
    accepted = []
    for k, (rec, (kind, what, obs), (why, out)) in enumerate(zip(recs, meta, res)):
        kinds.add(rec.get('opt', rec['kind']))
        if kind == 'eval' and not why and not rec['obs']['err']:
            # tighten: the floats against the exact outcome TLC computed for this record
            probs = compare_eval(out, list(range(len(rec['xs']))), rec['nord'], obs, len(rec['cs']),
                                 rec['xform'] in SINGLE_FORMS)
            if probs:
                why = 'beyond tolerance: ' + probs[0][0]
                if pick_finding(probs):
                    why = pick_finding(probs) + ' ' + why
        if why:
            report({'what': 'recorded %s rejected by Trace_BSplineBasis: %s; %s' % (
                kind, why, describe_record(rec)), 'mode': 'rec', 'record': rec, 'why': why}, finding=finding_of(why))
        else:
            accepted.append(k)
    if kinds != {'bkpt', 'placed', 'bkspace', 'nbkpts', 'everyn', 'eval', 'ends'}:
        raise core.MachineryError('recorded calls did not cover every option kind: %s' % sorted(kinds))
    ctx.sample({'recorded_construction': describe_record(recs[0])})
    ctx.sample({'recorded_evaluation': describe_record(recs[nk]), 'observed_values': meta[nk][2]['vals'] if not meta[nk][2]['err'] else meta[nk][2]['err']})
    xforms = set(r['xform'] for r in recs if r['kind'] == 'eval') | set(r.get('form') for r in recs if r['kind'] == 'knots')
    if not set(FORMS) <= xforms:
        raise core.MachineryError('recorded calls did not use every form: %s' % sorted(xforms))
    # ---- binding self-test: falsified copies of accepted records must all be rejected by the same operators
    fals = falsify(rng, [recs[k] for k in accepted], [res[k][1] for k in accepted], 120 if ctx.quick else 300)
    core.binding_selftest(ctx, 'Trace_BSplineBasisSelf', fals, 'recorded_calls')
    _tick(ctx, 'self-test done')
    report.finish()
    ctx.exhaustive = not ctx.quick


def falsify(rng, records, outs, want):
    """Copies of accepted records with ONE observed field changed beyond any tolerance (so that the real code
    cannot have produced them): a spline value, a mask bit, an interval index, a basis value; a knot that breaks a
    law of the statement, a knot off the documented position, the coefficient count."""
    import copy
    fals = []
    kinds = {}
    order = list(range(len(records)))
    rng.shuffle(order)
    for k in order:
        if len(fals) >= want:
            break
        rec, out = records[k], outs[k]
        r2 = copy.deepcopy(rec)
        o = r2['obs']
        if o['err']:
            continue
        if rec['kind'] == 'ends':
            mode = 'mask'
            b = rng.randrange(len(o['mask']))
            o['mask'][b] = not o['mask'][b]
        elif rec['kind'] == 'knots':
            m = len(o['knots'])
            mode = rng.choice(['ncoef', 'decreasing', 'uncovered', 'moved'])
            if mode == 'ncoef':
                o['ncoef'] += 1
            elif mode == 'decreasing' and m >= 2:
                j = rng.randrange(m - 1)
                o['knots'][j] = o['knots'][j + 1] + 50
            elif mode == 'uncovered':
                lo = min(fr(q) for q in rec['data'])
                o['knots'][rec['nord'] - 1] = scaled(float(lo), KS) + 500
                for j in range(rec['nord'] - 1):          # keep the vector non-decreasing: only coverage is broken
                    o['knots'][j] = min(o['knots'][j], o['knots'][rec['nord'] - 1])
                if m > rec['nord'] and o['knots'][rec['nord']] < o['knots'][rec['nord'] - 1]:
                    continue
            elif mode == 'moved' and out.get('knots') and rec['nord'] >= 2:
                o['knots'][0] -= 40                        # first padding knot off its documented place, laws intact
            else:
                continue
        else:
            inr = [a for a, pe in enumerate(out) if pe['inr'] and pe['cand']]
            if not inr:
                continue
            a = rng.choice(inr)
            mode = rng.choice(['value', 'mask', 'intrv', 'row'])
            if mode == 'value':
                o['vals'][rng.randrange(len(o['vals']))][a] += 40 * VS     # |value| <= 9 inside the range
            elif mode == 'mask':
                b = rng.randrange(len(o['mask']))
                o['mask'][b] = not o['mask'][b]
            else:
                s = o['order'].index(a + 1)
                if mode == 'intrv':       # a cell of the breakpoint range that does not contain the point
                    cells = [cd['cell'] for cd in out[a]['cand']]
                    other = [j for j in range(rec['nord'], len(rec['t']) - rec['nord'] + 1) if j not in cells]
                    if not other:
                        continue
                    o['intrv'][s] = rng.choice(other) - 1
                else:
                    o['rows'][s][rng.randrange(rec['nord'])] += 6 * VS
        kinds[rec['kind'] + ':' + mode] = kinds.get(rec['kind'] + ':' + mode, 0) + 1
        fals.append(r2)
    if len(kinds) < 8:
        raise core.MachineryError('binding self-test exercised too few kinds of falsification: %s' % kinds)
    return fals


# ---------------------------------------------------------------- random calls (code -> spec) ----------
def random_data(rng):
    n = rng.randint(2, 14)
    style = rng.choice(['grid', 'sorted', 'sorted', 'unsorted', 'ties', 'clustered'])
    den = rng.choice([1, 2, 4, 8])
    lo = rng.randint(-4 * den, 2 * den)
    if style == 'grid':
        step = rng.randint(1, 3)
        vals = [lo + step * k for k in range(n)]
    elif style == 'ties':
        vals = sorted(rng.randint(lo, lo + max(2, n // 2)) for _ in range(n))
    elif style == 'clustered':
        vals = sorted(set(lo + (k * k) // rng.choice([1, 2, 3]) for k in range(n)))
    else:
        vals = sorted(rng.sample(range(lo, lo + 4 * n), n))
    if len(set(vals)) < 2:
        vals = vals[:-1] + [vals[-1] + 1]
    if style == 'unsorted':
        rng.shuffle(vals)
    return [qq(Fraction(v, den)) for v in vals]


def random_construction(rng):
    data = random_data(rng)
    lo, hi = min(fr(q) for q in data), max(fr(q) for q in data)
    nord = rng.randint(1, 6)
    spread = qq(rng.choice([Fraction(1), Fraction(1), Fraction(1, 2), Fraction(2), Fraction(3, 2), Fraction(1, 4)]))
    opt = rng.choice(['bkpt', 'placed', 'bkspace', 'nbkpts', 'everyn', 'everyn'])
    if opt == 'nbkpts':
        arg = rng.randint(0, 9)
    elif opt == 'everyn':
        arg = rng.randint(1, len(data) + 2)
    elif opt == 'bkspace':
        arg = qq(rng.choice([Fraction(1, 4), Fraction(3, 8), Fraction(1, 2), Fraction(3, 4), Fraction(1), Fraction(3, 2),
                             Fraction(2), Fraction(5, 2), Fraction(4), Fraction(16)]))
    else:
        pool = sorted(set([lo - 1, lo - Fraction(1, 8), lo, hi, hi + Fraction(1, 4), hi + 2] +
                          [lo + (hi - lo) * Fraction(k, 8) for k in range(1, 8)]))
        k = rng.randint(0 if opt == 'placed' else 2, min(7, len(pool)))
        arg = [qq(v) for v in sorted(rng.sample(pool, k))]
    return data, nord, spread, opt, arg


def random_evaluation(rng):
    """A knot vector on a dyadic grid (through the constructor or stored directly), integer coefficients,
    points on the twice finer grid in any order, with repeats, knot hits and points just outside."""
    nord = rng.randint(1, 6)
    den = 8 if nord <= 3 else (4 if nord == 4 else 2)
    maxw = 4 if nord <= 4 else 2
    ncell = rng.randint(1, 5)
    how = rng.choice(['bkpt', 'bkpt', 'direct'])
    start = rng.randint(-2 * den, 2 * den)
    if how == 'bkpt':
        widths = [rng.randint(1, maxw) for _ in range(ncell)]
        if rng.random() < 0.2 and ncell >= 2:
            widths[rng.randrange(0, ncell)] = 0         # a repeated breakpoint (first, interior or last)
        bk = [start]
        for w in widths:
            bk.append(bk[-1] + w)
        spread = rng.choice([Fraction(1), Fraction(1), Fraction(1, 2), Fraction(2)] if nord <= 4 else [Fraction(1)])
        t = None
    else:
        m = 2 * nord + ncell - 1
        t = [start]
        for _ in range(m - 1):
            t.append(t[-1] + rng.randint(1, maxw))
        bk = t[nord - 1:m - nord + 1]
        spread = Fraction(1)
        t = [Fraction(v, den) for v in t]
    bkf = [Fraction(v, den) for v in bk]
    lo, hi = bkf[0], bkf[-1]
    fine = 2 * den
    pool = [Fraction(k, fine) for k in range(int((lo - 1) * fine), int((hi + 1) * fine) + 1)]
    n = rng.randint(1, 12)
    xs = []
    for _ in range(n):
        p = rng.random()
        if p < 0.25:
            xs.append(rng.choice(bkf))
        elif p < 0.35 and xs:
            xs.append(rng.choice(xs))
        else:
            xs.append(rng.choice(pool))
    ncoef = len(bk) + nord - 2
    cs = [[rng.randint(-9, 9) for _ in range(ncoef + 6)] for _ in range(2)]     # cut to the object's size later
    if rng.random() < 0.04:
        xs = []                                    # no point at all
    if rng.random() < 0.45:                        # the same problem on the grid where every number is an integer
        bkf = [v * fine for v in bkf]
        xs = [v * fine for v in xs]
        t = [v * fine for v in t] if t else t
    xform = rng.choice(forms_for(xs))              # the representation the points are handed over in
    return {'nord': nord, 'how': how, 'bk': bkf, 'spread': spread, 't': t, 'xs': xs, 'cs': cs, 'xform': xform}


def record_evaluation(prob):
    c = {'bk': [qq(v) for v in prob['bk']], 'nord': prob['nord'], 'spread': qq(prob['spread']), 'how': prob['how'],
         't': [qq(v) for v in prob['t']] if prob['t'] else []}
    obj, exc = build_eval_object(c)
    cs = prob['cs']
    if obj is None:
        obs = {'err': 'constructor: ' + exc}
        t = prob['t'] or prob['bk']
    else:
        t = [Fraction(v) for v in knots_of(obj)]      # the knots the object actually holds, exactly
        ncoef = len(t) - prob['nord']
        if np.asarray(obj.coeff).shape != (ncoef,) or ncoef < 1 or ncoef > len(cs[0]):
            obs = {'err': 'object holds %d knots and coeff of shape %r at order %d' % (len(t), np.asarray(obj.coeff).shape, prob['nord'])}
        elif not all(math.isfinite(v) for v in knots_of(obj)) or any(v.denominator > 64 for v in t):
            obs = {'err': 'knots left the dyadic grid of the input: %s' % knots_of(obj)}
            t = prob['t'] or prob['bk']
        else:
            cs = [cv[:ncoef] for cv in cs]
            obs = observe_eval(obj, prob['xs'], cs, prob['xform'])
    prob['cs'] = cs
    return eval_record(prob['nord'], t, cs, prob['xs'], obs, prob['xform']), obs


def describe_record(rec):
    if rec['kind'] == 'ends':
        c = rec['call']
        fx = lambda h: repr(float.fromhex(h))
        arg = c['arg'] if isinstance(c['arg'], int) else (fx(c['arg']) if isinstance(c['arg'], str) else [fx(h) for h in c['arg']])
        wrong = ''
        if not rec['obs']['err'] and rec.get('points'):
            lo, hi = [float.fromhex(h) for h in rec['ends']]
            bad = [(float.fromhex(h), m) for h, m in zip(rec['points'], rec['obs']['mask'])
                   if m != (lo <= float.fromhex(h) <= hi)]
            wrong = '; range held [%r, %r] (%s); e.g. x=%r mask %s' % ((lo, hi, rec['held']) + bad[0]) if bad else ''
        return 'bspline(x=%d %s points %s..%s, nord=%d, bkspread=%s, %s=%s as %s).value(%d points as %s)%s%s' % (
            len(c['data']), c['dform'], fx(c['data'][0]), fx(c['data'][-1]), rec['nord'], fx(c['spread']), c['opt'], arg,
            c['aform'], len(rec['xs']), c['xform'], wrong, (' raised ' + rec['obs']['exc']) if rec['obs']['err'] else '')
    if rec['kind'] == 'knots':
        arg = rec['arg']
        if rec['opt'] == 'bkspace':
            arg = str(fr(arg))
        elif rec['opt'] in ('bkpt', 'placed'):
            arg = [str(fr(q)) for q in arg]
        return 'bspline(x=%s as %s, nord=%d, bkspread=%s, %s=%s as %s) -> %s' % (
            [str(fr(q)) for q in rec['data']], rec.get('form', 'f8'), rec['nord'], fr(rec['spread']), rec['opt'], arg,
            rec.get('aform', 'f8'),
            rec['obs']['exc'] if rec['obs']['err'] else [v / KS for v in rec['obs']['knots']])
    return 'knots=%s nord=%d coeff=%s x=%s as %s' % ([str(fr(q)) for q in rec['t']], rec['nord'], rec['cs'],
                                                     [str(fr(q)) for q in rec['xs']], rec.get('xform', 'f8'))


# ---------------------------------------------------------------- replay of one failing case -----------
def replay(ctx, case):
    """bin/check C08 --replay <file>: re-execute the single failing case of a replay file."""
    ctx.level = 'model_checking'
    ctx.rule = 'single replayed case'
    ctx.nontriv('a')
    ctx.nontriv('b')
    ctx.evaluated(1)
    mode = case.get('mode')
    if mode == 'eval':
        probs, allobs, obj = run_eval_case(case['c'], case['exp'])
        print('replayed evaluation problem:', brief_case(case['c']))
        print('knots held by the object:', knots_of(obj) if obj is not None else None)
        for p, _ in probs:
            print('  ', p)
        if probs:
            ctx.violation(case, finding=pick_finding(probs))
    elif mode == 'opt':
        c, exp = case['c'], case['exp']
        bad, fid, rec = run_opt_case(c, exp)
        why, _ = judge(ctx, [rec], 'replay')[0]
        print('replayed constructor call:', brief_case(c))
        print('observed:', describe_record(rec))
        print('specified knots:', [str(fr(q)) for q in exp['knots']], '(equality demanded: %s)' % exp['exact'])
        print('harness comparison:', bad, '| Trace_BSplineBasis:', why or 'accepted')
        if bad or why:
            ctx.violation(case, finding=fid or finding_of(why))
    elif mode == 'rec':
        rec = case['record']
        if rec['kind'] == 'ends':
            new = record_ends(rec['call'])
            obs = None
        elif rec['kind'] == 'knots':
            call = (rec['data'], rec['nord'], rec['spread'], rec['opt'], rec['arg'])
            forms = (rec.get('form', 'f8'), rec.get('aform', 'f8'))
            obj, exc = construct(*call, *forms)
            new = knots_record(*call, obj, exc, *forms)
            obs = None
        else:
            t = [fr(q) for q in rec['t']]
            nord = rec['nord']
            c = {'bk': [qq(v) for v in t[nord - 1:len(t) - nord + 1]], 'nord': nord, 'spread': [1, 1], 'how': 'direct',
                 't': rec['t']}
            obj, exc = build_eval_object(c)
            xform = rec.get('xform', 'f8')
            obs = observe_eval(obj, rec['xs'], rec['cs'], xform) if obj is not None else {'err': exc}
            new = eval_record(nord, t, rec['cs'], [fr(q) for q in rec['xs']], obs, xform)
        why, out = judge(ctx, [new], 'replay')[0]
        if not why and obs is not None and not obs['err']:
            probs = compare_eval(out, list(range(len(new['xs']))), new['nord'], obs, len(new['cs']),
                                 new['xform'] in SINGLE_FORMS)
            if probs:
                why = 'beyond tolerance: ' + probs[0][0]
        print('replayed recorded call:', describe_record(new))
        print('Trace_BSplineBasis:', why or 'accepted')
        if why:
            ctx.violation(case, finding=finding_of(why))
    else:
        raise core.MachineryError('replay file has no mode')
