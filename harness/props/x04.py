"""X04 - dates, calibration constants and small helpers: get_juldate / current_mjd / get_juldate_main,
hogg_iau_name_main, sdss_calibv, decode_mixed, the exception hierarchy.

Spec: spec/DatesMisc.tla; MC: mc/MC_DatesMisc; Trace: trace/Trace_DatesMisc.

spec -> code: every call state of MC_DatesMisc (call c, specified outcome exp) is executed on the real function
and compared with exp.
code -> spec: seeded random / adversarial calls of the real functions are recorded and judged by TLC with the same
operators (Trace_DatesMisc).
Python only concretises (time limbs -> a number of the demanded type, character lists -> sys.argv, byte values ->
objects, class names -> classes; the clock is frozen by replacing the `time` the function reads) and abstracts
(float -> exact Fraction / outward-rounded limbs, str -> code points, stdout -> lines).
"""
import contextlib
import copy
import io
import json
import math
import os
import random
import re
import sys
import time as _time
from fractions import Fraction

import numpy as np

from .. import core, tlaval

SEEDS = ('root', 'seed', 'mseed')
HALF = 43200
ULPS = 4                          # tolerance of a float result: 4 ulp of the Julian date
MAIN_TOL = Fraction(1, 10**6)     # tolerance of the printed date (get_juldate_main): 10^-6 day
FINDINGS = {'D-X04-1': 'get_juldate computes in the precision of a numpy float32/float16 argument'}
NARROW = {'np.float32': np.float32, 'np.float16': np.float16}


# ----------------------------------------------------------------------------------------------
# fast reader of the TLC dump (records, tuples, sets of tuples, integers, strings, booleans), self-checked
# against the generic parser
# ----------------------------------------------------------------------------------------------
def _listify(v):
    if isinstance(v, dict):
        return {k: _listify(x) for k, x in v.items()}
    if isinstance(v, (tuple, list)):
        return [_listify(x) for x in v]
    if isinstance(v, (set, frozenset)):
        return sorted((_listify(x) for x in v), key=repr)
    return v


def states_of(r):
    for st in core.iter_states(r):
        yield {k: _listify(v) for k, v in st.items()}


# ----------------------------------------------------------------------------------------------
# the clock
# ----------------------------------------------------------------------------------------------
@contextlib.contextmanager
def frozen_clock(t):
    """The clock reads t (a float, as time.time() returns): both the name pydl.goddard.astro imported and time.time."""
    import pydl.goddard.astro as A
    had = hasattr(A, 'time')
    saved_a = getattr(A, 'time', None)
    saved_t = _time.time
    fake = lambda: t
    try:
        if had and callable(saved_a):
            A.time = fake
        _time.time = fake
        yield
    finally:
        _time.time = saved_t
        if had:
            A.time = saved_a


def run_main(fn, argv):
    """Call a console-script entry point in process: sys.argv patched, stdout / stderr captured."""
    out, err = io.StringIO(), io.StringIO()
    saved = sys.argv
    sys.argv = list(argv)
    res = {'status': 'return', 'code': -1, 'exc': ''}
    try:
        with contextlib.redirect_stdout(out), contextlib.redirect_stderr(err):
            try:
                rc = fn()
                res['code'] = int(rc) if isinstance(rc, (int, np.integer)) and not isinstance(rc, bool) else -1
            except SystemExit as ex:
                res['status'] = 'exit'
                res['code'] = 0 if ex.code is None else (int(ex.code) if isinstance(ex.code, int) else 1)
            except Exception as ex:
                res['status'] = 'raise'
                res['exc'] = type(ex).__name__ + ': ' + str(ex)[:80]
    finally:
        sys.argv = saved
    res['stdout'] = out.getvalue()
    res['stderr'] = err.getvalue()
    return res


# ----------------------------------------------------------------------------------------------
# S1-S4 Julian date
# ----------------------------------------------------------------------------------------------
def time_of(q, r):
    return Fraction(HALF * q) + Fraction(r[0], r[1])


def fits(ty, q, r):
    """Fits(ty, t) of the specification (used only to draw random cases; TLC re-checks every record)."""
    n, d = r
    pow2 = d in (1, 2, 4, 8, 16, 32, 64)
    if ty in ('int', 'np.int64'):
        return d == 1
    if ty == 'np.int32':
        return d == 1 and abs(q) <= 49000 and abs(n) <= 1000000
    if ty in ('float', 'np.float64', 'array0d'):
        return pow2 and abs(q) <= 2**30 and abs(n) <= 2**24
    if ty == 'np.float32':
        return pow2 and abs(q) <= 380 and abs(n) <= 2**22 and abs(HALF * q * d + n) < 2**24
    if ty == 'np.float16':
        return pow2 and q == 0 and abs(n) < 2048
    return False


def concretise_time(ty, T, salt=0):
    """The number of seconds T (a Fraction) as an object of the demanded type, holding T exactly."""
    if ty == 'int':
        x = int(T)
    elif ty == 'float':
        x = float(T)
    elif ty == 'np.int32':
        x = np.int32(int(T))
    elif ty == 'np.int64':
        x = np.int64(int(T))
    elif ty == 'np.float64':
        x = np.float64(float(T))
    elif ty == 'np.float32':
        x = np.float32(float(T))
    elif ty == 'np.float16':
        x = np.float16(float(T))
    elif ty == 'array0d':
        x = np.array(int(T), dtype=np.int64) if (T.denominator == 1 and salt % 2 == 0) else np.array(float(T), dtype=np.float64)
        if salt % 5 == 0:
            x = x.astype(x.dtype.newbyteorder())          # same value, other byte order (as read from FITS)
        if salt % 3 == 0:
            x.setflags(write=False)
    else:
        raise core.MachineryError('unknown type ' + ty)
    back = Fraction(int(x)) if isinstance(x, (int, np.integer)) or (isinstance(x, np.ndarray) and x.dtype.kind == 'i') else Fraction(float(x))
    if back != T:
        raise core.MachineryError('%s does not hold %s exactly' % (ty, T))
    return x


def type_name(x):
    if type(x) is float:
        return 'float'
    for name, t in (('np.float64', np.float64), ('np.float32', np.float32), ('np.float16', np.float16)):
        if type(x) is t:
            return name
    return type(x).__name__


def call_jd(ty, via, T, decoy, salt=0):
    """Execute one Julian-date case; returns the observation {'err', 'kind', 'rtype', 'value' (Fraction or None),
    'finite', 'raw'}."""
    from pydl.goddard.astro import get_juldate, get_juldate_main
    from pydl.pydlutils.coord import current_mjd
    obs = {'err': '', 'kind': 'other', 'rtype': '', 'value': None, 'finite': False, 'raw': ''}
    try:
        if via in ('pos', 'kw'):
            x = concretise_time(ty, T, salt)
            keep = copy.deepcopy(x)
            with frozen_clock(float(decoy)):
                res = get_juldate(x) if via == 'pos' else get_juldate(seconds=x)
            if isinstance(x, np.ndarray) and not (x.dtype == keep.dtype and np.array_equal(x, keep)):
                obs['err'] = 'the argument was modified'
                return obs
        else:
            clock = concretise_time('float', T)
            with frozen_clock(clock):
                if via == 'clock':
                    res = get_juldate()
                elif via == 'clockNone':
                    res = get_juldate(None) if salt % 2 == 0 else get_juldate(seconds=None)
                elif via == 'mjd':
                    res = current_mjd()
                elif via == 'main':
                    m = run_main(get_juldate_main, ['get_juldate'])
                    obs['raw'] = m['stdout'][:80]
                    if m['status'] != 'return' or m['code'] != 0:
                        obs['err'] = 'get_juldate_main: %s %s %s' % (m['status'], m['code'], m['exc'])
                        return obs
                    lines = m['stdout'].split('\n')
                    if len(lines) != 2 or lines[1] != '':
                        obs['err'] = 'get_juldate_main printed %d lines' % (len(lines) - 1)
                        return obs
                    try:
                        res = float(lines[0])
                    except ValueError:
                        obs['err'] = 'get_juldate_main printed %r' % lines[0][:40]
                        return obs
                else:
                    raise core.MachineryError('unknown via ' + via)
    except core.MachineryError:
        raise
    except Exception as ex:
        obs['err'] = type(ex).__name__ + ': ' + str(ex)[:80]
        return obs
    obs['rtype'] = type_name(res)
    obs['raw'] = obs['raw'] or repr(res)[:60]
    if isinstance(res, float) and not isinstance(res, bool):
        obs['kind'] = 'float'
    elif isinstance(res, (np.float32, np.float16)):
        obs['kind'] = 'narrow'
    else:
        return obs
    v = float(res)
    obs['finite'] = math.isfinite(v)
    if obs['finite']:
        obs['value'] = Fraction(v)
    return obs


def exact_date(exp):
    return Fraction(exp['half'], 2) + Fraction(exp['rem'][0], exp['rem'][1]) / 86400


def tolerance(via, exact):
    """4 ulp of the Julian date the arithmetic goes through (current_mjd subtracts 2400000.5 from it);
    the printed date: 10^-6 day."""
    if via == 'main':
        return MAIN_TOL
    jd = exact + (Fraction(4800001, 2) if via == 'mjd' else 0)
    return ULPS * Fraction(math.ulp(float(abs(jd)) or 1.0))


def narrow_spacing(rtype, v):
    return Fraction(float(np.spacing(NARROW[rtype](float(v)))))


def narrow_close(ty, obs, exact):
    """The precise shape of D-X04-1: the result has the narrow type of the input and is what arithmetic in that
    precision gives (within one spacing of that type; float16 overflows to infinity)."""
    if obs['kind'] != 'narrow' or obs['rtype'] != ty:
        return False
    if ty == 'np.float16':
        return not obs['finite']
    if not obs['finite']:
        return False
    return abs(obs['value'] - exact) <= narrow_spacing(ty, obs['value'])


def jd_conforms(via, exp, obs):
    if obs['err'] or obs['kind'] != 'float' or not obs['finite']:
        return False
    exact = exact_date(exp)
    return abs(obs['value'] - exact) <= tolerance(via, exact)


def limbs(x, up):
    """A date x (Fraction, days) as [half days, seconds, 2^-20 seconds], rounded down (up=False) or up."""
    H = math.floor(2 * x)
    rest = (x - Fraction(H, 2)) * 86400
    s = math.floor(rest)
    f = (rest - s) * 2**20
    f = math.ceil(f) if up else math.floor(f)
    if f == 2**20:
        s, f = s + 1, 0
    if s == HALF:
        H, s = H + 1, 0
    return [H, s, f]


def jd_record(q, r, ty, via, obs, tol_of):
    """lo/hi: the observed value -/+ the tolerance; wlo/whi (narrow results only): the observed value -/+ one spacing
    of its own type, the resolution at which TLC recognises D-X04-1."""
    ret = {'err': obs['err'][:60], 'kind': obs['kind'], 'rtype': obs['rtype'], 'finite': bool(obs['finite']),
           'lo': [0, 0, 0], 'hi': [0, 0, 0], 'wlo': [0, 0, 0], 'whi': [0, 0, 0]}
    v = obs['value']
    if v is not None and abs(v) < 2**29:
        tol = tol_of(v)
        ret['lo'] = limbs(v - tol, False)
        ret['hi'] = limbs(v + tol, True)
        if obs['kind'] == 'narrow':
            w = narrow_spacing(obs['rtype'], v)
            ret['wlo'] = limbs(v - w, False)
            ret['whi'] = limbs(v + w, True)
    elif v is not None:
        ret['finite'] = False
    return {'fn': 'jd', 'q': q, 'r': list(r), 'ty': ty, 'via': via, 'ret': ret}


# ----------------------------------------------------------------------------------------------
# S5 hogg_iau_name_main
# ----------------------------------------------------------------------------------------------
HELP_CANDIDATES = ['RA', 'Dec', '--precision', '--prefix', '-P', '-p', '--help', '-h']


def call_main(argv_chars):
    from pydl.pydlutils.misc import hogg_iau_name_main
    argv = [''.join(a) for a in argv_chars]
    m = run_main(hogg_iau_name_main, argv)
    m['argv'] = argv
    return m


def main_conforms(exp, m):
    if exp['out'] == 'open':
        return True
    if exp['out'] == 'name':
        return m['status'] == 'return' and m['code'] == 0 and m['stdout'] == ''.join(exp['line']) + '\n'
    if exp['out'] == 'reject':
        return m['status'] in ('return', 'exit') and m['code'] != 0 and m['stdout'] == ''
    if exp['out'] == 'help':
        return m['status'] == 'exit' and m['code'] == 0 and all(''.join(w) in m['stdout'] for w in exp['words'])
    raise core.MachineryError('unknown outcome ' + exp['out'])


def main_record(argv_chars, m):
    return {'fn': 'iaumain', 'argv': [list(a) for a in argv_chars],
            'ret': {'status': m['status'], 'code': m['code'] if abs(m['code']) < 2**31 else -1,
                    'lines': m['stdout'].split('\n')[:6],
                    'mentions': [list(w) for w in HELP_CANDIDATES if w in m['stdout']]}}


# ----------------------------------------------------------------------------------------------
# S6 sdss_calibv
# ----------------------------------------------------------------------------------------------
def call_calibv(unit):
    import astropy.units as u
    from pydl.photoop.photoobj import sdss_calibv
    units = {'deg/d': u.deg / u.d, 'arcsec/s': u.arcsec / u.s, 'arcsec/d': u.arcsec / u.d, 'deg/h': u.deg / u.h,
             'arcmin/h': u.arcmin / u.h}
    ret = {'err': '', 'quantity': False, 'close': False, 'val': [0, 1], 'raw': ''}
    try:
        first = sdss_calibv()
        v0 = float(first.value)
        try:
            first *= 3.0                      # what one caller does to its result must not reach the next caller
        except Exception:
            pass
        q = sdss_calibv()
        ret['raw'] = repr(q)
        ret['quantity'] = bool(isinstance(q, u.Quantity) and q.shape == () and q.unit == u.deg / u.d and
                               isinstance(q.value, float) and float(q.value) == v0 and
                               (u.deg / u.d).to(q.unit) == 1.0)
        v = float(q.to(units[unit]).value)
    except Exception as ex:
        ret['err'] = type(ex).__name__ + ': ' + str(ex)[:80]
        return ret
    if not math.isfinite(v):
        return ret
    fr = Fraction(v).limit_denominator(100000)
    ret['val'] = [fr.numerator, fr.denominator] if abs(fr.numerator) < 2**31 else [0, 1]
    ret['close'] = abs(Fraction(v) - fr) <= ULPS * Fraction(math.ulp(v))
    return ret


def calib_conforms(exp, ret):
    return ret['err'] == '' and ret['quantity'] and ret['close'] and Fraction(*ret['val']) == Fraction(*exp['val'])


# ----------------------------------------------------------------------------------------------
# S7 decode_mixed
# ----------------------------------------------------------------------------------------------
class _Token:
    pass


class _Custom:
    """An object with a decode() method of its own."""
    def __init__(self, payload):
        self.payload = payload
        self.token = _Token()
        self.calls = 0

    def decode(self):
        self.calls += 1
        return self.token


def make_object(kind, b):
    raw = bytes(b)
    text = raw.decode('latin-1')
    if kind == 'bytes':
        return raw
    if kind == 'np.bytes_':
        return np.bytes_(raw)
    if kind == 'bytearray':
        return bytearray(raw)
    if kind == 'custom':
        return _Custom(raw)
    if kind == 'str':
        return text
    if kind == 'np.str_':
        return np.str_(text)
    if kind == 'int':
        return 1000 + len(raw)
    if kind == 'float':
        return 0.5 + len(raw)
    if kind == 'none':
        return None
    if kind == 'bool':
        return len(raw) % 2 == 0
    if kind == 'list':
        return [raw, 1, text]
    if kind == 'tuple':
        return (raw, text)
    if kind == 'dict':
        return {b'k': raw, 'decode': text}
    if kind == 'memoryview':
        return memoryview(raw)
    if kind == 'ndarray_S':
        return np.array([raw or b'x', b'yz'])
    if kind == 'ndarray_U':
        return np.array([text or 'x', 'yz'])
    if kind == 'ndarray_i':
        return np.array(list(raw) or [0], dtype=np.int32)
    if kind == 'ndarray_O':
        return np.array([raw, None, text], dtype=object)
    if kind == 'ndarray_S0d':
        return np.array(raw or b'q')
    raise core.MachineryError('unknown kind ' + kind)


def _same_content(kind, x, keep):
    if kind == 'custom':
        return x.payload == keep
    if kind == 'memoryview':
        return bytes(x) == keep
    if isinstance(x, np.ndarray):
        return x.dtype == keep.dtype and x.shape == keep.shape and np.array_equal(x, keep)
    return type(x) is type(keep) and x == keep


def call_decode(kind, b):
    from pydl.pydlutils.misc import decode_mixed
    x = make_object(kind, b)
    keep = bytes(b) if kind in ('custom', 'memoryview') else copy.deepcopy(x)
    ret = {'out': 'other', 'cps': [], 'unchanged': True, 'raw': ''}
    try:
        res = decode_mixed(x)
    except UnicodeDecodeError:
        ret['out'] = 'raise'
        res = None
    except Exception as ex:
        ret['out'] = 'other'
        ret['raw'] = 'raised ' + type(ex).__name__
        res = None
    else:
        ret['raw'] = repr(res)[:60]
        if kind == 'custom' and res is x.token and x.calls == 1:
            ret['out'] = 'token'
        elif res is x:
            ret['out'] = 'same'
        elif type(res) is str:
            ret['out'] = 'str'
            ret['cps'] = [ord(ch) for ch in res]
    ret['unchanged'] = bool(_same_content(kind, x, keep))
    return ret


def decode_conforms(exp, ret):
    return ret['out'] == exp['out'] and list(ret['cps']) == list(exp['cps']) and ret['unchanged']


# ----------------------------------------------------------------------------------------------
# S8 exception hierarchy
# ----------------------------------------------------------------------------------------------
MODULES = ['pydl', 'pydl.pydlutils', 'pydl.pydlspec2d', 'pydl.photoop', 'astropy.utils.exceptions', 'builtins']


def find_class(name):
    import importlib
    for m in MODULES:
        mod = importlib.import_module(m)
        cls = getattr(mod, name, None)
        if isinstance(cls, type) and cls.__module__ == m:
            return cls, mod
    return None, None


def call_exc(a, b):
    A, moda = find_class(a)
    B, _ = find_class(b)
    ret = {'sub': False, 'caught': False, 'home': '', 'exported': False, 'raw': ''}
    if A is None or B is None:
        ret['raw'] = 'class not found: %s' % (a if A is None else b)
        ret['home'] = 'missing'
        return ret
    ret['home'] = A.__module__
    ret['exported'] = a in getattr(moda, '__all__', [])
    ret['sub'] = bool(issubclass(A, B))
    try:
        try:
            raise A('message %s' % a)
        except B as ex:
            ret['caught'] = type(ex) is A and str(ex) == 'message %s' % a
    except BaseException:
        ret['caught'] = False
    return ret


def exc_conforms(exp, ret):
    return ret['sub'] == exp['sub'] and ret['caught'] == exp['sub'] and ret['home'] == exp['home'] and \
        (ret['exported'] or not exp['exported'])


# ----------------------------------------------------------------------------------------------
# one call of the specification on the real code
# ----------------------------------------------------------------------------------------------
def execute(c, salt=0):
    """Returns (observation, conforms(exp) -> bool, record for Trace_DatesMisc, brief text)."""
    fn = c['fn']
    if fn == 'jd':
        T = time_of(c['t']['q'], c['t']['r'])
        decoy = time_of(c['clock']['q'], c['clock']['r'])
        obs = call_jd(c['ty'], c['via'], T, decoy, salt)
        return obs
    if fn == 'iaumain':
        return call_main(c['argv'])
    if fn == 'decode':
        return call_decode(c['kind'], c['b'])
    if fn == 'exc':
        return call_exc(c['a'], c['b'])
    if fn == 'calibv':
        return call_calibv(c['unit'])
    raise core.MachineryError('unknown fn ' + fn)


def conforms(c, exp, obs):
    fn = c['fn']
    if fn == 'jd':
        return jd_conforms(c['via'], exp, obs)
    if fn == 'iaumain':
        return main_conforms(exp, obs)
    if fn == 'decode':
        return decode_conforms(exp, obs)
    if fn == 'exc':
        return exc_conforms(exp, obs)
    if fn == 'calibv':
        return calib_conforms(exp, obs)
    raise core.MachineryError('unknown fn ' + fn)


def explained_by(c, exp, obs):
    """The named deviation of the specification (Dev_NarrowFloatArithmetic, decided by TLC: exp.dev) that yields
    exactly the observed outcome."""
    if c['fn'] == 'jd' and exp.get('dev') and not obs['err'] and narrow_close(c['ty'], obs, exact_date(exp)):
        return 'D-X04-1'
    return None


def describe(c):
    fn = c['fn']
    if fn == 'jd':
        T = time_of(c['t']['q'], c['t']['r'])
        how = {'pos': 'get_juldate(%s)', 'kw': 'get_juldate(seconds=%s)', 'clock': 'get_juldate() with the clock at %s',
               'clockNone': 'get_juldate(None) with the clock at %s', 'mjd': 'current_mjd() with the clock at %s',
               'main': 'get_juldate_main() with the clock at %s'}[c['via']]
        arg = '%s(%s)' % (c['ty'], float(T) if T.denominator != 1 else int(T)) if c['via'] in ('pos', 'kw') else repr(float(T))
        return how % arg
    if fn == 'iaumain':
        return 'hogg_iau_name_main() with sys.argv = %r' % ([''.join(a) for a in c['argv']],)
    if fn == 'decode':
        return 'decode_mixed(<%s built from bytes %r>)' % (c['kind'], bytes(c['b']))
    if fn == 'exc':
        return 'issubclass(%s, %s) / raise %s, except %s' % (c['a'], c['b'], c['a'], c['b'])
    if fn == 'calibv':
        return 'sdss_calibv().to(%s)' % c['unit']
    return json.dumps(c, sort_keys=True)[:200]


def brief_exp(c, exp):
    fn = c['fn']
    if fn == 'jd':
        return '%s (%s) as a float' % (float(exact_date(exp)), exact_date(exp))
    if fn == 'iaumain':
        return {'name': 'prints %r, returns 0' % (''.join(exp['line']),), 'reject': 'no name on stdout, status not 0',
                'help': 'usage on stdout, exit status 0', 'open': 'nothing (open)'}[exp['out']]
    if fn == 'decode':
        return {'str': 'the str %r' % ''.join(chr(x) for x in exp['cps']), 'raise': 'UnicodeDecodeError',
                'same': 'the same object, unchanged', 'token': "the result of the object's decode()"}[exp['out']]
    if fn == 'exc':
        return 'subclass: %s, defined in %s' % (exp['sub'], exp['home'])
    return '%s/%s' % tuple(exp['val'])


def brief_obs(c, obs):
    fn = c['fn']
    if fn == 'jd':
        return obs['err'] or '%s %s' % (obs['rtype'], obs['raw'])
    if fn == 'iaumain':
        return '%s %s stdout=%r %s' % (obs['status'], obs['code'], obs['stdout'][:80], obs['exc'])
    if fn == 'decode':
        return '%s %s%s' % (obs['out'], obs['raw'], '' if obs['unchanged'] else ' (argument modified)')
    if fn == 'exc':
        return 'subclass: %s, caught: %s, defined in %s, exported: %s %s' % (obs['sub'], obs['caught'], obs['home'],
                                                                             obs['exported'], obs['raw'])
    return obs['err'] or '%s close=%s quantity=%s %s' % (obs['val'], obs['close'], obs['quantity'], obs['raw'])


def record_of(c, obs):
    """The observation as a record for Trace_DatesMisc."""
    fn = c['fn']
    if fn == 'jd':
        via = c['via']
        return jd_record(c['t']['q'], c['t']['r'], c['ty'], via, obs, lambda v: tolerance(via, v))
    if fn == 'iaumain':
        return main_record(c['argv'], obs)
    if fn == 'decode':
        return {'fn': 'decode', 'kind': c['kind'], 'b': list(c['b']),
                'ret': {'out': obs['out'], 'cps': obs['cps'], 'unchanged': obs['unchanged']}}
    if fn == 'exc':
        return {'fn': 'exc', 'a': c['a'], 'b': c['b'],
                'ret': {k: obs[k] for k in ('sub', 'caught', 'home', 'exported')}}
    if fn == 'calibv':
        return {'fn': 'calibv', 'unit': c['unit'], 'ret': {k: obs[k] for k in ('err', 'quantity', 'close', 'val')}}
    raise core.MachineryError('unknown fn ' + fn)


def nontrivial_key(c, exp):
    fn = c['fn']
    if fn == 'jd':
        return ('jd', c['t']['q'], tuple(c['t']['r']), c['ty'], c['via'])
    if fn == 'iaumain':
        return None if exp['out'] == 'open' else ('iaumain', tuple(''.join(a) for a in c['argv']))
    if fn == 'decode':
        return ('decode', c['kind'], tuple(c['b']))
    if fn == 'exc':
        return ('exc', c['a'], c['b']) if c['a'] != c['b'] else None
    return ('calibv', c['unit'])


# ----------------------------------------------------------------------------------------------
# code -> spec: seeded random calls
# ----------------------------------------------------------------------------------------------
TYPES = ['int', 'float', 'np.int32', 'np.int64', 'np.float64', 'np.float32', 'np.float16', 'array0d']
CLASSES = ['PydlException', 'PydlutilsException', 'Pydlspec2dException', 'PhotoopException', 'PydlutilsUserWarning',
           'Pydlspec2dUserWarning', 'BaseException', 'Exception', 'Warning', 'UserWarning', 'AstropyWarning',
           'AstropyUserWarning']
KINDS = ['bytes', 'np.bytes_', 'bytearray', 'custom', 'str', 'np.str_', 'int', 'float', 'none', 'bool', 'list', 'tuple',
         'dict', 'memoryview', 'ndarray_S', 'ndarray_U', 'ndarray_i', 'ndarray_O', 'ndarray_S0d']
UNITS = ['deg/d', 'arcsec/s', 'arcsec/d', 'deg/h', 'arcmin/h']
DECOY = {'q': 23148, 'r': [6400, 1]}


def gen_time(rng):
    p = rng.random()
    if p < 0.25:
        q = rng.randint(-4, 4)
    elif p < 0.6:
        q = rng.randint(41000, 42500)                # the 2020s
    elif p < 0.8:
        q = rng.randint(-49000, 49000)
    elif p < 0.9:
        q = rng.randint(-380, 380)
    else:
        q = rng.choice([-1, 1]) * rng.randint(49001, 2**30)
    d = rng.choice([1, 1, 1, 2, 4, 8, 64])
    p = rng.random()
    if p < 0.3:
        n = rng.choice([0, 1, -1, HALF - 1, HALF, 2 * HALF - 1, 2 * HALF, -HALF]) * d + rng.choice([0, 0, 1, -1]) * (d > 1)
    elif p < 0.85:
        n = rng.randint(0, HALF * d - 1)
    else:
        n = rng.randint(-2**22, 2**22)
    g = math.gcd(n, d)
    return q, [n // g, d // g]


def gen_jd(rng):
    for _ in range(100):
        q, r = gen_time(rng)
        via = rng.choices(['pos', 'kw', 'clock', 'clockNone', 'mjd', 'main'], weights=[40, 15, 12, 8, 15, 10])[0]
        ty = rng.choice(TYPES) if via in ('pos', 'kw') else 'float'
        if rng.random() < 0.25 and via in ('pos', 'kw'):
            q, ty = (rng.randint(-380, 380), 'np.float32') if rng.random() < 0.8 else (0, 'np.float16')
            if ty == 'np.float16':
                r = [rng.randint(-2047, 2047), 1]
        if fits(ty, q, r):
            return {'fn': 'jd', 't': {'q': q, 'r': r}, 'ty': ty, 'via': via, 'clock': DECOY if via in ('pos', 'kw') else {'q': q, 'r': r}}
    raise core.MachineryError('no Julian-date case drawn')


def gen_decimal(rng, lo, hi, neg_ok):
    ip = rng.randint(lo, hi)
    nd = rng.choice([0, 2, 3, 4, 4, 4, 5, 5, 5, 5, 5, 6])
    fr = rng.randint(0, 10**nd - 1) if nd else 0
    if nd and fr % 5 == 0 and rng.random() < 0.9:
        fr = min(10**nd - 1, fr + rng.choice([1, 2]))
    neg = neg_ok and rng.random() < 0.5
    form = rng.choice(['plain', 'plain', 'plus', 'pad', 'trail', 'noint'])
    sign = '-' if neg else ('+' if form == 'plus' else '')
    ipart = '' if (form == 'noint' and ip == 0 and nd) else (('0' if form == 'pad' else '') + str(ip))
    fpart = ('.' + str(fr).zfill(nd) + ('00' if form == 'trail' else '')) if nd else ''
    return sign + ipart + fpart


def gen_main(rng):
    ra = gen_decimal(rng, 0, 359, False) if rng.random() < 0.95 else gen_decimal(rng, 360, 400, True)
    dec = gen_decimal(rng, 0, 89, True)
    opts = []
    if rng.random() < 0.6:
        val = str(rng.choice([0, 0, 1, 1, 1, 2, 2, 2, 2, 3])) if rng.random() < 0.93 else rng.choice(['x', '1.5', '', '02', '+1', '-1'])
        how = rng.choice(['short', 'glued', 'long', 'eq'])
        opts.append({'short': ['-P', val], 'glued': ['-P' + val], 'long': ['--precision', val], 'eq': ['--precision=' + val]}[how])
    if rng.random() < 0.6:
        val = rng.choice(['SDSS', '', '2MASS', 'X y', 'J', 'a=b', 'SDSS-IV', '-X', 'BOSS '])
        how = rng.choice(['short', 'glued', 'long', 'eq'])
        opts.append({'short': ['-p', val], 'glued': ['-p' + val], 'long': ['--prefix', val], 'eq': ['--prefix=' + val]}[how])
    if rng.random() < 0.1:
        opts.append(rng.choice([['-P', '2'], ['--prefix', 'Q'], ['-x'], ['--frob'], ['-h'], ['--help'], ['--prec', '2'], ['-q', '1']]))
    rng.shuffle(opts)
    pos = [ra, dec]
    p = rng.random()
    if p < 0.05:
        pos = pos[:1]
    elif p < 0.08:
        pos = pos + [gen_decimal(rng, 0, 9, True)]
    elif p < 0.12:
        pos[rng.randrange(2)] = rng.choice(['abc', '12h30m', '1,5', '10:30:00', 'x'])
    layout = rng.randrange(4)
    flat = [tok for o in opts for tok in o]
    if layout == 0:
        argv = flat + pos
    elif layout == 1:
        argv = pos + flat
    elif layout == 2:
        argv = flat + ['--'] + pos
    else:
        k = rng.randint(0, len(opts))
        argv = [tok for o in opts[:k] for tok in o] + pos[:1] + [tok for o in opts[k:] for tok in o] + pos[1:]
    return {'fn': 'iaumain', 'argv': [list('hogg_iau_name')] + [list(a) for a in argv]}


def gen_decode(rng):
    kind = rng.choice(KINDS[:3] * 4 + KINDS)
    p = rng.random()
    if p < 0.5:
        cps = [rng.choice([rng.randint(0, 127), rng.randint(128, 2047), rng.randint(2048, 65535), rng.randint(65536, 1114111)])
               for _ in range(rng.randint(0, 3))]
        cps = [cp for cp in cps if not 0xD800 <= cp <= 0xDFFF]
        b = list(''.join(chr(cp) for cp in cps).encode('utf-8'))
        if rng.random() < 0.4 and b:
            k = rng.randrange(len(b))
            b = rng.choice([b[:k] + b[k + 1:], b[:k] + [rng.choice([0x80, 0xBF, 0xC0, 0xED, 0xF4, 0xFF, 0x41])] + b[k + 1:], b[:k]])
    else:
        b = [rng.choice([0, 65, 127, 128, 143, 144, 159, 160, 191, 192, 193, 194, 223, 224, 237, 239, 240, 244, 245, 255])
             for _ in range(rng.randint(0, 5))]
    return {'fn': 'decode', 'kind': kind, 'b': b[:8]}


def gen_call(rng):
    fn = rng.choices(['jd', 'iaumain', 'decode', 'exc', 'calibv'], weights=[40, 30, 22, 6, 2])[0]
    if fn == 'jd':
        return gen_jd(rng)
    if fn == 'iaumain':
        return gen_main(rng)
    if fn == 'decode':
        return gen_decode(rng)
    if fn == 'exc':
        return {'fn': 'exc', 'a': rng.choice(CLASSES), 'b': rng.choice(CLASSES)}
    return {'fn': 'calibv', 'unit': rng.choice(UNITS)}


# ----------------------------------------------------------------------------------------------
MAX_LISTED = 40
_seen = {}


def _listed(ctx, fn, dev_id):
    """At most MAX_LISTED failing cases per (function, explaining deviation) become replay files; the rest are counted."""
    k = (fn, dev_id)
    _seen[k] = _seen.get(k, 0) + 1
    if _seen[k] <= MAX_LISTED:
        return True
    ctx.cov['parts']['failing_cases_not_listed'] = ctx.cov['parts'].get('failing_cases_not_listed', 0) + 1
    return False


def _public(obs):
    return {k: (str(v) if isinstance(v, Fraction) else v) for k, v in obs.items() if k not in ('stderr',)}


def run(ctx):
    ctx.level = 'model_checking'
    ctx.rule = ('every non-seed state of MC_DatesMisc is one call (Julian date of a time of a given type asked in a given '
                'way, a hogg_iau_name command line, decode_mixed of an object, a pair of exception classes, sdss_calibv in '
                'a unit) with its specified outcome; non-trivial = distinct calls whose outcome is specified (not "open"); '
                'recorded calls = seeded random/adversarial calls judged by Trace_DatesMisc')
    ctx.assumptions = [
        'a float result is compared with the exact rational date with a tolerance of %d ulp of the Julian date '
        '(about 160 microseconds today; in the recorded direction widened outward by at most 2^-20 s); the date printed by '
        'get_juldate_main within 10^-6 day' % ULPS,
        'the clock is frozen by replacing time.time and the name `time` of pydl.goddard.astro for the duration of one call',
        'times are 43200 * q + n / d seconds with |q| <= 2^30 (1.4 million years), d a power of two <= 64, each held exactly '
        'by the type it is passed in; larger values are not exercised (32-bit integers of TLC)',
        'hogg_iau_name command lines: decimal numbers of at most 3 + 6 digits, precision 0..2; coordinates exactly on a '
        'boundary of the last printed digit, out-of-range coordinates, exponent notation, option abbreviations and -P=N '
        'are executed but not judged (spec outcome "open")',
        'decode_mixed: byte strings up to length 3 (4 for the four-byte forms) over the boundary byte values of UTF-8; an '
        'object whose decode() raises AttributeError is not exercised (left open)']
    cfg = 'MC_DatesMisc_quick.cfg' if ctx.quick else 'MC_DatesMisc_thorough.cfg'
    r = ctx.tlc('MC_DatesMisc.tla', cfg, dump=True, timeout=1500)
    n = 0
    nopen = 0
    for st in states_of(r):
        c, exp = st['c'], st['exp']
        if c['fn'] in SEEDS:
            continue
        n += 1
        obs = execute(c, salt=n)
        ctx.evaluated(1, c['fn'])
        ctx.validated()
        if c['fn'] == 'iaumain' and exp['out'] == 'open':
            nopen += 1
        key = nontrivial_key(c, exp)
        if key is not None:
            ctx.nontriv(key)
        if n % 1499 == 1:
            ctx.sample({'call': describe(c), 'expected': brief_exp(c, exp), 'observed': brief_obs(c, obs)})
        if not conforms(c, exp, obs):
            dev = explained_by(c, exp, obs)
            if _listed(ctx, c['fn'], dev):
                ctx.violation({'what': '%s: specified %s, observed %s' % (describe(c)[:300], brief_exp(c, exp), brief_obs(c, obs)),
                               'call': c, 'expected': exp, 'observed': _public(obs), 'salt': n}, finding=dev)
    ctx.cov['parts']['open_outcomes_not_judged'] = nopen
    if n == 0:
        raise core.MachineryError('MC_DatesMisc produced no call')

    # ---- code -> spec ---------------------------------------------------------------------------
    rng = random.Random(ctx.seed)
    nrec = 1500 if ctx.quick else 12000
    calls = [gen_call(rng) for _ in range(nrec)]
    recs = []
    for k, c in enumerate(calls):
        obs = execute(c, salt=k)
        recs.append(record_of(c, obs))
    bad = core.validate_records(ctx, 'Trace_DatesMisc', recs, chunk=3000)
    ctx.evaluated(nrec, 'recorded')
    ctx.validated(nrec)
    for c in calls:
        ctx.nontriv(('rec', json.dumps(c, sort_keys=True)))
    for k in sorted(bad):
        why = bad[k]
        if why.startswith('harness:'):
            raise core.MachineryError('record %d: %s' % (k, why))
        m = re.match(r'(D-X04-\d+): ', why)
        dev = m.group(1) if m else None
        if not _listed(ctx, calls[k]['fn'], dev):
            continue
        ctx.violation({'what': 'recorded call rejected by Trace_DatesMisc (%s): %s observed %s' % (
                           why, describe(calls[k])[:300], json.dumps(recs[k]['ret'])[:200]),
                       'call': calls[k], 'record': recs[k], 'why': why, 'salt': k}, finding=dev)
    ctx.sample({'recorded_call': recs[0]})
    ctx.exhaustive = not ctx.quick


def replay(ctx, case):
    """bin/check X04 --replay <file>: re-execute the single failing call of a replay file; the expected outcome in
    the file came from TLC (state dump) - recorded calls without one are judged again by Trace_DatesMisc."""
    ctx.level = 'model_checking'
    ctx.rule = 'single replayed case'
    c = case['call']
    obs = execute(c, salt=case.get('salt', 0))
    ctx.evaluated(1)
    ctx.validated()
    ctx.nontriv('a')
    ctx.nontriv('b')
    print('replayed call:', describe(c), '\nobserved:', brief_obs(c, obs))
    if 'expected' in case:
        exp = case['expected']
        print('expected:', brief_exp(c, exp))
        if not conforms(c, exp, obs):
            ctx.violation(case, finding=explained_by(c, exp, obs))
    else:
        bad = core.validate_records(ctx, 'Trace_DatesMisc', [record_of(c, obs)])
        if bad:
            m = re.match(r'(D-X04-\d+): ', bad[0])
            print('Trace_DatesMisc:', bad[0])
            ctx.violation(case, finding=m.group(1) if m else None)
