"""X05 - imaging window files: window_read, the balkans table, window_score, sdss_score (pydl.photoop.window).

Spec: spec/Window.tla (statements R1-R4, B1-B2, W1-W2, S0-S5 in its header); MC: mc/MC_Window; Trace: trace/Trace_Window.

spec -> code: every case state of MC_Window (kind row / read / wscore / balkans) carries the outcome exp the
  specification demands.  Rows are materialised as a window_flist.fits plus a tree of fpFieldStat / tsField / psField
  files under $PHOTO_REDUX and scored by the real sdss_score, many rows per call; file-level cases become a scratch
  $PHOTO_RESOLVE directory and environment variables and run the real window_read / window_score with the module's
  Table.read / fits.open observed; balkans cases become window_blist / window_bcaps files read by the real
  window_read(balkans=True) and probed with is_in_polygon.  The abstracted observation is compared with exp.
code -> spec: seeded random rows (any bits in any band, any PSP status, missing files anywhere in the call),
  random worlds / keyword sets, random cap tables are executed first and the recorded observations are judged by TLC
  with the same operators (Trace_Window).  Every observation that differs from exp in the first direction is judged by
  Trace_Window too: TLC names the deviation (Dev_* of the spec) that explains it exactly, if one does.
Python only concretises (rationals -> floats, bit names -> bits through a generated sdssMaskbits file, cases -> FITS
files) and abstracts (floats -> integers in units of 10^-d, small rationals); every expected value is TLC's.
"""
import contextlib
import hashlib
import json
import os
import random
import re
import shutil
import time
import traceback
import warnings
from fractions import Fraction

import numpy as np

from .. import core, faults

FINDINGS = {
    'D-X05-1': 'sdss_score calls np.find (no such function): AttributeError for every flist',
    'D-X05-2': 'sdss_score: signed IMAGE_STATUS & numpy.uint64 mask raises TypeError',
    'D-X05-3': 'sdss_score: a row without psField raises UnboundLocalError (first row) or silently gets the previous row\'s psField values',
    'D-X05-4': 'sdss_score: IDL minimum operator < ported as a comparison; scores 1.1 / 1.6 and inverted seeing ranking',
    'D-X05-5': 'window_read(balkans=True): unused XCAPS/CMCAPS slots are uninitialised memory, not zeros',
}
MAX_LISTED = 12

STD_BITS = {'CLEAR': 0, 'CLOUDY': 1, 'UNKNOWN': 2, 'BAD_ROTATOR': 3, 'BAD_ASTROM': 4, 'BAD_FOCUS': 5, 'SHUTTERS': 6,
            'FF_PETALS': 7, 'DEAD_CCD': 8, 'NOISY_CCD': 9}
ALT_BITS = {'CLEAR': 4, 'CLOUDY': 9, 'UNKNOWN': 0, 'BAD_ROTATOR': 7, 'BAD_ASTROM': 1, 'BAD_FOCUS': 8, 'SHUTTERS': 2,
            'FF_PETALS': 5, 'DEAD_CCD': 3, 'NOISY_CCD': 6}
BIT_TABLES = {'std': STD_BITS, 'alt': ALT_BITS}
DESCR = {'CLEAR': 'Clear skies', 'CLOUDY': 'Cloudy skies (unphotometric)', 'UNKNOWN': 'Sky conditions unknown (unphotometric)',
         'BAD_ROTATOR': 'Rotator problems (set score=0)', 'BAD_ASTROM': 'Astrometry problems (set score=0)',
         'BAD_FOCUS': 'Focus bad (set score=0)', 'SHUTTERS': 'Shutter out of place (set score=0)',
         'FF_PETALS': 'Flat-field petals out of place (unphotometric)', 'DEAD_CCD': 'CCD bad (unphotometric)',
         'NOISY_CCD': 'CCD noisy (unphotometric)'}
FILE_OF = {'flist': 'window_flist.fits', 'rescore': 'window_flist_rescore.fits', 'blist': 'window_blist.fits',
           'bcaps': 'window_bcaps.fits', 'findx': 'window_findx.fits', 'bindx': 'window_bindx.fits'}
NAME_OF = {v: k for k, v in FILE_OF.items()}
ORIG, STALE = 77.0, 55.0           # spec: OrigScore, StaleScore (checked against TLC states)
NO_PS = {'has': False, 'st': [0] * 5, 'w': [[0, 1]] * 5, 'sky': [[0, 1]] * 5, 'sroot': [0, 1]}

# column formats of window_flist.fits: the real file, a wide variant, one with an unsigned IMAGE_STATUS
LAYOUTS = {
    'real': {'RUN': 'J', 'CAMCOL': 'I', 'FIELD': 'J', 'XBIN': 'I', 'YBIN': 'I', 'SUN_ANGLE': 'E', 'IMAGE_STATUS': '5J',
             'PHOTO_STATUS': 'J', 'PSP_STATUS': '5J', 'PSF_FWHM': '5E', 'SKYFLUX': '5E', 'SCORE': 'E', 'unsigned': False},
    'wide': {'RUN': 'K', 'CAMCOL': 'B', 'FIELD': 'I', 'XBIN': 'J', 'YBIN': 'J', 'SUN_ANGLE': 'D', 'IMAGE_STATUS': '5K',
             'PHOTO_STATUS': 'I', 'PSP_STATUS': '5K', 'PSF_FWHM': '5D', 'SKYFLUX': '5D', 'SCORE': 'D', 'unsigned': False},
    'unsigned': {'RUN': 'J', 'CAMCOL': 'I', 'FIELD': 'J', 'XBIN': 'I', 'YBIN': 'I', 'SUN_ANGLE': 'E', 'IMAGE_STATUS': '5J',
                 'PHOTO_STATUS': 'J', 'PSP_STATUS': '5J', 'PSF_FWHM': '5E', 'SKYFLUX': '5E', 'SCORE': 'E', 'unsigned': True},
}
NPTYPE = {'J': np.int32, 'I': np.int16, 'K': np.int64, 'B': np.uint8, 'E': np.float32, 'D': np.float64}


def J(v):
    """TLC value (as parsed by tlaval) -> JSON-able: tuples -> lists, sets -> sorted lists."""
    if isinstance(v, (tuple, list)):
        return [J(x) for x in v]
    if isinstance(v, (set, frozenset)):
        return sorted((J(x) for x in v), key=repr)
    if isinstance(v, dict):
        return {str(k): J(x) for k, x in v.items()}
    return v


def rat(q):
    return Fraction(int(q[0]), int(q[1]))


def flt(q):
    return float(rat(q))


@contextlib.contextmanager
def environ(**kv):
    """Set (value str) or unset (value None) environment variables for the duration of one call; always restored."""
    saved = {k: os.environ.get(k) for k in kv}
    try:
        for k, v in kv.items():
            if v is None:
                os.environ.pop(k, None)
            else:
                os.environ[k] = v
        yield
    finally:
        for k, v in saved.items():
            if v is None:
                os.environ.pop(k, None)
            else:
                os.environ[k] = v


# ---------------------------------------------------------------------------------------------------
# the world: maskbits tables, the $PHOTO_REDUX tree, window files
# ---------------------------------------------------------------------------------------------------
class World:
    def __init__(self, scratch):
        from astropy.io import fits
        self.fits = fits
        self.root = os.path.join(scratch, 'x05')
        self.redux = os.path.join(self.root, 'redux')
        self.tmpl = os.path.join(self.root, 'templates')
        os.makedirs(self.redux)
        os.makedirs(self.tmpl)
        self.templates = {}
        self.nplaced = 0
        self.ndirs = 0
        self.made = set()
        self.table = None
        self.parfiles = {}
        self.rowlists = {}

    # ---- bit names -> bits, through a real sdssMaskbits-style file and set_maskbits
    def install_table(self, name):
        import pydl.pydlutils.sdss as S
        if self.table == name:
            return
        if name not in self.parfiles:
            lines = ['#', '# generated by the X05 check', '#', 'typedef struct {', '    char flag[20]; # Flag name',
                     '    short bit; # Bit number, 0-indexed', '    char label[30]; # Bit label',
                     '    char description[100]; # text description', '} maskbits;', '',
                     'maskbits TARGET 0 QSO_HIZ "High-redshift (griz) QSO target"',
                     'maskbits TARGET 6 GALAXY "Main sample galaxy"']
            for label, bit in sorted(BIT_TABLES[name].items(), key=lambda kv: kv[1]):
                lines.append('maskbits IMAGE_STATUS %d %s "%s"' % (bit, label, DESCR[label]))
            lines.append('maskbits CALIB_STATUS 0 PHOTOMETRIC "Photometric observations"')
            path = os.path.join(self.root, 'sdssMaskbits_%s.par' % name)
            with open(path, 'w') as fh:
                fh.write('\n'.join(lines) + '\n')
            self.parfiles[name] = S.set_maskbits(maskbits_file=path)
        S.maskbits = self.parfiles[name]
        self.table = name

    def img_value(self, names, table):
        v = 0
        for n in names:
            v |= 1 << (int(n[3:]) if n.startswith('BIT') else BIT_TABLES[table][n])
        return v

    # ---- files of the reductions: one template per distinct content, hard-linked to every row that has it
    def _table_file(self, path, cols, nprefix=0):
        fits = self.fits
        hdus = [fits.PrimaryHDU()]
        for k in range(nprefix):
            hdus.append(fits.BinTableHDU.from_columns([fits.Column(name='dummy%d' % k, format='J',
                                                                   array=np.zeros(2, dtype=np.int32))]))
        hdus.append(fits.BinTableHDU.from_columns(cols))
        fits.HDUList(hdus).writeto(path, overwrite=True)

    def template(self, kind, key):
        k = (kind, json.dumps(key, sort_keys=True))
        if k in self.templates:
            return self.templates[k]
        fits = self.fits
        path = os.path.join(self.tmpl, '%s_%d.fit' % (kind, len(self.templates)))
        n = len(self.templates)
        if kind == 'fp':
            fmt = 'J' if n % 2 else 'I'
            cols = [fits.Column(name='status', format=fmt, array=np.array([key], dtype=NPTYPE[fmt])),
                    fits.Column(name='nobjects', format='J', array=np.array([321], dtype=np.int32))]
            self._table_file(path, cols)
        elif kind == 'ts':
            cols = [fits.Column(name='field', format='J', array=np.array([11], dtype=np.int32)),
                    fits.Column(name='frames_status', format='J', array=np.array([key], dtype=np.int32))]
            self._table_file(path, cols)
        else:
            st, w, sky = key
            ffmt = 'D' if n % 3 == 0 else 'E'
            cols = [fits.Column(name='psp_status', format='J', array=np.array([98], dtype=np.int32)),
                    fits.Column(name='status', format='5J', array=np.array([st], dtype=np.int32)),
                    fits.Column(name='psf_width', format='5' + ffmt, array=np.array([[flt(q) for q in w]], dtype=NPTYPE[ffmt])),
                    fits.Column(name='sky', format='5' + ffmt, array=np.array([[flt(q) for q in sky]], dtype=NPTYPE[ffmt])),
                    fits.Column(name='skyerr', format='5E', array=np.full((1, 5), 0.25, dtype=np.float32))]
            self._table_file(path, cols, nprefix=5)
        self.templates[k] = path
        return path

    def _link(self, src, directory, name):
        if directory not in self.made:
            os.makedirs(directory, exist_ok=True)
            self.made.add(directory)
        dst = os.path.join(directory, name)
        os.link(src, dst)

    def place(self, row):
        """A fresh (run, rerun, camcol, field) whose reduction files are exactly those of the row case."""
        n = self.nplaced
        self.nplaced += 1
        field = n % 3000 + (1 if n % 2 else 1001)
        camcol = (n // 3000) % 6 + 1
        run = (94, 125, 1000, 3366, 7777, 211, 756, 8162)[(n // 18000) % 8]
        rerun = ('301', '137', '40')[n % 3]
        objcs = os.path.join(self.redux, rerun, str(run), 'objcs', str(camcol))
        if row['fp']['has']:
            self._link(self.template('fp', row['fp']['status']), objcs, 'fpFieldStat-%06d-%d-%04d.fit' % (run, camcol, field))
        if row['ts']['has']:
            self._link(self.template('ts', row['ts']['status']), os.path.join(self.redux, rerun, str(run), 'calibChunks', str(camcol)),
                       'tsField-%06d-%d-%s-%04d.fit' % (run, camcol, rerun, field))
        if row['ps']['has']:
            ps = row['ps']
            self._link(self.template('ps', [list(ps['st']), ps['w'], ps['sky']]), objcs,
                       'psField-%06d-%d-%04d.fit' % (run, camcol, field))
        return {'run': run, 'rerun': rerun, 'camcol': camcol, 'field': field}

    def write_flist(self, path, rows, idents, layout='real', table='std', fill=ORIG):
        fits = self.fits
        L = LAYOUTS[layout]
        n = len(rows)

        def col(name, values, width=0):
            fmt = L[name]
            t = NPTYPE[fmt[-1]]
            return fits.Column(name=name, format=fmt, array=np.array(values, dtype=t).reshape((n, width) if width else (n,)))
        img = [[self.img_value(s, table) for s in r['img']] for r in rows]
        if L['unsigned']:
            imgcol = fits.Column(name='IMAGE_STATUS', format='5J', bzero=2 ** 31,
                                 array=np.array(img, dtype=np.uint32).reshape((n, 5)))
        else:
            imgcol = col('IMAGE_STATUS', img, 5)
        cols = [col('RUN', [i['run'] for i in idents]),
                fits.Column(name='RERUN', format='3A', array=np.array([i['rerun'] for i in idents])),
                col('CAMCOL', [i['camcol'] for i in idents]), col('FIELD', [i['field'] for i in idents]),
                fits.Column(name='MJD', format='J', array=np.full(n, 51075, dtype=np.int32)),
                col('XBIN', [r['xbin'] for r in rows]), col('YBIN', [r['ybin'] for r in rows]),
                col('SUN_ANGLE', [flt(r['sun']) for r in rows]), imgcol,
                col('PHOTO_STATUS', [76] * n), col('PSP_STATUS', [[76] * 5] * n, 5),
                col('PSF_FWHM', [[76.0] * 5] * n, 5), col('SKYFLUX', [[76.0] * 5] * n, 5), col('SCORE', [fill] * n)]
        fits.HDUList([fits.PrimaryHDU(), fits.BinTableHDU.from_columns(cols)]).writeto(path, overwrite=True)

    def fresh_dir(self, prefix):
        self.ndirs += 1
        d = os.path.join(self.root, '%s%06d' % (prefix, self.ndirs))
        os.makedirs(d)
        return d

    # ---- a window_flist.fits (fresh and stale-rescore form) per list of rows, built once and copied into each case
    def rowlist(self, rows):
        key = json.dumps(rows, sort_keys=True)
        if key not in self.rowlists:
            d = self.fresh_dir('rowlist')
            idents = [self.place(r) for r in rows]
            layout = ('real', 'wide', 'unsigned')[len(self.rowlists) % 3]
            orig = os.path.join(d, 'orig.fits')
            stale = os.path.join(d, 'stale.fits')
            self.write_flist(orig, rows, idents, layout=layout, fill=ORIG)
            self.write_flist(stale, rows, idents, layout=layout, fill=STALE)
            self.rowlists[key] = {'orig': orig, 'stale': stale, 'layout': layout}
        return self.rowlists[key]

    def small_tables(self, d, names):
        """Copies of the (fixed) small blist / bcaps / findx / bindx tables into the directory d."""
        for name in names:
            src = os.path.join(self.tmpl, FILE_OF[name])
            if not os.path.exists(src):
                self._small_table(name, src)
            shutil.copyfile(src, os.path.join(d, FILE_OF[name]))

    def _small_table(self, name, path):
        fits = self.fits
        if name == 'blist':
            write_blist(fits, path, [{'iprimary': 5, 'ibindx': 2, 'ncaps': 2, 'icap': 0, 'weight': 1, 'str': 1},
                                     {'iprimary': 9, 'ibindx': 3, 'ncaps': 1, 'icap': 2, 'weight': 1, 'str': 2}], 0)
        elif name == 'bcaps':
            write_bcaps(fits, path, [{'x': [[1, 1], [0, 1], [0, 1]], 'cm': [1, 2]}, {'x': [[0, 1], [1, 1], [0, 1]], 'cm': [1, 1]},
                                     {'x': [[0, 1], [0, 1], [-1, 1]], 'cm': [3, 2]}], 0)
        else:
            cols = [fits.Column(name='IFIELD', format='J', array=np.arange(4, dtype=np.int32) + (3 if name == 'findx' else 30))]
            self._table_file(path, cols)


def write_blist(fits, path, blist, variant):
    it = ('J', 'I', 'K')[variant % 3]
    ft = ('D', 'E')[variant % 2]
    n = len(blist)

    def col(name, key, fmt):
        return fits.Column(name=name, format=fmt, array=np.array([r[key] for r in blist], dtype=NPTYPE[fmt]).reshape((n,)))
    cols = [col('IPRIMARY', 'iprimary', 'J'), col('IBINDX', 'ibindx', it), col('NCAPS', 'ncaps', it), col('ICAP', 'icap', it),
            col('WEIGHT', 'weight', ft), col('STR', 'str', 'D')]
    if variant % 2:
        cols = cols[::-1]
    fits.HDUList([fits.PrimaryHDU(), fits.BinTableHDU.from_columns(cols)]).writeto(path, overwrite=True)


def write_bcaps(fits, path, bcaps, variant):
    ft = ('D', 'E')[(variant // 2) % 2]
    n = len(bcaps)
    cols = [fits.Column(name='X', format='3' + ft, array=np.array([[flt(q) for q in c['x']] for c in bcaps], dtype=NPTYPE[ft]).reshape((n, 3))),
            fits.Column(name='CM', format=ft, array=np.array([flt(c['cm']) for c in bcaps], dtype=NPTYPE[ft]).reshape((n,)))]
    fits.HDUList([fits.PrimaryHDU(), fits.BinTableHDU.from_columns(cols)]).writeto(path, overwrite=True)


# ---------------------------------------------------------------------------------------------------
# sdss_score: one call over a list of rows
# ---------------------------------------------------------------------------------------------------
def _msg_kind(ex):
    s = str(ex)
    if 'find' in s and isinstance(ex, AttributeError):
        return 'find'
    if 'bitwise_and' in s:
        return 'bitwise_and'
    if 'psfield' in s:
        return 'psfield'
    return 'other'


def _in_sdss_score(tb):
    return any(fr.name == 'sdss_score' for fr in traceback.extract_tb(tb))


def exec_rows(world, rows, ign=False, layout='real', table='std'):
    """rows: JSON-form row cases.  Returns (call record for Trace_Window, list of raw per-row observations or None)."""
    import pydl.photoop.window as W
    world.install_table(table)
    d = world.fresh_dir('score')
    idents = [world.place(r) for r in rows]
    path = os.path.join(d, 'window_flist.fits')
    world.write_flist(path, rows, idents, layout=layout, table=table)
    call = {'kind': 'call', 'k': {'nrows': len(rows), 'imgSigned': not LAYOUTS[layout]['unsigned'],
                                  'firstPsMissing': not rows[0]['ps']['has']}, 'raised': '', 'msg': ''}
    obs = None
    with environ(PHOTO_REDUX=world.redux, PHOTO_CALIB=None, PHOTO_RESOLVE=d), warnings.catch_warnings():
        warnings.simplefilter('ignore')
        h = world.fits.open(path)
        try:
            kw = {'ignoreframesstatus': True} if ign else {}
            s = W.sdss_score(h, **kw)
            s = np.asarray(s)
            if s.shape != (len(rows),):
                call['raised'] = 'returned shape %r for %d rows' % (s.shape, len(rows))
            else:
                dat = h[1].data
                obs = [{'photo': int(dat['PHOTO_STATUS'][k]), 'psp': [int(v) for v in dat['PSP_STATUS'][k]],
                        'fwhm': [float(v) for v in dat['PSF_FWHM'][k]], 'sky': [float(v) for v in dat['SKYFLUX'][k]],
                        'score': float(s[k])} for k in range(len(rows))]
        except Exception as ex:
            call['raised'] = type(ex).__name__
            call['msg'] = _msg_kind(ex)
            call['text'] = '%s: %s' % (type(ex).__name__, str(ex)[:160])
        finally:
            h.close()
    shutil.rmtree(d, ignore_errors=True)
    return call, obs


def scaled(v, d):
    return int(round(v * 10 ** d))


def row_record(row, prev, o):
    finite = all(np.isfinite(v) for v in o['fwhm'] + o['sky'] + [o['score']]) and \
        all(abs(v) < 2000 for v in o['fwhm']) and all(abs(v) < 20000 for v in o['sky']) and abs(o['score']) < 200 and \
        all(abs(v) < 2 ** 31 for v in o['psp'] + [o['photo']])
    if finite:
        ob = {'photo': o['photo'], 'psp': o['psp'], 'fwhm': [scaled(v, 6) for v in o['fwhm']],
              'sky': [scaled(v, 5) for v in o['sky']], 'score': scaled(o['score'], 7), 'finite': True}
    else:
        ob = {'photo': 0, 'psp': [0] * 5, 'fwhm': [0] * 5, 'sky': [0] * 5, 'score': 0, 'finite': False}
    return {'kind': 'row', 'c': row, 'prev': prev, 'obs': ob}


def prevs_of(rows):
    out, last = [], NO_PS
    for r in rows:
        out.append(last)
        if r['ps']['has']:
            last = r['ps']
    return out


def _close(v, q, rel, ab):
    return np.isfinite(v) and abs(Fraction(v) - q) <= ab + rel * abs(q)


def row_conforms(exp, o):
    out = exp['out']
    if o['photo'] != out['photo'] or list(o['psp']) != list(out['psp']):
        return False
    if not all(_close(v, rat(q), 2e-7, 1e-9) for v, q in zip(o['fwhm'], out['fwhm'])):
        return False
    if not all(_close(v, rat(q), 3e-7, 1e-9) for v, q in zip(o['sky'], out['sky'])):
        return False
    return (not exp['demanded']) or _close(o['score'], rat(out['score']), 2e-7, 1e-8)


# ---------------------------------------------------------------------------------------------------
# window_read / window_score in a scratch $PHOTO_RESOLVE
# ---------------------------------------------------------------------------------------------------
def _md5(path):
    with open(path, 'rb') as fh:
        return hashlib.md5(fh.read()).hexdigest()


def _score_col(fits, path):
    with fits.open(path) as h:
        return [float(v) for v in h[1].data['SCORE']]


def exec_file_case(world, kind, w, kw=None, rescore=False):
    """One window_read (kind 'read') or window_score (kind 'wscore') call in the world w (JSON form).
    Returns (raw observation, call record or None: the sdss_score call inside, when it raised)."""
    import pydl.photoop.window as W
    from astropy.table import Table
    fits = world.fits
    world.install_table('std')
    rl = world.rowlist(w['rows'])
    d = world.fresh_dir('resolve')
    present = set(w['present'])
    if 'flist' in present:
        shutil.copyfile(rl['orig' if w['cflist'] == 'orig' else 'stale'], os.path.join(d, FILE_OF['flist']))
    if w['crescore'] != 'absent':
        shutil.copyfile(rl['stale'], os.path.join(d, FILE_OF['rescore']))
    world.small_tables(d, sorted(present - {'flist'}))
    before = {f: _md5(os.path.join(d, f)) for f in os.listdir(d)}
    reads, opened = [], []

    def t_read(path, *a, **k):
        reads.append(path)
        return Table.read(path, *a, **k)

    def f_open(path, *a, **k):
        h = fits.open(path, *a, **k)
        if os.path.dirname(os.path.abspath(str(path))) == d:
            opened.append(path)
        return h
    triples = [(W, 'Table', faults.Delegate(Table, read=t_read)), (W, 'fits', faults.Delegate(fits, open=f_open))]
    o = {'err': '', 'keys': [], 'flist': [], 'problem': ''}
    call = None
    with environ(PHOTO_REDUX=world.redux, PHOTO_CALIB='/x05/calib' if w['calib'] else None,
                 PHOTO_RESOLVE=d if w['resolve'] else None, PHOTO_DATA=None), warnings.catch_warnings():
        warnings.simplefilter('ignore')
        env0 = dict(os.environ)
        try:
            with faults.patched(triples):
                if kind == 'read':
                    r = W.window_read(**kw)
                    if not isinstance(r, dict):
                        o['problem'] = 'window_read returned %s' % type(r).__name__
                    else:
                        o['keys'] = sorted(str(k) for k in r)
                        if 'flist' in r:
                            o['flist'] = [float(v) for v in r['flist']['SCORE']]
                        for k in ('blist', 'bcaps', 'findx', 'bindx'):
                            if k in r and len(r[k]) != len(fits.getdata(os.path.join(d, FILE_OF[k]), 1)):
                                o['problem'] = 'r[%r] has %d rows' % (k, len(r[k]))
                        if 'balkans' in r and len(r['balkans']) != 2:
                            o['problem'] = 'balkans has %d rows' % len(r['balkans'])
                else:
                    r = W.window_score(rescore=rescore)
                    if r is not None:
                        o['problem'] = 'window_score returned %r' % (r,)
        except Exception as ex:
            o['err'] = type(ex).__name__
            o['text'] = '%s: %s' % (type(ex).__name__, str(ex)[:160])
            if _in_sdss_score(ex.__traceback__):
                call = {'kind': 'call', 'k': {'nrows': len(w['rows']), 'imgSigned': rl['layout'] != 'unsigned',
                                              'firstPsMissing': not w['rows'][0]['ps']['has']},
                        'raised': type(ex).__name__, 'msg': _msg_kind(ex), 'text': o['text']}
        if dict(os.environ) != env0:
            o['problem'] = 'environment differs after the call'
    o['reads'] = sorted(NAME_OF.get(os.path.basename(str(p)), str(p)) for p in reads
                        if os.path.dirname(os.path.abspath(str(p))) == d) + \
        ['outside:' + str(p) for p in reads if os.path.dirname(os.path.abspath(str(p))) != d]
    o['opened'] = sorted(NAME_OF.get(os.path.basename(str(p)), str(p)) for p in opened)
    after = sorted(os.listdir(d))
    o['after'] = {'present': sorted(NAME_OF.get(f, f) for f in after),
                  'flist': _score_col(fits, os.path.join(d, FILE_OF['flist'])) if FILE_OF['flist'] in after else [],
                  'rescore': _score_col(fits, os.path.join(d, FILE_OF['rescore'])) if FILE_OF['rescore'] in after else []}
    o['changed'] = sorted(NAME_OF.get(f, f) for f in before if f in after and _md5(os.path.join(d, f)) != before[f])
    shutil.rmtree(d, ignore_errors=True)
    return o, call


def _sc7(vals):
    return [scaled(v, 7) if np.isfinite(v) and abs(v) < 200 else -1 for v in vals]


def file_record(kind, w, o, kw=None, rescore=False):
    ob = {'err': o['err'], 'keys': o['keys'], 'reads': o['reads'], 'opened': o['opened'], 'flist': _sc7(o['flist']),
          'after': {'present': o['after']['present'], 'flist': _sc7(o['after']['flist']), 'rescore': _sc7(o['after']['rescore'])}}
    rec = {'kind': kind, 'w': w, 'obs': ob}
    if kind == 'read':
        rec['kw'] = kw
    else:
        rec['rescore'] = rescore
    return rec


def _cols_close(vals, qs):
    return len(vals) == len(qs) and all(_close(v, rat(q), 2e-7, 1e-8) for v, q in zip(vals, qs))


def file_conforms(exp, o, w):
    """The observation is the specified outcome (exp: TLC's WindowRead / WScoreOut value, JSON form)."""
    if o['problem']:
        return False, o['problem']
    if exp['err'] == 'open':
        return True, ''
    if o['err'] != exp['err']:
        return False, 'raised %s, specified %s' % (o['err'] or 'nothing', exp['err'] or 'a normal return')
    for key, what in (('keys', 'keys of the returned dict'), ('reads', 'files read'), ('opened', 'files opened for scoring')):
        if sorted(o[key]) != sorted(exp[key]):
            return False, '%s %s, specified %s' % (what, o[key], sorted(exp[key]))
    if not _cols_close(o['flist'], exp['flist']):
        return False, 'SCORE column of the returned flist %s' % (o['flist'],)
    if sorted(o['after']['present']) != sorted(exp['after']['present']):
        return False, 'files afterwards %s, specified %s' % (o['after']['present'], sorted(exp['after']['present']))
    if not _cols_close(o['after']['flist'], exp['after']['flist']):
        return False, 'SCORE column of window_flist.fits afterwards %s' % (o['after']['flist'],)
    if not _cols_close(o['after']['rescore'], exp['after']['rescore']):
        return False, 'SCORE column of window_flist_rescore.fits afterwards %s' % (o['after']['rescore'],)
    # byte identity: a file whose specified content is its content on entry must not have been rewritten at all
    untouched = set(exp['after']['present']) - {'rescore'}
    if 'flist' in untouched and w['cflist'] == 'orig' and any(rat(q) != Fraction(int(ORIG)) for q in exp['after']['flist']):
        untouched.discard('flist')
    if w['crescore'] != 'absent':
        untouched.add('rescore')
    bad = sorted(set(o['changed']) & untouched)
    if bad:
        return False, 'files rewritten although their specified content is unchanged: %s' % bad
    return True, ''


# ---------------------------------------------------------------------------------------------------
# balkans
# ---------------------------------------------------------------------------------------------------
def small_rat(v):
    """A float that is exactly a small rational -> [num, den]; anything else (garbage, NaN) -> [0, 0]."""
    v = float(v)
    if not np.isfinite(v):
        return [0, 0]
    f = Fraction(v).limit_denominator(4096)
    if abs(f.numerator) < 2 ** 20 and abs(float(f) - v) <= 1e-6 * max(1.0, abs(v)) and (float(f) == v or abs(v) > 1e-4 or v == 0.0):
        return [f.numerator, f.denominator]
    return [0, 0]


def exec_balkans(world, blist, bcaps, pts, variant=0, prefill=True):
    """window_read(balkans=True) on generated window_blist / window_bcaps files; abstracted balkans + is_in_polygon."""
    import pydl.photoop.window as W
    from pydl.pydlutils.mangle import FITS_polygon, is_in_polygon
    fits = world.fits
    d = world.fresh_dir('balk')
    write_blist(fits, os.path.join(d, FILE_OF['blist']), blist, variant)
    write_bcaps(fits, os.path.join(d, FILE_OF['bcaps']), bcaps, variant)
    o = {'err': '', 'rows': [], 'inside': [], 'problem': ''}
    points = np.array([[flt(q) for q in p] for p in pts], dtype=np.float64)
    if prefill:
        junk = [np.full(37 + 8 * k, -7.25e11) for k in range(40)]       # freed memory a later np.recarray may be handed
        del junk
    with environ(PHOTO_RESOLVE=d), warnings.catch_warnings():
        warnings.simplefilter('ignore')
        try:
            kw = {'balkans': True}
            if variant % 5 == 3:
                kw['blist'] = True
            if variant % 5 == 4:
                kw['bcaps'] = True
            r = W.window_read(**kw)
            b = r['balkans']
            if sorted(r) != sorted(k for k in ('balkans', 'blist', 'bcaps') if kw.get(k)):
                o['problem'] = 'keys %s for keywords %s' % (sorted(r), sorted(kw))
            elif not isinstance(b, FITS_polygon):
                o['problem'] = 'balkans is a %s' % type(b).__name__
            else:
                x = np.asarray(b['XCAPS'])
                cm = np.asarray(b['CMCAPS'])
                n = len(b)
                if x.shape[:1] != (n,) or x.shape[-1:] != (3,) or x.ndim != 3 or cm.shape != x.shape[:2]:
                    o['problem'] = 'XCAPS shape %r CMCAPS shape %r for %d rows' % (x.shape, cm.shape, n)
                else:
                    for k in range(n):
                        o['rows'].append({'ifield': int(b['IFIELD'][k]), 'pixel': int(b['PIXEL'][k]), 'ncaps': int(b['NCAPS'][k]),
                                          'use_caps': int(b['USE_CAPS'][k]), 'weight': _whole(b['WEIGHT'][k]), 'str': _whole(b['STR'][k]),
                                          'xcaps': [[small_rat(v) for v in x[k, j]] for j in range(x.shape[1])],
                                          'cmcaps': [small_rat(v) for v in cm[k]]})
                        ins = is_in_polygon(b[k], points)
                        o['inside'].append([int(i) + 1 for i in np.nonzero(np.asarray(ins))[0]])
        except Exception as ex:
            o['err'] = type(ex).__name__
            o['problem'] = 'raised %s: %s' % (type(ex).__name__, str(ex)[:160])
    shutil.rmtree(d, ignore_errors=True)
    return o


def _whole(v):
    v = float(v)
    return int(v) if np.isfinite(v) and v == int(v) and abs(v) < 2 ** 30 else -(2 ** 30)


def balk_conforms(exp, o):
    if o['problem']:
        return False
    return o['rows'] == exp['bk'] and [sorted(s) for s in o['inside']] == [sorted(s) for s in exp['inside']]


def balk_record(blist, bcaps, pts, o):
    return {'kind': 'balkans', 'blist': blist, 'bcaps': bcaps, 'pts': pts, 'obs': {'rows': o['rows'], 'inside': o['inside']}}


# ---------------------------------------------------------------------------------------------------
# code -> spec: seeded random cases
# ---------------------------------------------------------------------------------------------------
NAMES = sorted(STD_BITS) + ['BIT10', 'BIT11', 'BIT13', 'BIT15']
FW_POOL = [[1, 1], [2, 1], [1, 2], [3, 2], [5, 4], [7, 5], [693, 1000], [11, 4], [3, 1], [0, 1]]
SR_POOL = [[1, 1], [2, 1], [3, 1], [1, 2], [3, 2], [5, 2], [4, 1], [6, 1], [0, 1]]


def _radd(q, k):
    f = rat(q) + k
    return [f.numerator, f.denominator]


def random_row(rng, ign):
    p = rng.random()
    fp = {'has': p < 0.7, 'status': rng.choice([0, 0, 0, 1, 3, 6])}
    ts = {'has': rng.random() < (0.3 if fp['has'] else 0.7), 'status': rng.choice([0, 0, 2, 5])}
    if not fp['has']:
        fp['status'] = 0
    if not ts['has']:
        ts['status'] = 0
    if rng.random() < 0.15:
        ps = NO_PS
    else:
        st = [rng.choice([0, 0, 0, 0, 1, 2, 3, 4, 5, 32, 33, 34, 35, 37, 63, 64, 66, 127]) if rng.random() < 0.3 else 0 for _ in range(5)]
        fw, sr = rng.choice(FW_POOL), rng.choice(SR_POOL)
        sq = rat(sr) ** 2
        sky3 = [sq.numerator, sq.denominator]
        if rng.random() < 0.06:
            sky3, sr = [-rng.randint(1, 9), 1], [0, 1]
        w = [_radd(fw, rng.choice([0, 1, 2, Fraction(1, 2)])) for _ in range(5)]
        w[2] = fw
        sky = [_radd(sky3, rng.choice([0, 1, 3, 8])) if sky3[0] >= 0 else [rng.randint(1, 9), 1] for _ in range(5)]
        sky[2] = sky3
        ps = {'has': True, 'st': st, 'w': w, 'sky': sky, 'sroot': sr}
    img = []
    for _ in range(5):
        q = rng.random()
        img.append(sorted(rng.sample(NAMES, rng.choice([1, 1, 2, 3]))) if q < 0.18 else (['CLEAR'] if q < 0.3 else []))
    sun = rng.choice([[-20, 1], [-35, 2], [-12, 1], [-25, 2], [-23, 2], [-13, 1], [-11, 1], [0, 1], [45, 1], [-90, 1], [-1201, 100], [-1199, 100]])
    b = rng.choice([1, 1, 1, 2, 2, 3, 4])
    return {'kind': 'row', 'ign': ign, 'fp': fp, 'ts': ts, 'ps': ps, 'img': img, 'sun': sun, 'xbin': b, 'ybin': b}


UNIT_POOL = None


def unit_pool():
    global UNIT_POOL
    if UNIT_POOL is None:
        import itertools
        base = [((2, 2, 1), 3), ((6, 3, 2), 7), ((1, 0, 0), 1), ((3, 4, 0), 5), ((4, 4, 7), 9), ((1, 4, 8), 9)]
        out = set()
        for (v, den) in base:
            for perm in set(itertools.permutations(v)):
                for sg in itertools.product((-1, 1), repeat=3):
                    out.add(tuple(Fraction(s * x, den) for s, x in zip(sg, perm)))
        UNIT_POOL = sorted(out)
    return UNIT_POOL


def random_balkans(rng):
    pool = unit_pool()
    nc = rng.randint(2, 9)
    bcaps = []
    for _ in range(nc):
        x = rng.choice(pool)
        cm = rng.choice([Fraction(1, 4), Fraction(1, 2), Fraction(5, 4), Fraction(3, 2), Fraction(7, 4), Fraction(1, 8)])
        bcaps.append({'x': [[q.numerator, q.denominator] for q in x], 'cm': [cm.numerator, cm.denominator]})
    n = rng.choice([1, 2, 3, 4, 6])
    blist = []
    for k in range(n):
        ncaps = rng.choice([0, 1, 1, 2, 2, 3, 4, 5]) if rng.random() < 0.9 else nc
        ncaps = min(ncaps, nc)
        icap = rng.randint(0, nc - ncaps)
        blist.append({'iprimary': rng.randint(0, 900000), 'ibindx': rng.randint(0, 30000), 'ncaps': ncaps, 'icap': icap,
                      'weight': rng.choice([0, 1, 1, 2]), 'str': rng.randint(0, 50)})
    pts = []
    while len(pts) < 16:
        p = rng.choice(pool)
        # no point exactly on a cap boundary (the boundary itself is C12's business)
        if all(abs((1 - sum(rat(a) * b for a, b in zip(c['x'], p))) - rat(c['cm'])) > Fraction(1, 1000) for c in bcaps):
            pts.append([[q.numerator, q.denominator] for q in p])
    return blist, bcaps, pts


def random_world(rng, rowpool):
    rows = rng.choice(rowpool)
    present = [f for f in ('flist', 'blist', 'bcaps', 'findx', 'bindx') if rng.random() < 0.85]
    return {'resolve': rng.random() < 0.9, 'calib': rng.random() < 0.85, 'present': sorted(present), 'cflist': 'orig',
            'crescore': rng.choice(['absent', 'absent', 'stale']), 'rows': rows}


# ---------------------------------------------------------------------------------------------------
class Reporter:
    """Failing cases -> TLC's classification (Trace_Window) -> VIOLATION / KNOWN-FINDING, a bounded number listed."""

    def __init__(self, ctx):
        self.ctx = ctx
        self.pending = []          # (record, case dict)
        self.seen = {}

    def add(self, record, case):
        self.pending.append((record, case))

    def flush(self, label):
        if not self.pending:
            return
        recs = [r for r, _ in self.pending]
        bad = core.validate_records(self.ctx, 'Trace_Window', [strip(r) for r in recs], label=label)
        for k, (rec, case) in enumerate(self.pending):
            why = bad.get(k)
            if why is None:
                if case.get('force'):
                    why = case['force']
                else:
                    continue
            m = re.match(r'(D-X05-\d+): ', why)
            fid = m.group(1) if m else None
            key = (rec['kind'], fid)
            self.seen[key] = self.seen.get(key, 0) + 1
            if self.seen[key] > MAX_LISTED:
                self.ctx.cov['parts']['failing_cases_not_listed'] = self.ctx.cov['parts'].get('failing_cases_not_listed', 0) + 1
                continue
            c = dict(case)
            c.pop('force', None)
            c['what'] = '%s [Trace_Window: %s]' % (case['what'], why)
            c['record'] = rec
            self.ctx.violation(c, finding=fid)
        self.pending = []


def strip(rec):
    return {k: v for k, v in rec.items() if k != 'text'}


def describe_row(row, ident=None):
    bits = {k + 1: s for k, s in enumerate(row['img']) if s}
    files = [n for n in ('fp', 'ts', 'ps') if row[n]['has']]
    return 'row(files=%s fp=%s ts=%s psp=%s fwhm_r=%s sky_r=%s img=%s sun=%s bin=%dx%d ign=%s)' % (
        '+'.join(files) or 'none', row['fp']['status'] if row['fp']['has'] else '-', row['ts']['status'] if row['ts']['has'] else '-',
        row['ps']['st'] if row['ps']['has'] else '-', row['ps']['w'][2] if row['ps']['has'] else '-',
        row['ps']['sky'][2] if row['ps']['has'] else '-', bits or '{}', row['sun'], row['xbin'], row['ybin'], row['ign'])


def score_batch(ctx, world, rep, batch, ign, layout, table, judge_all=False):
    """One real sdss_score call over the rows of `batch` = [(row, exp or None)].  Rows with exp are compared with it;
    differing rows (and all rows when judge_all) are handed to Trace_Window."""
    rows = [r for r, _ in batch]
    call, obs = exec_rows(world, rows, ign=ign, layout=layout, table=table)
    ctx.evaluated(len(rows), 'sdss_score rows')
    ctx.validated(len(rows))
    meta = {'batch': rows, 'ign': ign, 'layout': layout, 'table': table}
    if obs is None:
        rep.add(call, dict(meta, what='sdss_score over %d rows (IMAGE_STATUS %s, first row %s) raised %s' % (
            len(rows), 'unsigned' if layout == 'unsigned' else 'signed', 'without psField' if call['k']['firstPsMissing'] else 'with psField',
            call.get('text', call['raised']))))
        return
    if judge_all:
        rep.add(call, dict(meta, what='sdss_score call'))
    prevs = prevs_of(rows)
    for k, (row, exp) in enumerate(batch):
        o = obs[k]
        rec = row_record(row, prevs[k], o)
        if exp is not None and not row_conforms(exp, o):
            rep.add(rec, dict(meta, index=k, expected=exp, observed=o, force='differs from the TLC state',
                              what='sdss_score row %d of %d: %s: specified %s observed %s' % (
                                  k + 1, len(rows), describe_row(row), brief_out(exp['out'], exp['demanded']), brief_obs(o))))
        elif judge_all:
            rep.add(rec, dict(meta, index=k, observed=o,
                              what='sdss_score row %d of %d: %s observed %s' % (k + 1, len(rows), describe_row(row), brief_obs(o))))


def brief_out(out, demanded):
    return 'PHOTO_STATUS=%s PSP_STATUS=%s PSF_FWHM_r=%.6g SKYFLUX_r=%.6g SCORE=%s' % (
        out['photo'], list(out['psp']), flt(out['fwhm'][2]), flt(out['sky'][2]), ('%.7g' % flt(out['score'])) if demanded else 'open')


def brief_obs(o):
    return 'PHOTO_STATUS=%s PSP_STATUS=%s PSF_FWHM_r=%.6g SKYFLUX_r=%.6g SCORE=%.7g' % (
        o['photo'], o['psp'], o['fwhm'][2], o['sky'][2], o['score'])


def run(ctx):
    core.import_pydl()
    ctx.level = 'model_checking'
    ctx.rule = ('every case state of MC_Window is one case: a window_flist row with its fpFieldStat/tsField/psField files (scored by '
                'the real sdss_score, many rows per call), a window_read or window_score call in a generated $PHOTO_RESOLVE, or a '
                'window_blist table read by window_read(balkans=True) and probed with is_in_polygon; non-trivial = rows that exist '
                '(specified score > 0) or use a missing-file fallback, file cases that read or write a file, balkans with unused slots; '
                'recorded cases = seeded random rows / worlds / cap tables judged by Trace_Window')
    ctx.assumptions = [
        'numbers the code holds as floats are small rationals; the r-band sky is a perfect square (so that its square root is '
        'rational) and XBIN = YBIN wherever the sensitivity matters; floats are compared with the exact values to 2e-7 relative',
        'IMAGE_STATUS bits are looked up by name in a generated sdssMaskbits file (two bit assignments); the network download is not run',
        'sdss_calib is the documented placeholder (nMgyPerCount = 1)',
        'window_flist column types: the real file (J/I/E), a wide variant (K/B/D) and an unsigned IMAGE_STATUS; other tables J/I/K and D/E',
        'outcomes the documentation leaves open (spec err = "open", demanded = FALSE) are executed but not judged',
        'the cap geometry of B2 uses axis caps and 24 rational unit vectors without boundary ties (boundaries are property C12)']
    world = World(ctx.scratch)
    rep = Reporter(ctx)
    phase, t0 = {}, time.time()

    def lap(name):
        nonlocal t0
        phase[name] = round(time.time() - t0, 1)
        t0 = time.time()
    cfg = 'MC_Window_quick.cfg' if ctx.quick else 'MC_Window_thorough.cfg'
    r = ctx.tlc('MC_Window.tla', cfg, dump=True, timeout=1500)
    rows, files, balks, tab = [], [], [], None
    for st in core.iter_states(r):
        kind = st['c']['kind']
        if kind == 'row':
            rows.append((J(st['c']), J(st['exp']), J(st['dev'])))
        elif kind in ('read', 'wscore'):
            files.append((J(st['c']), J(st['exp'])))
        elif kind == 'balkans':
            balks.append((J(st['c']), J(st['exp'])))
        elif kind == 'table':
            tab = J(st['c'])
    if tab is None or not rows or not files or not balks:
        raise core.MachineryError('MC_Window produced no table / row / file / balkans states')
    for c, exp in files:            # the harness constants are the spec's
        for col, val in ((exp['after']['flist'], ORIG),):
            if c['w']['cflist'] == 'orig' and exp['err'] == 'PhotoopException' and col and any(flt(q) != val for q in col):
                raise core.MachineryError('spec OrigScore differs from the harness constant')

    lap('tlc_and_parse')
    # ---- spec -> code: rows, in seeded random order, 40-70 per real call --------------------------------------------
    rng = random.Random(ctx.seed)
    order = list(range(len(rows)))
    rng.shuffle(order)
    groups = {False: [], True: []}
    for k in order:
        groups[rows[k][0]['ign']].append(k)
    nb = 0
    for ign, idx in groups.items():
        pos = 0
        while pos < len(idx):
            size = rng.choice([1, 2, 40, 50, 60, 70]) if nb % 9 == 0 else rng.randint(40, 70)
            part = idx[pos:pos + size]
            pos += size
            layout = ('real', 'real', 'wide', 'unsigned')[nb % 4]
            table = ('std', 'alt')[(nb // 2) % 2]
            nb += 1
            score_batch(ctx, world, rep, [(rows[k][0], rows[k][1]) for k in part], ign, layout, table)
            for k in part:
                c, exp, dev = rows[k]
                if rat(exp['out']['score']) > 0 or not c['ps']['has'] or not c['fp']['has']:
                    ctx.nontriv(('row', json.dumps(c, sort_keys=True)))
            if nb % 25 == 1:
                c, exp, dev = rows[part[0]]
                ctx.sample({'row': describe_row(c), 'specified': brief_out(exp['out'], exp['demanded'])})

    lap('rows')
    # ---- spec -> code: window_read / window_score ----------------------------------------------------------------
    for n, (c, exp) in enumerate(files):
        kind = c['kind']
        o, call = exec_file_case(world, kind, c['w'], kw=c.get('kw'), rescore=c.get('rescore', False))
        ctx.evaluated(1, 'window_read' if kind == 'read' else 'window_score')
        ctx.validated()
        if exp['err'] != 'open' and (exp['reads'] or exp['opened'] or exp['err']):
            ctx.nontriv((kind, json.dumps([c.get('kw'), c.get('rescore'), c['w']['resolve'], c['w']['calib'], c['w']['present'],
                                           c['w']['crescore'], len(c['w']['rows'])], sort_keys=True)))
        good, why = file_conforms(exp, o, c['w'])
        if n % 150 == 3:
            ctx.sample({'call': describe_file(c), 'specified': brief_file(exp), 'observed': brief_file(o)})
        if not good:
            case = {'what': '%s: %s; specified %s, observed %s' % (describe_file(c), why, brief_file(exp), brief_file(o)),
                    'call': {k: v for k, v in c.items() if k != 'w'}, 'world': c['w'], 'expected': exp, 'observed': o,
                    'force': why}
            rep.add(call if call is not None else file_record(kind, c['w'], o, kw=c.get('kw'), rescore=c.get('rescore', False)), case)

    lap('file_cases')
    # ---- spec -> code: balkans -----------------------------------------------------------------------------------
    for n, (c, exp) in enumerate(balks):
        o = exec_balkans(world, c['blist'], tab['caps'], tab['pts'], variant=n)
        ctx.evaluated(1, 'balkans')
        ctx.validated()
        if len({r['ncaps'] for r in c['blist']}) > 1:
            ctx.nontriv(('balkans', json.dumps(c['blist'])))
        if n % 200 == 5:
            ctx.sample({'blist': [(r['ncaps'], r['icap']) for r in c['blist']], 'specified_xcaps_row1': exp['bk'][0]['xcaps']})
        if not balk_conforms(exp, o):
            case = {'what': 'window_read(balkans=True) with blist (NCAPS, ICAP) = %s: %s' % (
                [(r['ncaps'], r['icap']) for r in c['blist']], o['problem'] or brief_balk(exp, o)),
                'blist': c['blist'], 'variant': n, 'expected': exp, 'observed': o, 'force': o['problem'] or 'differs from the TLC state'}
            rep.add(balk_record(c['blist'], tab['caps'], tab['pts'], o), case)
    lap('balkans')
    rep.flush('Trace_Window(replayed cases that differ)')
    lap('classification')

    # ---- code -> spec: seeded random cases, all judged by Trace_Window ---------------------------------------------
    nbatch = 10 if ctx.quick else 120
    for b in range(nbatch):
        ign = rng.random() < 0.3
        n = rng.choice([1, 2, 3, 25, 40, 60])
        batch = [(random_row(rng, ign), None) for _ in range(n)]
        score_batch(ctx, world, rep, batch, ign, rng.choice(['real', 'real', 'wide', 'unsigned']), rng.choice(['std', 'alt']),
                    judge_all=True)
        for row, _ in batch:
            ctx.nontriv(('rrow', json.dumps(row, sort_keys=True)))
    rowpool = [[random_row(rng, False) for _ in range(rng.choice([1, 2, 4]))] for _ in range(4 if ctx.quick else 12)]
    nworld = 40 if ctx.quick else 600
    for _ in range(nworld):
        w = random_world(rng, rowpool)
        if rng.random() < 0.75:
            kw = {k: rng.random() < 0.4 for k in ('flist', 'rescore', 'blist', 'bcaps', 'balkans', 'findx', 'bindx')}
            o, call = exec_file_case(world, 'read', w, kw=kw)
            rec = file_record('read', w, o, kw=kw)
            what = 'window_read(%s)' % ', '.join(k for k in sorted(kw) if kw[k])
        else:
            rescore = rng.random() < 0.5
            o, call = exec_file_case(world, 'wscore', w, rescore=rescore)
            rec = file_record('wscore', w, o, rescore=rescore)
            what = 'window_score(rescore=%s)' % rescore
        ctx.nontriv(('rfile', json.dumps(strip(rec), sort_keys=True)))
        case = {'what': '%s in world %s: observed %s' % (what, brief_world(w), brief_file(o)), 'world': w, 'observed': o}
        if o['problem']:
            case['force'] = o['problem']
        rep.add(call if call is not None else rec, case)
    ctx.evaluated(nworld, 'random window_read / window_score')
    ctx.validated(nworld)
    nbalk = 40 if ctx.quick else 500
    for n in range(nbalk):
        blist, bcaps, pts = random_balkans(rng)
        o = exec_balkans(world, blist, bcaps, pts, variant=rng.randrange(20))
        ctx.nontriv(('rbalk', json.dumps(blist)))
        case = {'what': 'window_read(balkans=True) with blist (NCAPS, ICAP) = %s over %d caps: %s' % (
            [(r['ncaps'], r['icap']) for r in blist], len(bcaps), o['problem'] or 'observed balkans'), 'blist': blist, 'bcaps': bcaps, 'pts': pts, 'observed': o}
        if o['problem']:
            case['force'] = o['problem']
        rep.add(balk_record(blist, bcaps, pts, o), case)
    ctx.evaluated(nbalk, 'random balkans')
    ctx.validated(nbalk)
    lap('random_runs')
    rep.flush('Trace_Window(random cases)')
    lap('random_judged')
    ctx.cov['x05'] = {'row_states': len(rows), 'file_states': len(files), 'balkans_states': len(balks), 'sdss_score_calls': nb + nbatch,
                      'reduction_files_linked': world.nplaced, 'distinct_reduction_file_contents': len(world.templates), 'phase_wall_s': phase}
    import pydl.pydlutils.sdss as S
    S.maskbits = None
    ctx.exhaustive = not ctx.quick


def describe_file(c):
    w = c['w']
    if c['kind'] == 'read':
        call = 'window_read(%s)' % ', '.join('%s=True' % k for k in ('flist', 'rescore', 'blist', 'bcaps', 'balkans', 'findx', 'bindx') if c['kw'][k])
    else:
        call = 'window_score(rescore=%s)' % c['rescore']
    return '%s in world %s' % (call, brief_world(w))


def brief_world(w):
    return '[PHOTO_RESOLVE %s, PHOTO_CALIB %s, files %s, rescore file %s, %d flist rows]' % (
        'set' if w['resolve'] else 'unset', 'set' if w['calib'] else 'unset', ','.join(sorted(w['present'])) or 'none', w['crescore'], len(w['rows']))


def brief_file(o):
    if o['err'] == 'open':
        return 'nothing (open)'
    if o['err']:
        return 'raises ' + o.get('text', o['err'])
    def col(v):
        return [round(flt(q), 6) if isinstance(q, list) else round(q, 6) for q in v]
    return 'keys=%s reads=%s opened=%s flist.SCORE=%s; afterwards files=%s flist=%s rescore=%s' % (
        sorted(o['keys']), sorted(o['reads']), sorted(o['opened']), col(o['flist']), sorted(o['after']['present']),
        col(o['after']['flist']), col(o['after']['rescore']))


def brief_balk(exp, o):
    for k, (e, g) in enumerate(zip(exp['bk'], o['rows'])):
        if e != g:
            diff = [f for f in e if e[f] != g.get(f)]
            return 'row %d differs in %s: specified %s observed %s' % (k + 1, diff, {f: e[f] for f in diff}, {f: g.get(f) for f in diff})
    if len(exp['bk']) != len(o['rows']):
        return '%d rows, specified %d' % (len(o['rows']), len(exp['bk']))
    return 'is_in_polygon answers %s, specified %s' % (o['inside'], exp['inside'])


def replay(ctx, case):
    """bin/check X05 --replay <file>: re-execute the failing case from its record and let Trace_Window judge it again."""
    core.import_pydl()
    ctx.level = 'model_checking'
    ctx.rule = 'single replayed case'
    world = World(ctx.scratch)
    rec = case['record']
    ctx.evaluated(1)
    ctx.validated()
    ctx.nontriv('a')
    ctx.nontriv('b')
    if rec['kind'] in ('row', 'call') and 'batch' in case:
        call, obs = exec_rows(world, case['batch'], ign=case['ign'], layout=case['layout'], table=case['table'])
        if obs is None or rec['kind'] == 'call':
            new = call
        else:
            k = case['index']
            new = row_record(case['batch'][k], prevs_of(case['batch'])[k], obs[k])
            print('observed:', brief_obs(obs[k]))
    elif rec['kind'] in ('read', 'wscore') or (rec['kind'] == 'call' and 'world' in case):
        c = case.get('call') or {}
        kind = c.get('kind') or rec['kind']
        kw = c.get('kw') or rec.get('kw')
        rescore = c.get('rescore', rec.get('rescore', False))
        o, call = exec_file_case(world, kind, case['world'], kw=kw, rescore=rescore)
        print('observed:', brief_file(o))
        new = call if call is not None else file_record(kind, case['world'], o, kw=kw, rescore=rescore)
        if o['problem']:
            print('problem:', o['problem'])
            ctx.violation(case)
            return
    elif rec['kind'] == 'balkans':
        o = exec_balkans(world, rec['blist'], rec['bcaps'], rec['pts'], variant=case.get('variant', 0))
        new = balk_record(rec['blist'], rec['bcaps'], rec['pts'], o)
        if o['problem']:
            print('problem:', o['problem'])
            ctx.violation(case)
            return
    else:
        print('nothing to replay')
        return
    bad = core.validate_records(ctx, 'Trace_Window', [strip(new)])
    print('Trace_Window:', bad.get(0, 'accepted'))
    if bad:
        m = re.match(r'(D-X05-\d+): ', bad[0])
        ctx.violation(case, finding=m.group(1) if m else None)
