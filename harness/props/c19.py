"""C19 - air/vacuum wavelengths, SDSS->AB offsets, filter_thru band fluxes.

Spec: spec/FluxConv.tla; MC: mc/MC_FluxConv; Trace: trace/Trace_FluxConv.

spec -> code: every state of MC_FluxConv (call of airtovac/vactoair for an input kind and a pattern of guard
classes; sdssflux2ab case form x band x level) is concretised, executed and compared with TLC's `exp`.
code -> spec: seeded call histories of the real functions are recorded (identifiers for the real numbers,
pairwise discrepancy matrices as scaled integers) and judged by the laws of FluxConv in Trace_FluxConv, which
also demands a minimum number of triggered instances per law.
"""
import json
import math
import os
import random
import zlib

import numpy as np

from .. import core

CAP = 2 ** 30
TOL_A = 1.0e-6          # the statement's tolerance for the inverses (Angstrom)
UNIT_A = 1.0e-9         # one discrepancy unit = TOL_A / 1000
FACTOR = {'A': 1.0, 'nm': 10.0, 'um': 1.0e4}
SCALAR_KINDS = ('float', 'npfloat', 'array0', 'q0A', 'q0nm', 'q0um', 'pyint', 'npint', 'iarray0', 'npfloat32')
ZERO_D = ('npfloat', 'array0', 'q0A', 'q0nm', 'q0um', 'npint', 'iarray0', 'npfloat32')
INTEGER_KINDS = ('pyint', 'npint', 'iarray0', 'iarray', 'qAi', 'qnmi')
WIDTH_KINDS = ('npint', 'iarray0', 'iarray', 'qAi', 'qnmi')                     # FluxConv!WidthKinds
WIDTHS = ('int64', 'int32', 'int16', 'uint16', 'uint8')                          # FluxConv!Widths
WMAX = {'int64': 2 ** 62, 'int32': 2 ** 31 - 1, 'int16': 32767, 'uint16': 65535, 'uint8': 255, 'na': 2 ** 62}
SINGLE_KINDS = ('npfloat32', 'f32array')
SINGLE_ULPS = 8         # FluxConv!SingleUlps
FILTER_DIR = os.path.join(core.PYDL_SRC, 'pydl', 'pydlutils', 'data', 'filters')


def _u():
    import astropy.units as u
    return u


def unit_of(kind):
    return 'nm' if kind in ('q0nm', 'qnm', 'qnmi') else 'um' if kind in ('q0um', 'qum') else 'A'


def numtype(kind):
    """which numbers the kind can hold: 'double', 'single', 'integer' (Angstrom) or 'integer-nm'."""
    return 'integer-nm' if kind == 'qnmi' else 'integer' if kind in INTEGER_KINDS else 'single' if kind in SINGLE_KINDS else 'double'


def _aunit(name):
    u = _u()
    return {'A': u.AA, 'nm': u.nm, 'um': u.um}[name]


# ------------------------------------------------------------------ concretise / abstract
LAYOUTS = ('plain', 'readonly', 'strided', 'byteswapped', 'transposed2d')      # FluxConv!Layouts
AB_LAYOUTS = ('plain', 'readonly', 'strided', 'byteswapped', 'fortran')         # FluxConv!ABLayouts


def layouts_of(kind):
    if kind in SCALAR_KINDS:
        return ('plain',)
    return ('plain', 'readonly', 'strided') if kind in ('qA', 'qnm', 'qum', 'qAi', 'qnmi') else LAYOUTS


def lay(a, layout, fill=12345):
    """The same VALUES in another memory layout (the spec's Layouts / ABLayouts)."""
    a = np.asarray(a)
    if layout == 'plain':
        return a
    if layout == 'readonly':
        if a.size % 2:
            return np.frombuffer(a.tobytes(), dtype=a.dtype).reshape(a.shape)
        b = a.copy()
        b.setflags(write=False)
        return b
    if layout == 'strided':
        big = np.full(a.shape[:-1] + (2 * a.shape[-1],), fill, dtype=a.dtype)
        big[..., ::2] = a
        return big[..., ::2]
    if layout == 'byteswapped':
        return a.astype(a.dtype.newbyteorder('S'))
    if layout == 'transposed2d':
        return np.ascontiguousarray(np.array([a, a]).T).T
    if layout == 'fortran':
        return np.asfortranarray(a) if a.shape[0] % 2 else np.ascontiguousarray(a.T).T
    raise core.MachineryError('unknown layout ' + layout)


def widths_fitting(kind, lams):
    """the integer widths (FluxConv!Widths) that hold these wavelengths for this kind ('na' if the kind has none)."""
    if kind not in WIDTH_KINDS:
        return ('na',)
    top = max(lams) / (10.0 if kind == 'qnmi' else 1.0)
    return tuple(w for w in WIDTHS if top <= WMAX[w])


def make_input(kind, lams, layout='plain', width='na'):
    """Spec value (kind, wavelengths in Angstrom, memory layout, integer width) -> the real argument."""
    fillv = 12340.0 if WMAX[width] >= 12340 else 120.0
    x = _make_input(kind, list(lams) + ([fillv] * len(lams)
                                        if layout == 'strided' and kind in ('qA', 'qnm', 'qum', 'qAi', 'qnmi') else []), width)
    if layout == 'plain':
        return x
    if kind in SCALAR_KINDS or layout not in layouts_of(kind):
        raise core.MachineryError('layout %s not defined for kind %s' % (layout, kind))
    if kind in ('qA', 'qnm', 'qum', 'qAi', 'qnmi'):
        if layout == 'readonly':
            x.setflags(write=False)
            return x
        n = len(lams)
        y = x.copy()
        y[0::2] = x[:n]          # interleave the wanted values with the filler, then view every second element
        y[1::2] = x[n:]
        return y[::2]
    return lay(x, layout, fill=120)


def _make_input(kind, lams, width='na'):
    u = _u()
    idt = np.dtype(width if width != 'na' else 'int64')
    if kind == 'float':
        return float(lams[0])
    if kind == 'npfloat':
        return np.float64(lams[0])
    if kind == 'array0':
        return np.array(float(lams[0]))
    if kind in ('q0A', 'q0nm', 'q0um'):
        return (float(lams[0]) * u.AA).to(_aunit(unit_of(kind)))
    if kind == 'array':
        return np.array(lams, dtype=float)
    if kind in INTEGER_KINDS:
        ints = [int(v) for v in lams]
        if any(float(i) != v for i, v in zip(ints, lams)):
            raise core.MachineryError('non-integer wavelength for integer kind %s: %r' % (kind, lams))
        if kind == 'pyint':
            return ints[0]
        if kind == 'qnmi' and any(i % 10 for i in ints):
            raise core.MachineryError('qnmi needs whole nanometres: %r' % (lams,))
        if kind != 'pyint' and max(ints) // (10 if kind == 'qnmi' else 1) > WMAX[width]:
            raise core.MachineryError('wavelengths %r do not fit %s' % (lams, width))
        if kind == 'npint':
            return idt.type(ints[0])
        if kind == 'iarray0':
            return np.array(ints[0], dtype=idt)
        if kind == 'iarray':
            return np.array(ints, dtype=idt)
        if kind == 'qAi':
            return np.array(ints, dtype=idt) * u.AA
        return np.array([i // 10 for i in ints], dtype=idt) * u.nm
    if kind in SINGLE_KINDS:
        if any(float(np.float32(v)) != v for v in lams):
            raise core.MachineryError('wavelength not representable in float32: %r' % (lams,))
        return np.float32(lams[0]) if kind == 'npfloat32' else np.array(lams, dtype=np.float32)
    if kind in ('qA', 'qnm', 'qum'):
        return (np.array(lams, dtype=float) * u.AA).to(_aunit(unit_of(kind)))
    raise core.MachineryError('unknown kind ' + kind)


def native(obj):
    """(values in the object's own unit as 1-d float array, unit name, is_quantity, ndim)."""
    u = _u()
    if isinstance(obj, u.Quantity):
        name = None
        for n in ('A', 'nm', 'um'):
            if obj.unit == _aunit(n):
                name = n
        return np.atleast_1d(np.asarray(obj.value, dtype=float)).ravel().copy(), name or str(obj.unit), True, obj.ndim
    return np.atleast_1d(np.asarray(obj, dtype=float)).ravel().copy(), 'A', False, int(np.ndim(obj))


def bits(a):
    return np.ascontiguousarray(np.asarray(a, dtype=float)).tobytes()


def call_fn(fn, x, rows2=False):
    """One real call.  Returns dict: raised, exc, result object, kept (input bit-identical afterwards),
    form (as AnswerForm), vals (native floats), unit.  rows2: x is the transposed2d layout (the wavelengths twice,
    as the two rows of a Fortran-ordered view); the answer must have that shape and two identical rows, and is
    reduced to one row; out['layout_bad'] says if not."""
    from pydl.goddard import astro
    before, bunit, _, _ = native(x)
    bdtype = str(getattr(x, 'dtype', type(x).__name__))
    out = {'raised': False, 'exc': '', 'obj': None, 'kept': True,
           'form': {'quantity': False, 'unit': 'A', 'scalar': False}, 'vals': [], 'unit': 'A'}
    try:
        r = getattr(astro, fn)(x)
    except Exception as ex:   # any exception is a wrong outcome on this domain
        out['raised'] = True
        out['exc'] = type(ex).__name__ + ': ' + str(ex)[:120]
        r = None
    after, aunit, _, _ = native(x)
    out['kept'] = bool(bits(before) == bits(after) and bunit == aunit and
                       bdtype == str(getattr(x, 'dtype', type(x).__name__)))
    if r is not None:
        try:
            vals, unit, isq, ndim = native(r)
        except Exception as ex:
            out['raised'] = True
            out['exc'] = 'result not numeric: %r' % (r,)
            return out
        out['obj'] = r
        out['vals'] = [float(v) for v in vals]
        out['unit'] = unit
        out['form'] = {'quantity': bool(isq), 'unit': unit, 'scalar': ndim == 0}
        if rows2:
            n = len(before) // 2
            if np.shape(r) != (2, n):
                out['layout_bad'] = 'answer shape %r for a (2, %d) input' % (np.shape(r), n)
            elif bits(vals[:n]) != bits(vals[n:]):
                out['layout_bad'] = 'the two identical rows of the input got different answers'
            out['vals'] = out['vals'][:n]
    return out


def rel(a_native, r_native, factor):
    """Observed relation of one output element to its input element (FluxConv!Rels)."""
    if math.isnan(r_native):
        return 'nan'
    if bits(a_native) == bits(r_native):
        return 'identical'
    d = (r_native - a_native) * factor
    if abs(d) < TOL_A:
        return 'equal'
    return 'greater' if d > 0 else 'less'


def du(x, y, unit=UNIT_A):
    """discrepancy |y - x| in units, rounded up, capped; sign of y - x."""
    if math.isnan(x) or math.isnan(y):
        return CAP, -1
    if x == y:
        return 0, 0
    d = abs(y - x) / unit
    return (CAP if not d < CAP else max(1, int(math.ceil(d)))), (1 if y > x else -1)


# ------------------------------------------------------------------ values per guard class
def _f32(v):
    return float(np.float32(v))


def class_value(rng, cls, angstrom_kind, nt='double', vmax=2 ** 62):
    """A wavelength (Angstrom) of the given class that the kind can hold.  Callers in nm / um keep 1e-6 A away
    from the guard (their unit conversion cannot resolve less; the spec's class "at" covers that band)."""
    if cls == 'at':
        return 2000.0
    if nt == 'integer':
        pool = ([100, 912, 1216, 1999, 1999, rng.randint(100, 1999)] if cls == 'below' else
                [2001, 2001, 3000, 5000, 6563, 10000, 299999, 300000, rng.randint(2001, 300000), rng.randint(2001, 12000)])
        if vmax < 2001:
            pool = [100, 121, vmax, rng.randint(100, vmax)] if cls == 'below' else []
        pool = [v for v in pool if v <= vmax]
        return float(rng.choice(pool))
    if nt == 'integer-nm':
        pool = ([100, 910, 1220, 1990, 1990, 10 * rng.randint(10, 199)] if cls == 'below' else
                [2010, 2010, 3000, 5000, 6560, 10000, 300000, 10 * rng.randint(201, 30000), 10 * rng.randint(201, 1200)])
        pool = [v for v in pool if v // 10 <= vmax]
        return float(rng.choice(pool))
    if nt == 'single':
        if cls == 'below':
            pool = [100.0, _f32(911.75), _f32(1215.67), 1999.0, float(np.nextafter(np.float32(2000.0), np.float32(0.0))),
                    min(_f32(math.exp(rng.uniform(math.log(100.0), math.log(1999.9)))), 1999.0 + 0.5)]
        else:
            pool = [float(np.nextafter(np.float32(2000.0), np.float32(1e9))), _f32(2000.7), 3000.0, 5000.0, _f32(6562.8),
                    10000.0, 300000.0, max(_f32(math.exp(rng.uniform(math.log(2000.1), math.log(300000.0)))), 2000.0 + 0.0625),
                    _f32(2000.0 + 10 ** rng.uniform(-3, 1))]
        v = float(rng.choice(pool))
        if (v < 2000.0) != (cls == 'below') or v == 2000.0:
            raise core.MachineryError('float32 draw %r left its class %s' % (v, cls))
        return v
    if cls == 'below':
        pool = [100.0, 911.75, 1215.67, 1999.0, 1999.999999, math.exp(rng.uniform(math.log(100.0), math.log(2000.0) - 1e-9)),
                2000.0 - 10 ** rng.uniform(-6, 2)]
        if angstrom_kind:
            pool.append(math.nextafter(2000.0, 0.0))
    else:
        pool = [2000.000001, 2000.7, 3000.0, 5000.0, 6562.8, 10000.0, 299999.5, 300000.0,
                math.exp(rng.uniform(math.log(2000.0) + 1e-9, math.log(300000.0))), 2000.0 + 10 ** rng.uniform(-6, 1),
                math.exp(rng.uniform(math.log(2000.0) + 1e-9, math.log(300000.0)))]
        if angstrom_kind:
            pool.append(math.nextafter(2000.0, 1e9))
    return float(rng.choice(pool))


def close_enough(x, y, precision):
    """harness judgement 'same physical answer': the stated 1e-6 A, or SINGLE_ULPS float32 ulps for float32 input."""
    if abs(x - y) < TOL_A:
        return True
    return precision == 'single' and abs(x - y) < math.ceil(abs(x)) * 120 * SINGLE_ULPS * UNIT_A


def classify(kind, cls_first, exc):
    """Name the known deviation that explains a raised call exactly (FluxConv!Dev_ZeroDimRaises)."""
    if kind in ZERO_D and cls_first != 'below' and exc.startswith('TypeError'):
        return 'D-C19-1'
    return None


# ------------------------------------------------------------------ spec -> code: wave cases
def run_wave_case(c, exp, lams):
    """Execute one TLC case with concrete wavelengths; list of mismatch strings (empty = conforms)."""
    kind, fn, layout = c['kind'], c['fn'], c.get('layout', 'plain')
    x = make_input(kind, lams, layout, c.get('width', 'na'))
    a_native, _, _, _ = native(x)
    o = call_fn(fn, x, rows2=(layout == 'transposed2d'))
    bad = []
    if o.get('layout_bad'):
        bad.append(o['layout_bad'])
    if o['raised'] != exp['raises']:
        bad.append('raised %s' % o['exc'])
        return bad, o
    if not o['kept']:
        bad.append('input modified')
    if o['form'] != exp['form']:
        bad.append('answer form %s, specified %s' % (o['form'], exp['form']))
    if len(o['vals']) != exp['len']:
        bad.append('answer has %d elements, specified %d' % (len(o['vals']), exp['len']))
        return bad, o
    f = FACTOR.get(o['unit'], 1.0)
    for p in range(exp['len']):
        r = rel(float(a_native[p]), o['vals'][p], f)
        if r not in exp['allowed'][p]:
            bad.append('element %d (%s, %.17g A): output is %s than/to input, allowed %s' % (
                p, c['pat'][p], lams[p], r, sorted(exp['allowed'][p])))
    # ArrayIsMapOfScalar / ElementTypeIndependent / UnitIndependent: every element of the answer is the answer for
    # that wavelength handed over as a Python float
    if kind != 'float' and o['unit'] in FACTOR:
        for p in range(exp['len']):
            if c['pat'][p] == 'at' and unit_of(kind) != 'A':
                continue
            s = call_fn(fn, float(lams[p]))
            if s['raised']:
                continue
            if not close_enough(s['vals'][0], o['vals'][p] * f, exp['precision']):
                bad.append('element %d: %.17g A differs from the answer for the float %.17g A' % (p, o['vals'][p] * f, s['vals'][0]))
    return bad, o


def ab_value(form, m0):
    return m0 / 1000.0 if form == 'mag' else 10.0 ** (-m0 / 2500.0)


def ab_level(form, v):
    return v * 1000.0 if form == 'mag' else -2500.0 * math.log10(v)


def run_ab_case(c, exp):
    from pydl.photoop.sdssio import sdssflux2ab
    form, b, m0 = c['form'], c['band'], c['m0']
    val = ab_value(form, m0)
    nt = c.get('ntype', 'float64')
    if nt != 'float64':
        if abs(val - round(val)) > 1e-9:
            raise core.MachineryError('AB case %r: value %r is not integral' % (c, val))
        a = np.full((2, 5), int(round(val)), dtype=np.dtype(nt))
    else:
        a = lay(np.full((2, 5), val), c.get('layout', 'plain'), fill=1.0)
    try:
        r = sdssflux2ab(a, magnitude=(form == 'mag'), ivar=(form == 'ivar'))
    except TypeError as ex:
        # an integer-typed array may be refused with a clear TypeError (ExpectedAB.rejectok), nothing else may
        return [] if exp.get('rejectok') else ['raised %s: %s' % (type(ex).__name__, ex)]
    except Exception as ex:
        return ['raised %s: %s' % (type(ex).__name__, ex)]
    r = np.asarray(r)
    if r.shape != (2, 5):
        return ['shape %r' % (r.shape,)]
    bad = []
    for row in range(2):
        try:
            lev = ab_level(form, float(r[row, b - 1]))
        except ValueError:
            lev = float('nan')
        if not abs(lev - exp['level']) < 1e-5:      # 1e-8 mag
            bad.append('row %d band %d form %s: level %.9f milli-mag, specified %d (shift %d)' % (
                row, b, form, lev, exp['level'], exp['shift']))
    return bad


# ------------------------------------------------------------------ code -> spec: wave histories
def hist_cls(lam, units):
    if units:
        return 'at' if abs(lam - 2000.0) <= 1e-9 else ('below' if lam < 2000.0 else 'above')
    return 'at' if lam == 2000.0 else ('below' if lam < 2000.0 else 'above')


def gen_wave_history(seed, idx):
    rng = random.Random('%d-wave-%d' % (seed, idx))
    template = idx % 3        # 0: double precision, Angstrom callers; 1: all units; 2: integer / single-precision element types
    units = template == 1
    zerod = (idx // 3) % 2 == 0
    n = rng.choice([1, 2, 3, 3, 3, 4])
    if units:
        kinds = rng.sample(['qnm', 'qum', 'qA', 'float', 'q0nm' if zerod else 'qnm', 'q0um' if zerod else 'qum'], 3)
    elif template == 0:
        kinds = rng.sample(['qA', 'float', 'float', 'npfloat' if zerod else 'qA',
                            'array0' if zerod else 'float', 'q0A' if zerod else 'qA'], 3)
    else:
        kinds = rng.sample(['iarray', 'iarray', 'f32array', 'qAi', 'qnmi', 'pyint', 'float',
                            'npint' if zerod else 'iarray', 'npint' if zerod else 'iarray',
                            'iarray0' if zerod else 'f32array', 'npfloat32' if zerod else 'f32array'], 4)
    nt = 'double' if template != 2 else 'integer-nm' if 'qnmi' in kinds else 'integer'
    lams = []
    for _ in range(n):
        p = rng.random()
        cls = 'below' if p < 0.3 else 'at' if p < 0.38 else 'above'
        lams.append(class_value(rng, cls, not units, nt))
    vals = list(lams)
    calls = []

    def record(fn, kind, x, argv, layout, width='na'):
        o = call_fn(fn, x, rows2=(layout == 'transposed2d'))
        resv = []
        if not o['raised']:
            f = FACTOR.get(o['unit'])
            if f is None:
                o['form'] = dict(o['form'], unit=o['unit'])
                f = 1.0
            if o.get('layout_bad'):
                o['form'] = dict(o['form'], unit=o['layout_bad'])       # AnswerForm law rejects it
            for v in o['vals']:
                vals.append(v * f)
                resv.append(len(vals))
        calls.append({'fn': fn, 'kind': kind, 'arg': list(argv), 'res': resv, 'raised': o['raised'], 'kept': o['kept'],
                      'form': o['form'], 'exc': o['exc'], 'layout': layout, 'width': width})
        return o, resv

    base = list(range(1, n + 1))
    plan = [('array', base)]
    for k in kinds:
        if k in SCALAR_KINDS:
            j = rng.randrange(n)
            plan.append((k, [base[j]]))
        else:
            plan.append((k, base))
    for kind, argv in plan:
        for fn, back in (('airtovac', 'vactoair'), ('vactoair', 'airtovac')):
            layout = rng.choice(layouts_of(kind))          # the same values in a seed-rotated memory layout
            width = rng.choice(widths_fitting(kind, [lams[v - 1] for v in argv]))      # ... and integer width
            x = make_input(kind, [lams[v - 1] for v in argv], layout, width)
            o, resv = record(fn, kind, x, argv, layout, width)
            if not o['raised'] and len(resv) == len(argv):
                # the answer object itself is handed back (for transposed2d: its 2-d answer)
                record(back, kind, o['obj'], resv, layout if layout == 'transposed2d' else 'plain')
    nv = len(vals)
    d = [[0] * nv for _ in range(nv)]
    s = [[0] * nv for _ in range(nv)]
    for a in range(nv):
        for b in range(nv):
            d[a][b], s[a][b] = du(vals[a], vals[b])
    return {'type': 'wave', 'gen': {'type': 'wave', 'idx': idx, 'seed': seed}, 'units': units, 'lams': ['%.17g' % v for v in vals],
            'vals': [{'cls': hist_cls(v, units), 'mag': (min(CAP // 1024, int(math.ceil(abs(v)))) if not math.isnan(v) else 0)}
                     for v in vals], 'd': d, 's': s, 'calls': calls}


# ------------------------------------------------------------------ code -> spec: AB histories
def gen_ab_history(seed, idx):
    from pydl.photoop.sdssio import sdssflux2ab
    rng = np.random.default_rng([seed, 19, idx])
    form = ('mag', 'flux', 'ivar')[idx % 3]
    rows = int(rng.integers(1, 7))
    if form == 'mag':
        a = rng.uniform(-5.0, 35.0, (rows, 5))
    else:
        a = 10.0 ** rng.uniform(-6.0, 6.0, (rows, 5))
        if form == 'flux':
            a *= rng.choice([-1.0, 1.0, 1.0], (rows, 5))
    obs = []
    exc = ''
    layout = str(rng.choice(AB_LAYOUTS))
    # every fourth history: integral values handed over in an integer type
    intinput = idx % 4 == 3
    ntype = 'float64'
    arg = a
    if intinput:
        ntype = str(rng.choice(WIDTHS))
        hi = min(WMAX[ntype], 30000)
        a = rng.integers(1 if form != 'mag' else 0, (36 if form == 'mag' else hi + 1), (rows, 5)).astype(float)
        arg = a.astype(np.dtype(ntype))
    typeerror = raised = False
    try:
        r = np.asarray(sdssflux2ab(lay(arg.copy(), layout, fill=1), magnitude=(form == 'mag'), ivar=(form == 'ivar')), dtype=float)
        if r.shape != a.shape:
            raise ValueError('shape %r' % (r.shape,))
    except TypeError as ex:
        exc = type(ex).__name__ + ': ' + str(ex)[:100]
        typeerror = True
        r = None
    except Exception as ex:
        exc = type(ex).__name__ + ': ' + str(ex)[:100]
        raised = True
        r = None
    for row in range(rows):
        for b in range(5):
            if r is None:
                if not (typeerror and intinput):
                    obs.append({'form': form, 'band': b + 1, 'shift': CAP, 'resid': CAP})
                continue
            if form == 'mag':
                m = (r[row, b] - a[row, b]) * 1000.0
            else:
                q = r[row, b] / a[row, b]
                m = -2500.0 * math.log10(q) if q > 0 else float('nan')
            if math.isnan(m) or abs(m) > 1e6:
                obs.append({'form': form, 'band': b + 1, 'shift': CAP, 'resid': CAP})
            else:
                k = int(round(m))
                obs.append({'form': form, 'band': b + 1, 'shift': k, 'resid': min(CAP, int(math.ceil(abs(m - k) * 1e6)))})
    return {'type': 'ab', 'gen': {'type': 'ab', 'idx': idx, 'seed': seed}, 'form': form, 'rows': rows, 'layout': layout, 'ntype': ntype,
            'intinput': bool(intinput), 'typeerror': bool(typeerror), 'raised': bool(raised), 'exc': exc, 'obs': obs}


# ------------------------------------------------------------------ code -> spec: filter_thru histories
_SUPPORT = {}


def band_support():
    """Per band the OPEN interval on which the tabulated response, linearly interpolated, is positive: from the last
    tabulated zero before the first positive sample to the first tabulated zero after the last positive sample
    (read from the data files the property names)."""
    if not _SUPPORT:
        for b in 'ugriz':
            t = np.loadtxt(os.path.join(FILTER_DIR, 'sdss_jun2001_%s_atm.dat' % b), comments='#')
            lam, resp = t[:, 0], t[:, 1]
            pos = np.nonzero(resp > 0)[0]
            if (resp < 0).any() or not (resp[pos[0]:pos[-1] + 1] > 0).all() or not (np.diff(lam) > 0).all():
                raise core.MachineryError('filter curve %s: response not a positive block' % b)
            if pos[0] == 0 or pos[-1] == len(lam) - 1:
                raise core.MachineryError('filter curve %s: table does not end in zero response' % b)
            _SUPPORT[b] = (float(lam[pos[0] - 1]), float(lam[pos[-1] + 1]))
    return _SUPPORT


WAVE_RANGES = [(2900.0, 11500.0), (3000.0, 6000.0), (5500.0, 10500.0), (4000.0, 5000.0), (3800.0, 9200.0),
               (12000.0, 15000.0), (6000.0, 7000.0), (3100.0, 4000.0)]


def gen_filter_history(seed, idx):
    from pydl.pydlspec2d.spec2d import filter_thru
    from pydl.pydlutils.trace import xy2traceset
    rng = np.random.default_rng([seed, 1919, idx])
    nt = int(rng.integers(1, 4))
    nx = int(rng.integers(80, 360))
    cfg = ('img', 'wset', 'img+air', 'wset+air')[idx % 4]
    # every fourth history: a wavelength solution whose sampling changes abruptly (two log-linear pieces with
    # steps a factor 50..200 apart, either order, either direction), probed with indicator-like fluxes
    piecewise = idx % 4 == 2
    if piecewise:
        cfg = 'img' if (idx // 4) % 2 == 0 else 'img+air'
        nt = int(rng.integers(1, 3))
        nx = int(rng.integers(240, 401))
    toair = cfg.endswith('+air')
    pix = np.arange(nx, dtype=float)
    wave = np.zeros((nt, nx))
    for t in range(nt if piecewise else 0):
        ncoarse = int(nx * rng.uniform(0.6, 0.85))
        big = rng.uniform(7e-4, 1.2e-3)
        small = big / rng.uniform(50.0, 200.0)
        steps = [np.full(ncoarse, big), np.full(nx - 1 - ncoarse, small)]
        if rng.random() < 0.5:
            steps.reverse()
        ll = rng.uniform(3.48, 3.62) + np.concatenate([[0.0], np.cumsum(np.concatenate(steps))])
        if rng.random() < 0.5:
            ll = ll[::-1].copy()
        wave[t] = 10.0 ** ll
    sup = band_support()
    sliver = []
    # every eighth history: integer-valued wavelengths (whole Angstrom, linear in pixel) handed over in an integer
    # type that holds them (fixed within the history: the statement's laws relate calls on ONE wavelength solution)
    intwave = (not piecewise) and idx % 8 == 4
    wdtype = 'float64'
    if intwave:
        cfg = 'img' if (idx // 8) % 2 == 0 else 'img+air'
        toair = cfg.endswith('+air')
        for t in range(nt):
            k = int(rng.integers(2, 21))
            l0 = int(rng.integers(2900, 8001))
            wave[t] = l0 + k * pix
            if rng.random() < 0.3:
                wave[t] = wave[t][::-1].copy()
        wdtype = str(rng.choice([w for w in ('int16', 'uint16', 'int32', 'int64') if wave.max() <= WMAX[w]]))
    for t in range(0 if (piecewise or intwave) else nt):
        if rng.random() < 0.5:
            # SLIVER: the first / last pixels reach only 1..20 A into the edge of one band's response
            bnd = 'ugriz'[int(rng.integers(0, 5))]
            depth = float(rng.choice([1, 1, 2, 2, 3, 3, 4, 5, 7, 10, 15, 20])) * rng.uniform(0.85, 1.15)
            step = rng.uniform(6e-5, 1.5e-4)
            if rng.random() < 0.5:      # spectrum starts just inside the red edge and runs redward
                ll = math.log10(sup[bnd][1] - depth) + step * pix
                sliver.append('%s red %.1f' % (bnd, depth))
            else:                       # spectrum ends just inside the blue edge
                ll = math.log10(sup[bnd][0] + depth) - step * (nx - 1 - pix)
                sliver.append('%s blue %.1f' % (bnd, depth))
            wave[t] = 10.0 ** ll
            if rng.random() < 0.4:
                wave[t] = wave[t][::-1].copy()
            continue
        lo, hi = WAVE_RANGES[int(rng.integers(0, len(WAVE_RANGES)))]
        lo *= 1.0 + 0.01 * rng.uniform(-1, 1)
        l0, l1 = math.log10(lo), math.log10(hi)
        curv = rng.uniform(-0.02, 0.02) * (l1 - l0)
        z = pix / (nx - 1)
        wave[t] = 10.0 ** (l0 + (l1 - l0) * z + curv * z * (1 - z))
        if rng.random() < 0.3:
            wave[t] = wave[t][::-1].copy()       # wavelength decreasing with pixel
    kw = {'toair': toair}
    if cfg.startswith('wset'):
        kw['wset'] = xy2traceset(np.tile(pix, nt).reshape(nt, nx), np.log10(wave), ncoeff=3, maxiter=0)
    else:
        kw['waveimg'] = wave
    # overlap (decided from the table's support): some pixel lies inside the open support, with a guard of 0.3 A
    # at both ends; with toair the air wavelength is 0.6 .. 3.2 A smaller than the vacuum one, so the pixel must be
    # 3.5 A inside the blue end.  Anything closer to an edge than that is not judged.
    overlap = []
    for t in range(nt):
        for b in 'ugriz':
            lo, hi = sup[b]
            inside = ((wave[t] > lo + (3.5 if toair else 0.3)) & (wave[t] < hi - 0.3)).sum()
            overlap.append(bool(inside >= 1))
    # mask: runs of non-zero values, at least two good pixels per trace
    mask = np.zeros((nt, nx), dtype=np.int32)
    for t in range(nt):
        for _ in range(int(rng.integers(1, 6))):
            st = int(rng.integers(0, nx))
            ln = int(rng.integers(1, max(2, nx // 8)))
            mask[t, st:st + ln] = int(rng.choice([1, 2, 255, -1]))
        # masked runs that reach the FIRST / LAST pixel of the trace (length 1..8), where interpolation has only one
        # good neighbour in the trace; with the trace ends inside a band and traces of different levels
        if rng.random() < 0.6:
            mask[t, :int(rng.integers(1, 9))] = int(rng.choice([1, 4, -1]))
        if rng.random() < 0.6:
            mask[t, nx - int(rng.integers(1, 9)):] = int(rng.choice([1, 4, -1]))
        good = np.nonzero(mask[t] == 0)[0]
        if good.size < 2:
            mask[t, nx // 2:nx // 2 + 2] = 0
    m = mask != 0
    # fluxes.  Every third history is on an integer grid (counts): all flux values integral and non-negative, so
    # that every call can hand its flux over in a seed-rotated numeric type (float64 or any integer width that fits)
    intgrid = idx % 3 == 0
    smooth = 2.0 + np.sin(np.outer(rng.uniform(0.5, 3.0, nt), pix / nx * 6.0) + rng.uniform(0, 6, (nt, 1)))
    x = smooth * rng.uniform(0.5, 20.0) + rng.normal(0, 0.3, (nt, nx)) + rng.choice([0.0, -5.0])
    y = rng.uniform(-3.0, 8.0, (nt, nx))
    # every trace has its own level: a constant spectrum is constant PER TRACE (c_t); x and y differ by factors too
    level = rng.permutation([1.0, 6.0, 0.2])[:nt]
    x = x * level[:, None]
    y = y * level[::-1][:, None]
    a, b = int(rng.choice([1, 2, 3, -1])), int(rng.choice([1, -2, 5]))
    zf = a * x + b * y
    cvals = float(rng.choice([1.0, 3.7, -2.25, 1e-17 * rng.uniform(1, 9), 12345.678])) * level
    cf = np.repeat(cvals[:, None], nx, axis=1)
    xm = x.copy()
    garbage = rng.choice(['big', 'nan', 'rand'])
    xm[m] = {'big': 1e30, 'nan': np.nan, 'rand': 0.0}[garbage]
    if garbage == 'rand':
        xm[m] = rng.uniform(-1e6, 1e6, int(m.sum()))
    if intgrid:
        x = np.clip(np.rint(smooth * rng.uniform(5.0, 60.0) + rng.normal(0, 3.0, (nt, nx))), 0, 200)
        x = np.rint(x * rng.permutation([1.0, 0.5, 0.1])[:nt][:, None])
        y = rng.integers(0, 51, (nt, nx)).astype(float)
        a, b = int(rng.choice([1, 2, 3])), int(rng.choice([1, 5]))
        zf = a * x + b * y
        cvals = rng.permutation([1.0, 3.0, 7.0, 200.0])[:nt]
        cf = np.repeat(cvals[:, None], nx, axis=1)
        xm = x.copy()
        garbage = rng.choice(['big', 'rand'])
        xm[m] = 255.0 if garbage == 'big' else rng.integers(0, 256, int(m.sum())).astype(float)
    fl = [x, y, zf, cf, xm]
    # indicator-like fluxes (piecewise solutions only): h on a window, 0 elsewhere; the windows partition the
    # spectrum (16 narrow, 2 wide), two complements, two sums of neighbouring windows
    ind = []
    lin = [{'z': 3, 'a': a, 'x': 1, 'b': b, 'y': 2}]
    hval = float(rng.choice([1.0, 3.0, 0.25] if not intgrid else [1.0, 3.0]))
    if piecewise:
        def window(lo_, hi_):
            w = np.zeros((nt, nx))
            w[:, lo_:hi_] = hval
            return w
        K = 16
        narrow = [window(j * nx // K, (j + 1) * nx // K) for j in range(K)]
        ind = narrow + [window(0, nx // 2), window(nx // 2, nx)]
        for j in rng.choice(K, 2, replace=False):
            ind.append(hval - narrow[int(j)])
        for j in rng.choice(K - 1, 2, replace=False):
            ind.append(narrow[int(j)] + narrow[int(j) + 1])
            lin.append({'z': 5 + len(ind), 'a': 1, 'x': 5 + int(j) + 1, 'b': 1, 'y': 5 + int(j) + 2})
    fluxes_meta = []
    results = []          # list of (nt, 5) arrays: every "result value" of the history

    def add_result(arr):
        results.append(np.asarray(arr, dtype=float).reshape(nt, 5))
        return len(results)

    for k, f in enumerate(fl):
        gm = [f[t][~m[t]] for t in range(nt)]
        if k == 4:
            allp = gm           # xm is only ever passed together with the mask
        else:
            allp = [f[t] for t in range(nt)]
        meta = {'const': k == 3,
                'cres': add_result(np.repeat(cvals[:, None], 5, axis=1)) if k == 3 else 0,
                'lo': add_result(np.repeat([[v.min()] for v in allp], 5, axis=1)),
                'hi': add_result(np.repeat([[v.max()] for v in allp], 5, axis=1)),
                'mlo': add_result(np.repeat([[v.min()] for v in gm], 5, axis=1)),
                'mhi': add_result(np.repeat([[v.max()] for v in gm], 5, axis=1))}
        fluxes_meta.append(meta)
    if ind:
        r0, rh = add_result(np.zeros((nt, 5))), add_result(np.full((nt, 5), hval))
        for w in ind:           # every indicator-like flux has min 0 and max h in every trace
            fluxes_meta.append({'const': False, 'cres': 0, 'lo': r0, 'hi': rh, 'mlo': r0, 'mhi': rh})
    scale = np.array([max([np.abs(f[t][~m[t]]).max() for f in fl] + ([hval] if ind else [])) for t in range(nt)])
    scale = np.where(scale > 0, scale, 1.0)
    calls = []
    res_of = {}
    for masked in (False, True):
        for k, f in enumerate(fl + ind):
            if (k == 4 and not masked) or (k > 4 and masked):
                continue
            # the same values in seed-rotated memory layouts (flux image, wavelength image, mask)
            lf, lw, lm = (str(v) for v in rng.choice(AB_LAYOUTS, 3))
            # ... and numeric types: integral fluxes in float64 or any integer width that holds them; the mask in any
            # integer type or bool (non-zero = masked)
            ftype = 'float64'
            if intgrid and f.min() >= 0:
                ftype = str(rng.choice(['float64'] + [w for w in WIDTHS if f.max() <= WMAX[w]]))
            mtype = str(rng.choice(['int32', 'int64', 'int16', 'uint8', 'int8', 'bool']))
            arg = lay(f.astype(np.dtype(ftype)), lf, fill=0)
            kwc = dict(kw)
            if 'waveimg' in kwc:
                kwc['waveimg'] = lay(wave.astype(np.dtype(wdtype)), lw, fill=5000)
            marg = mask if mtype in ('int32', 'int64') else (mask != 0)
            call = {'flux': k + 1, 'masked': masked, 'raised': False, 'shapeok': True, 'res': 1, 'exc': '',
                    'layout': [lf, lw if 'waveimg' in kwc else 'wset', lm if masked else 'none'],
                    'ntype': [ftype, wdtype if 'waveimg' in kwc else 'wset', mtype if masked else 'none']}
            try:
                r = filter_thru(arg, mask=(lay(marg.astype(np.dtype(mtype)), lm, fill=0) if masked else None), **kwc)
                r = np.asarray(r, dtype=float)
                if r.shape != (nt, 5):
                    call['shapeok'] = False
                    call['exc'] = 'shape %r' % (r.shape,)
                else:
                    call['res'] = add_result(r)
                    res_of[(k, masked)] = call['res']
            except Exception as ex:
                call['raised'] = True
                call['exc'] = type(ex).__name__ + ': ' + str(ex)[:120]
            calls.append(call)
    combs = []
    for masked in (False, True):
        for l in lin:
            kx, ky = (l['x'] - 1, masked), (l['y'] - 1, masked)
            if kx in res_of and ky in res_of:
                rx, ry = res_of[kx], res_of[ky]
                combs.append({'a': l['a'], 'x': rx, 'b': l['b'], 'y': ry,
                              'val': add_result(l['a'] * results[rx - 1] + l['b'] * results[ry - 1])})
    nr = len(results)
    nq = nt * 5
    d = [[[0] * nq for _ in range(nr)] for _ in range(nr)]
    s = [[[0] * nq for _ in range(nr)] for _ in range(nr)]
    for i in range(nr):
        for j in range(nr):
            for t in range(nt):
                for bb in range(5):
                    d[i][j][t * 5 + bb], s[i][j][t * 5 + bb] = du(float(results[i][t, bb]), float(results[j][t, bb]),
                                                                  float(scale[t]) * 1e-12)
    return {'type': 'filter', 'gen': {'type': 'filter', 'idx': idx, 'seed': seed}, 'cfg': cfg, 'nt': nt, 'nx': nx, 'garbage': str(garbage),
            'nq': nq, 'overlap': overlap, 'fluxes': fluxes_meta,
            'piecewise': bool(piecewise), 'sliver': sliver, 'intgrid': bool(intgrid), 'intwave': wdtype, 'lin': lin, 'meq': [{'x': 1, 'y': 5}],
            'calls': calls, 'combs': combs, 'd': d, 's': s}


GEN = {'wave': gen_wave_history, 'ab': gen_ab_history, 'filter': gen_filter_history}

# average number of instances per history that a healthy run triggers at the very least (non-vacuity floor)
MIN_PER_HISTORY = {
    'wave': {'NoRaise': 8, 'InputKept': 8, 'AnswerForm': 4, 'Unchanged': 1, 'VacuumAboveAir': 3, 'AtGuard': 0,
             'AirVacAir': 1, 'VacAirVac': 1, 'KindInvariance': 2},
    'ab': {'ABAnswers': 1, 'ABOffset': 3},
    'filter': {'FilterAnswers': 9, 'Linear': 2, 'ConstantInConstantOut': 2, 'WithinMinMax': 9, 'MaskedPixelsIrrelevant': 1},
}


def judge(ctx, hists, label, floors=True):
    """Hand histories to Trace_FluxConv (one TLC run); returns ({index: why}, {law: instances})."""
    mins = {}
    for h in hists:
        for law, k in MIN_PER_HISTORY[h['type']].items():
            mins[law] = mins.get(law, 0) + (k if floors else 0)
    path = os.path.join(ctx.scratch, 'hist_%s.json' % label)
    with open(path, 'w') as fh:
        json.dump({'min': mins, 'hist': hists}, fh)
    r = ctx.tlc('Trace_FluxConv.tla', 'Trace_FluxConv.cfg', dump=True, env={'VERIF_TRACE': path}, count=False,
                label='Trace_FluxConv[%s:%d]' % (label, len(hists)), timeout=1200)
    bad, totals, seen = {}, {}, 0
    for st in core.iter_states(r):
        if st['i'] == 0:
            continue              # the initial state judges nothing
        seen += 1
        if st['i'] == len(hists):
            totals = dict(st['tot'])          # TLC's own running totals, final state
        if not st['ok']:
            bad[st['i'] - 1] = sorted((w[0], tuple(w[1])) for w in st['why'])
    if seen != len(hists):
        raise core.MachineryError('Trace_FluxConv judged %d of %d histories' % (seen, len(hists)))
    os.remove(path)
    return bad, totals


def _set(h, key, i, j, q, val):
    if q is None:
        h[key][i - 1][j - 1] = val
        h[key][j - 1][i - 1] = val
    else:
        h[key][i - 1][j - 1][q - 1] = val
        h[key][j - 1][i - 1][q - 1] = val


def falsify(h, k):
    """Binding self-test: a copy of an ACCEPTED history in which ONE observed field is falsified beyond tolerance
    (a discrepancy, a sign, a status flag, an answer form).  Returns (history, what) or None if nothing applies."""
    h2 = json.loads(json.dumps(h))
    if h['type'] == 'ab':
        if not h2['obs']:
            return None
        o = h2['obs'][k % len(h2['obs'])]
        if k % 2:
            o['shift'] += 1
            return h2, 'ab-shift+1'
        o['resid'] = 5000
        return h2, 'ab-resid'
    if h['type'] == 'wave':
        calls = h2['calls']
        good = [j for j, e in enumerate(calls) if not e['raised'] and len(e['res']) == len(e['arg'])]
        cls = [v['cls'] for v in h2['vals']]
        for mode in [(k + t) % 6 for t in range(6)]:
            if mode == 0 and calls:
                calls[k % len(calls)]['kept'] = False
                return h2, 'wave-input-modified'
            if mode == 1 and good:
                e = calls[good[k % len(good)]]
                e['form'] = dict(e['form'], unit='um' if e['form']['unit'] != 'um' else 'A')
                return h2, 'wave-answer-unit'
            if mode == 2:
                cand = [(j, p) for j in good for p in range(len(calls[j]['arg'])) if cls[calls[j]['arg'][p] - 1] != 'at']
                if cand:
                    j, p = cand[k % len(cand)]
                    a, r = calls[j]['arg'][p], calls[j]['res'][p]
                    if cls[a - 1] == 'below':
                        _set(h2, 'd', a, r, None, 5000)
                        h2['s'][a - 1][r - 1] = 1
                    else:
                        h2['s'][a - 1][r - 1] = -h2['s'][a - 1][r - 1]
                    return h2, 'wave-element-relation'
            if mode == 3:
                cand = []
                for j in good:
                    if j + 1 in good and calls[j + 1]['arg'] == calls[j]['res'] and calls[j + 1]['fn'] != calls[j]['fn']:
                        for p in range(len(calls[j]['arg'])):
                            v = calls[j]['arg'][p] if calls[j]['fn'] == 'airtovac' else calls[j]['res'][p]
                            if cls[v - 1] == 'above':
                                cand.append((j, p))
                if cand:
                    j, p = cand[k % len(cand)]
                    _set(h2, 'd', calls[j]['arg'][p], calls[j + 1]['res'][p], None, CAP)
                    return h2, 'wave-round-trip'
            if mode == 4:
                cand = []
                for i in good:
                    for j in good:
                        if i < j and calls[i]['fn'] == calls[j]['fn']:
                            for p1, v in enumerate(calls[i]['arg']):
                                if cls[v - 1] != 'at' and v in calls[j]['arg']:
                                    cand.append((i, j, p1, calls[j]['arg'].index(v)))
                if cand:
                    i, j, p1, p2 = cand[k % len(cand)]
                    _set(h2, 'd', calls[i]['res'][p1], calls[j]['res'][p2], None, CAP)
                    return h2, 'wave-kind-invariance'
            if mode == 5 and calls:
                calls[k % len(calls)]['raised'] = True
                return h2, 'wave-raised'
        return None
    # filter
    calls = h2['calls']
    good = [j for j, e in enumerate(calls) if not e['raised'] and e['shapeok']]
    slots = [q + 1 for q, o in enumerate(h2['overlap']) if o]
    for mode in [(k + t) % 5 for t in range(5)]:
        if mode == 4 and calls:
            calls[k % len(calls)]['shapeok'] = False
            return h2, 'filter-shape'
        if not slots or not good:
            continue
        q = slots[k % len(slots)]
        if mode == 0:
            cand = [j for j in good if h2['fluxes'][calls[j]['flux'] - 1]['const']]
            if cand:
                e = calls[cand[k % len(cand)]]
                _set(h2, 'd', e['res'], h2['fluxes'][e['flux'] - 1]['cres'], q, CAP)
                return h2, 'filter-constant'
        if mode == 1:
            e = calls[good[k % len(good)]]
            lo = h2['fluxes'][e['flux'] - 1]['mlo' if e['masked'] else 'lo']
            _set(h2, 'd', lo, e['res'], q, CAP)
            h2['s'][lo - 1][e['res'] - 1][q - 1] = -1
            return h2, 'filter-below-min'
        if mode == 2:
            r = {calls[j]['flux']: calls[j]['res'] for j in good if calls[j]['masked']}
            if all(f in r for f in (h2['meq'][0]['x'], h2['meq'][0]['y'])):
                _set(h2, 'd', r[h2['meq'][0]['x']], r[h2['meq'][0]['y']], q, CAP)
                return h2, 'filter-masked-pixels'
        if mode == 3:
            l = h2['lin'][0]
            r = {calls[j]['flux']: calls[j]['res'] for j in good if not calls[j]['masked']}
            cb = [c for c in h2['combs'] if l['x'] in r and l['y'] in r and c['x'] == r[l['x']] and c['y'] == r[l['y']]]
            if l['z'] in r and cb:
                _set(h2, 'd', r[l['z']], cb[0]['val'], q, CAP)
                return h2, 'filter-linear'
    return None


def binding_selftest(ctx, accepted, n):
    """Non-vacuity of Trace_FluxConv (the equivalent of core.binding_selftest for this module's {min, hist} trace
    format): every falsified history must be rejected, else MachineryError (exit 2)."""
    fals, whats = [], {}
    for k, h in enumerate(accepted):
        if len(fals) >= n:
            break
        f = falsify(h, k)
        if f is not None:
            fals.append(f[0])
            whats[f[1]] = whats.get(f[1], 0) + 1
    if not fals:
        raise core.MachineryError('binding self-test of Trace_FluxConv: nothing to falsify')
    bad, _ = judge(ctx, fals, 'selftest', floors=False)
    missed = [k for k in range(len(fals)) if k not in bad]
    ctx.cov['parts']['selftest_histories'] = {'corrupted_records': len(fals), 'rejected': len(bad), 'by_field': whats}
    if missed:
        h = fals[missed[0]]
        raise core.MachineryError('binding self-test of Trace_FluxConv: %d of %d falsified histories were accepted, e.g. %s' % (
            len(missed), len(fals), {k: v for k, v in h.items() if k not in ('d', 's', 'vals')}))


def describe(h, law, wit):
    """Human-readable account of one failing law instance (wit = TLC's witness tuple, 1-based)."""
    try:
        if h['type'] == 'wave':
            e = h['calls'][wit[0] - 1]
            arg = [h['lams'][v - 1] for v in e['arg']]
            s = '%s(%s%s%s %s)' % (e['fn'], e['kind'], '' if e.get('layout', 'plain') == 'plain' else '/' + e['layout'],
                                   '' if e.get('width', 'na') == 'na' else '/' + e['width'], arg)
            if e['raised']:
                return s + ' raised ' + e['exc']
            s += ' -> %s' % [h['lams'][v - 1] for v in e['res']]
            if law in ('AirVacAir', 'VacAirVac', 'KindInvariance'):
                e2 = h['calls'][wit[1] - 1]
                s += ' ; %s(%s %s) -> %s' % (e2['fn'], e2['kind'], [h['lams'][v - 1] for v in e2['arg']],
                                            [h['lams'][v - 1] for v in e2['res']])
            return s + ' instance %s' % (wit,)
        if h['type'] == 'ab':
            if law == 'ABAnswers':
                return 'sdssflux2ab layout=%s ntype=%s form=%s: %s' % (h.get('layout'), h.get('ntype'), h['form'], h['exc'])
            o = h['obs'][wit[0] - 1]
            return 'sdssflux2ab layout=%s form=%s band=%d measured shift %s milli-mag (resid %s nano-mag) %s' % (
                h.get('layout'), o['form'], o['band'], o['shift'], o['resid'], h['exc'])
        return 'filter_thru cfg=%s%s%s%s nt=%d nx=%d garbage=%s instance %s calls=%s' % (
            h['cfg'], ' integer-fluxes' if h.get('intgrid') else '', '' if h.get('intwave', 'float64') == 'float64' else ' waveimg:' + h['intwave'], ' piecewise-sampled' if h.get('piecewise') else (' sliver ' + '/'.join(h['sliver']) if h.get('sliver') else ''),
            h['nt'], h['nx'], h['garbage'], wit,
            [(c['flux'], c['masked'], c['exc']) for c in h['calls'] if c['exc']] or '')
    except Exception as ex:      # description only
        return 'instance %s (%s)' % (wit, ex)


def hist_finding(h, law, wit):
    if h['type'] == 'filter' and law != 'FilterAnswers':
        # D-C19-2: an instance that involves a call whose flux image had an integer dtype
        idx = {'ConstantInConstantOut': wit[:1], 'WithinMinMax': wit[:1], 'Linear': wit[1:4], 'MaskedPixelsIrrelevant': wit[1:3]}[law]
        if any(h['calls'][j - 1].get('ntype', ['float64'])[0] != 'float64' for j in idx):
            return 'D-C19-2'
    if h['type'] == 'wave' and law == 'NoRaise':
        e = h['calls'][wit[0] - 1]
        return classify(e['kind'], h['vals'][e['arg'][0] - 1]['cls'], e['exc'])
    return None


def report_histories(ctx, hists, bad, reported):
    for k in sorted(bad):
        h = hists[k]
        for law, wit in bad[k]:
            key = (h['type'], law, hist_finding(h, law, wit))
            reported[key] = reported.get(key, 0) + 1
            if reported[key] > 4:
                continue          # same law, same explanation: four replay files are enough
            ctx.violation({'what': 'history %s#%d rejected by Trace_FluxConv, law %s: %s' % (
                h['type'], h['gen']['idx'], law, describe(h, law, wit)),
                'gen': h['gen'], 'law': law, 'witness': list(wit)}, finding=hist_finding(h, law, wit))


# ------------------------------------------------------------------ run
def run(ctx):
    core.import_pydl()
    ctx.level = 'other'
    ctx.explanation = (
        'Exact (TLC): input-kind dispatch, answer form and the 2000 A guard of airtovac/vactoair as a function of '
        '(kind, class pattern); AB offsets as integers in milli-mag and the ties between the three forms; the LAWS '
        '(quantification over recorded call histories, which instances are triggered, minimum instance counts). '
        'Harness judgements (floating point, not TLA+): the classification of a wavelength as below/at/above 2000 A, '
        'the relation identical/equal/greater/less of two floats, every discrepancy |x-y| (logged as an integer in '
        'units of 1e-9 A, i.e. 1/1000 of the stated 1e-6 A; for filter_thru in units of 1e-12 of the trace flux '
        'scale; for sdssflux2ab in 1e-9 mag), the linear combinations a*f(x)+b*f(y), per-trace min/max of a flux, and '
        'whether a trace overlaps a band (>= 3 pixels strictly inside the tabulated positive response). Tolerances '
        'for filter_thru (1e-9 relative) and sdssflux2ab (1e-8 mag) are the harness\'s: the statement gives none.')
    ctx.rule = ('MC_FluxConv state = one call (fn, kind, guard-class pattern) or one AB case (form, band, level), each '
                'replayed with several concrete wavelength draws; non-trivial = distinct (fn, kind, pattern) with an '
                'element at/above the guard, AB cases with level != 0, and recorded histories that triggered a law '
                'relating two calls; recorded = seeded histories judged by Trace_FluxConv')
    ctx.assumptions = ['element types: float64, integer (Python int; numpy scalars, 0-d and 1-d arrays and Quantity sources of width '
                       'int64/int32/int16/uint16/uint8 as the wavelengths fit - a wavelength >= 2000 A never fits 8 bits; '
                       'exact inputs, full 1e-6 A tolerance) and float32 (answers compared to the float64 answer within 8 float32 '
                       'ulps: a single-precision input cannot hold 1e-6 A at 5000 A; the answer may be float32 or float64)',
                       'nm / um callers: wavelengths within 1e-9 A of 2000 A count as "at the guard" (open in the statement)',
                       'memory layouts (read-only via setflags / frombuffer, every-second-element views, byte-swapped, transposed '
                       'Fortran-ordered 2-d views) are rotated by seed over array arguments of all four functions; Quantity arguments '
                       'only read-only and strided; quick replays a seed-rotated quarter of the non-plain / non-64-bit MC states',
                       'sdssflux2ab with an integer-typed array (integral magnitudes / fluxes): the offsets are not integral; a clear '
                       'TypeError (what pydl raises: in-place float arithmetic on an integer copy) or a floating-point answer with the '
                       'right offset are both accepted, a truncated answer is not (the statement does not say which)',
                       'filter_thru numeric types: integral fluxes are handed over per call as float64 or any fitting integer width, '
                       'masks as int8..int64 / uint8 / bool; integer-valued wavelength images (int16/uint16/int32/int64) keep ONE type '
                       'within a history, because the statement relates calls on one wavelength solution (observed, not judged: '
                       'int16/uint16 wavelength images make log10 run in float32, band fluxes then differ by ~3e-8 relative from '
                       'those of the float64 image of the same values)',
                       'filter_thru: every trace keeps >= 2 unmasked pixels; laws demanded only in bands the trace overlaps: some pixel '
                       'inside the open support of the tabulated response (last tabulated zero before / first after the positive '
                       'samples) with a 0.3 A guard (3.5 A at the blue end with toair); sliver overlaps of 1-20 A are included; '
                       'wavelength solutions: log-lambda quadratic in pixel (image or trace set), or two log-linear pieces with steps '
                       'a factor 50-200 apart (image only; a 3-coefficient trace set cannot represent them), both directions; '
                       'flux dtype float64; indicator-like fluxes (16 narrow + 2 wide windows, complements, sums) on the latter',
                       'WithinMinMax under a mask is judged against min/max of the unmasked pixels of the trace']
    rng = random.Random(ctx.seed)
    cfg = 'MC_FluxConv_quick.cfg' if ctx.quick else 'MC_FluxConv_thorough.cfg'
    r = ctx.tlc('MC_FluxConv.tla', cfg, dump=True, timeout=900)
    reps = 2 if ctx.quick else 5
    nstate = 0
    raised_seen = {}
    nviol_m2 = [0]
    skipped_layout = [0]
    for st in core.iter_states(r):
        c, exp = st['c'], st['exp']
        nstate += 1
        if c['type'] == 'ab':
            bad = run_ab_case(c, exp)
            ctx.evaluated(2, 'replay-ab')
            ctx.validated()
            if c['m0'] != 0:
                ctx.nontriv(('ab', c['form'], c['band'], c['m0']))
            if nstate % 200 == 1 or (c['form'] == 'ivar' and c['band'] == 1 and c['m0'] == 22500):
                ctx.sample({'ab_case': c, 'expected': exp, 'mismatches': bad})
            if bad:
                ctx.violation({'what': 'sdssflux2ab %s: %s' % (c, '; '.join(bad)[:200]), 'abcase': c, 'expected': exp})
            continue
        c['pat'] = list(c['pat'])
        exp = {'raises': exp['raises'], 'form': exp['form'], 'len': exp['len'], 'precision': exp['precision'],
               'allowed': [sorted(a) for a in exp['allowed']]}
        if any(p != 'below' for p in c['pat']):
            ctx.nontriv((c['fn'], c['kind'], tuple(c['pat']), c['layout'], c['width']))
        nrep = reps
        if c['layout'] != 'plain' or c['width'] not in ('na', 'int64'):
            # same values, other memory layout / integer width: one draw; quick replays a seed-rotated quarter of these states
            nrep = 1
            if ctx.quick and (zlib.crc32(repr(sorted(c.items())).encode()) + ctx.seed) % 4:
                skipped_layout[0] += 1
                continue
        for rep in range(nrep):
            lams = [class_value(rng, cls, unit_of(c['kind']) == 'A', numtype(c['kind']), WMAX[c['width']]) for cls in c['pat']]
            bad, o = run_wave_case(c, exp, lams)
            ctx.evaluated(2 + 2 * len(lams), 'replay-wave')
            ctx.validated()
            if rep == 0 and nstate % 250 == 3:
                ctx.sample({'call': c, 'lams': lams, 'expected': exp, 'observed': {k: o[k] for k in ('raised', 'form', 'vals', 'kept')}})
            if bad:
                f = classify(c['kind'], c['pat'][0], o['exc']) if o['raised'] else None
                key = (c['fn'], c['kind'], tuple(c['pat']), c['layout'], c['width'], f)
                key2 = (c['fn'], c['kind'], f, bad[0].split()[0])
                raised_seen[key] = raised_seen.get(key, 0) + 1
                raised_seen[key2] = raised_seen.get(key2, 0) + 1
                nviol_m2[0] += 1
                if raised_seen[key] > 1 or raised_seen[key2] > 2:
                    continue          # same case / same kind and symptom: a few replay files are enough
                ctx.violation({'what': '%s(%s/%s/%s %s) pattern %s: %s' % (c['fn'], c['kind'], c['layout'], c['width'], ['%.17g' % v for v in lams],
                                                                      c['pat'], '; '.join(bad)[:220]),
                               'call': c, 'lams': ['%.17g' % v for v in lams], 'expected': exp}, finding=f)
    if skipped_layout[0]:
        ctx.sample({'non_plain_layout_states_not_replayed_in_quick (seed-rotated 3/4)': skipped_layout[0]}, limit=99)
    if nviol_m2[0]:
        ctx.sample({'replayed_wave_draws_not_conforming': nviol_m2[0]}, limit=99)
    # ---- code -> spec --------------------------------------------------------------------
    nwave, nab, nfilt = (150, 44, 24) if ctx.quick else (1400, 300, 260)
    reported = {}
    totals = {}
    accepted = {'wave': [], 'ab': [], 'filter': []}

    want = {'wave': 60, 'ab': 44, 'filter': 10} if ctx.quick else {'wave': 150, 'ab': 60, 'filter': 40}
    sampled = set()

    def process(hs, label):
        bad, tot = judge(ctx, hs, label)
        for law, k in tot.items():
            totals[law] = totals.get(law, 0) + k
        for j, h in enumerate(hs):
            kind = h['type']
            if j not in bad and len(accepted[kind]) < want[kind]:
                accepted[kind].append(h)
            ctx.validated(len(h.get('calls', [1])))
            ctx.nontriv((kind, h['gen']['idx']))
            if kind not in sampled:
                sampled.add(kind)
                ctx.sample({'history': {k: v for k, v in h.items() if k not in ('d', 's')} if kind != 'filter'
                            else {k: v for k, v in h.items() if k in ('cfg', 'nt', 'nx', 'sliver', 'intgrid', 'intwave', 'overlap',
                                                                      'calls', 'lin', 'meq')}})
        for kind in ('wave', 'ab', 'filter'):
            laws = MIN_PER_HISTORY[kind]
            if any(h['type'] == kind for h in hs):
                ctx.evaluated(sum(tot.get(law, 0) for law in laws), 'law-instances-' + kind)
        report_histories(ctx, hs, bad, reported)

    def batch(kind, n, chunk):
        for base in range(0, n, chunk):
            process([GEN[kind](ctx.seed, k) for k in range(base, min(n, base + chunk))], '%s%d' % (kind, base))

    if ctx.quick:       # one TLC run for all recorded histories
        process([GEN[kind](ctx.seed, k) for kind, n in (('wave', nwave), ('ab', nab), ('filter', nfilt)) for k in range(n)], 'all')
    else:
        batch('wave', nwave, 400)
        batch('ab', nab, 1000)
        batch('filter', nfilt, 40)
    ctx.sample({'law_instances_judged_by_TLC': totals}, limit=99)
    pool = accepted['wave'] + accepted['ab'] + accepted['filter']
    binding_selftest(ctx, pool, len(pool))
    ctx.exhaustive = False


def replay(ctx, case):
    """bin/check C19 --replay <file>: re-run the single failing case of a replay file."""
    core.import_pydl()
    ctx.level = 'other'
    ctx.rule = 'single replayed case'
    ctx.explanation = 'replay of one case; see run()'
    ctx.nontriv('a')
    ctx.nontriv('b')
    if 'call' in case:
        c, exp = case['call'], case['expected']
        lams = [float(v) for v in case['lams']]
        bad, o = run_wave_case(c, exp, lams)
        print('replayed', c, lams, '\nobserved', {k: o[k] for k in ('raised', 'exc', 'form', 'vals', 'kept')}, '\nmismatches', bad)
        ctx.evaluated(1)
        ctx.validated()
        if bad:
            ctx.violation(case, finding=classify(c['kind'], c['pat'][0], o['exc']) if o['raised'] else None)
    elif 'abcase' in case:
        bad = run_ab_case(case['abcase'], case['expected'])
        print('replayed', case['abcase'], 'mismatches', bad)
        ctx.evaluated(1)
        ctx.validated()
        if bad:
            ctx.violation(case)
    else:
        g = case['gen']
        h = GEN[g['type']](g.get('seed', ctx.seed), g['idx'])
        # a single history cannot meet the batch's non-vacuity floor: judge it with floor 0
        saved = {k: dict(v) for k, v in MIN_PER_HISTORY.items()}
        for v in MIN_PER_HISTORY.values():
            for k in v:
                v[k] = 0
        try:
            bad, tot = judge(ctx, [h], 'replay')
        finally:
            MIN_PER_HISTORY.update(saved)
        print('replayed history', g, 'instances', tot, 'rejected' if bad else 'accepted', bad.get(0, ''))
        ctx.evaluated(sum(tot.values()))
        ctx.validated(len(h.get('calls', [1])))
        for law, wit in bad.get(0, []):
            if law == case.get('law'):
                print('  law %s: %s' % (law, describe(h, law, wit)))
                ctx.violation(case, finding=hist_finding(h, law, wit))
            else:
                ctx.violation({'what': 'history %s#%d law %s: %s' % (g['type'], g['idx'], law, describe(h, law, wit)),
                               'gen': g, 'law': law, 'witness': list(wit)}, finding=hist_finding(h, law, wit))
