"""X06 - Mangle polygon objects: construction, areas, polygon algebra (growth unit).
Spec: spec/MangleGeom.tla (statements S1..S12 in its header; reuses Mangle.tla of C12); MC: mc/MC_MangleGeom;
Trace: trace/Trace_MangleGeom.

spec -> code: every non-seed state of MC_MangleGeom is one object / call c with the outcome exp the specification
demands.  It is concretised (rationals -> floats, caps -> arrays in a rotating memory layout / dtype, FITS rows
written to a real file and read back), executed on the real code, the result abstracted (floats -> exact rationals,
areas -> rational multiples of pi) and compared with exp.
code -> spec: seeded random rational geometry is pushed through the same functions first, the calls are recorded
(arguments + abstracted result) and Trace_MangleGeom (TLC) judges them; polygons whose area the spec cannot compute
are compared by the harness with an independent quadrature and TLC judges the measured discrepancy.
Python only concretises and abstracts; every expected value is TLC's.
"""
import math
import os
import random
import re
import warnings
from fractions import Fraction

import numpy as np

from .. import core
from . import c12 as g      # concretisers shared with C12 (same polygon value shape)

FINDINGS = {
    'D-X06-1': 'add_caps / polyn keep the old use_caps: the appended caps are unused and the result is not the intersection',
    'D-X06-2': 'gzeroar (and garea of >= 2 used caps through it) counts caps that use_caps switches off',
    'D-X06-3': 'the whole-sky polygon ManglePolygon() holds x = cm = None: copy(), ManglePolygon(p), add_caps, polyn raise AttributeError',
    'D-X06-4': 'add_caps stores appended caps with the dtype of the old caps: integer-typed polygons truncate them',
    'D-X06-6': 'cmminf returns -1 when every used cap is a full-sphere cap (cm = 2)',
}
MAX_PER_CLASS = 5
PI = math.pi


# ---------------------------------------------------------------- abstraction (real value -> spec value)
def absq(v, maxden=10 ** 6):
    """float -> (n, d) when v is exactly the correctly rounded n/d, else None"""
    v = float(v)
    if not math.isfinite(v):
        return None
    f = Fraction(v).limit_denominator(maxden)
    return (f.numerator, f.denominator) if f.numerator / f.denominator == v else None


def absarea(v, rel=1e-12):
    """area -> (close, (n, d)) with v ~ n/d * pi (rel: 1e-12, or 5e-7 for a float32-typed polygon)"""
    try:
        v = float(v)
    except (TypeError, ValueError):
        return False, (0, 1)
    if not math.isfinite(v):
        return False, (0, 1)
    f = Fraction(v / PI).limit_denominator(10 ** 4)
    close = abs(v - f.numerator / f.denominator * PI) <= rel * max(1.0, abs(v))
    return close, (f.numerator, f.denominator)


def abscaps(P):
    """caps of a real polygon as the spec's sequence of [x, cm], or a string saying what is wrong"""
    n = P.ncaps
    if n == 0 and (P.x is None or P.cm is None):
        return ()
    x, cm = np.asarray(P.x), np.asarray(P.cm)
    if x.shape != (n, 3) or cm.shape != (n,):
        return 'shapes %r %r for ncaps %r' % (x.shape, cm.shape, n)
    out = []
    for k in range(n):
        q = [absq(x[k, j]) for j in range(3)] + [absq(cm[k])]
        if any(t is None for t in q):
            return 'cap %d holds %r %r' % (k, x[k].tolist(), float(cm[k]))
        out.append({'x': tuple(q[:3]), 'cm': q[3]})
    return tuple(out)


def J(v):
    if isinstance(v, dict):
        return {str(k): J(x) for k, x in v.items()}
    if isinstance(v, (set, frozenset)):
        return sorted((J(x) for x in v), key=repr)
    if isinstance(v, (list, tuple)):
        return [J(x) for x in v]
    if isinstance(v, (np.bool_,)):
        return bool(v)
    if isinstance(v, np.integer):
        return int(v)
    if isinstance(v, np.floating):
        return float(v)
    return v


def exc_name(ex):
    return '%s: %s' % (type(ex).__name__, str(ex)[:100])


# ---------------------------------------------------------------- concretisation
NLAY = 8


def integral(caps):
    return all(t[1] == 1 for cp in caps for t in list(cp['x']) + [cp['cm']])


def dyadic(caps):
    return all((t[1] & (t[1] - 1)) == 0 and t[1] <= 1024 and abs(t[0]) < 2 ** 20 for cp in caps for t in list(cp['x']) + [cp['cm']])


def cap_arrays(caps, lay):
    """(x, cm, effective layout): the VALUES of the caps in a memory layout / dtype; 0..5 as c12.lay_arr,
    6 integer-typed (only when every value is an integer), 7 float32 (only when exactly representable)"""
    n = len(caps)
    x = np.array([g.vec(cp['x']) for cp in caps], dtype=np.float64).reshape((n, 3))
    cm = np.array([g.fl(cp['cm']) for cp in caps], dtype=np.float64).reshape((n,))
    if lay == 6:
        if integral(caps) and n > 0:
            return x.astype(np.int64), cm.astype(np.int64), 6
        lay = 2
    if lay == 7:
        if dyadic(caps) and n > 0:
            return x.astype(np.float32), cm.astype(np.float32), 7
        lay = 4
    return g.lay_arr(x, lay), g.lay_arr(cm, lay), lay


def clobber(*arrays):
    """overwrite the caller's arrays (when writable): the polygon must not notice"""
    for a in arrays:
        if isinstance(a, np.ndarray) and a.flags.writeable and a.size:
            a[...] = 9


def build_kw(poly, kw, usegiven, lay, rot=0):
    """route "kw": ManglePolygon(x=, cm=, ...); returns (polygon, caller arrays)"""
    from pydl.pydlutils.mangle import ManglePolygon
    x, cm, lay = cap_arrays(poly['caps'], lay)
    args = {'x': x, 'cm': cm}
    if usegiven:
        m = g.mask_int(poly['use'])
        args['use_caps'] = [m, np.uint32(m), np.int64(m)][rot % 3] if m < 2 ** 31 else m
    if kw['weight']:
        w = g.fl(kw['weight'][0])
        args['weight'] = [w, np.float32(w), int(w) if w == int(w) else w][rot % 3]
    if kw['pixel']:
        args['pixel'] = [kw['pixel'][0], np.int32(kw['pixel'][0])][rot % 2]
    if kw['id']:
        args['id'] = [kw['id'][0], np.int64(kw['id'][0])][rot % 2]
    if kw['str']:
        args['str'] = g.fl(kw['str'][0])
    return ManglePolygon(**args), (x, cm)


_NFILE = [0]


def fits_table(ctx, rows, noid, width):
    """Write rows (list of (poly, kw)) as one FITS polygon table, padded to `width` caps; returns the path."""
    from astropy.io import fits
    n = len(rows)
    x = np.zeros((n, width, 3), dtype=np.float64)
    cm = np.zeros((n, width), dtype=np.float64)
    for k, (poly, kw) in enumerate(rows):
        for j, cp in enumerate(poly['caps']):
            x[k, j, :] = g.vec(cp['x'])
            cm[k, j] = g.fl(cp['cm'])
    cols = [fits.Column(name='XCAPS', format='%dD' % (3 * width), dim='(3,%d)' % width, array=x),
            fits.Column(name='CMCAPS', format='%dD' % width, array=cm)]
    if not noid:
        cols.append(fits.Column(name='IFIELD', format='J', array=np.array([kw['id'][0] for _, kw in rows], dtype=np.int32)))
    cols += [fits.Column(name='NCAPS', format='J', array=np.array([len(p['caps']) for p, _ in rows], dtype=np.int32)),
             fits.Column(name='WEIGHT', format='D', array=np.array([g.fl(kw['weight'][0]) for _, kw in rows])),
             fits.Column(name='PIXEL', format='J', array=np.array([kw['pixel'][0] for _, kw in rows], dtype=np.int32)),
             fits.Column(name='STR', format='D', array=np.array([g.fl(kw['str'][0]) for _, kw in rows])),
             fits.Column(name='USE_CAPS', format='J', bzero=2 ** 31,
                         array=np.array([g.mask_int(p['use']) for p, _ in rows], dtype=np.uint32))]
    _NFILE[0] += 1
    d = os.path.join(ctx.scratch, 'x06fits')
    os.makedirs(d, exist_ok=True)
    path = os.path.join(d, 't%05d.fits' % _NFILE[0])
    fits.HDUList([fits.PrimaryHDU(), fits.BinTableHDU.from_columns(cols)]).writeto(path, overwrite=True)
    return path


def fits_polygons(ctx, rows, noid, width):
    """route "fits": the polygons of the rows, each made from its table row by one of the documented ways"""
    from pydl.pydlutils import mangle as mng
    path = fits_table(ctx, rows, noid, width)
    raw = mng.read_fits_polygons(path)
    conv = None
    out = []
    for k in range(len(rows)):
        try:
            if k % 3 == 0:
                out.append(mng.ManglePolygon(raw[k]))
            elif k % 3 == 1:
                if conv is None:
                    conv = mng.read_fits_polygons(path, convert=True)
                out.append(conv[k])
            else:
                out.append(mng._single_polygon(raw[k]))
        except Exception as ex:
            out.append(ex)
    try:            # S2: the polygons own their data - spoil the table they were made from
        for name in ('XCAPS', 'CMCAPS'):
            col = raw[name]
            if col.flags.writeable:
                col[...] = 9
    except Exception:
        pass
    return out


# ---------------------------------------------------------------- observation of a polygon object
def observe(P, want_methods=True):
    """attributes and methods of a real polygon, abstracted"""
    o = {'raised': '', 'ncaps': None}
    try:
        o['ncaps'] = int(P.ncaps)
        o['rel'] = 5e-7 if (P.cm is not None and np.asarray(P.cm).dtype == np.float32) else 1e-12
        o['caps'] = abscaps(P)
        o['use'] = g.bits(P.use_caps)
        o['use_type'] = type(P.use_caps).__name__
        o['weight'] = absq(P.weight)
        o['weight_type'] = type(P.weight).__name__
        o['pixel'] = int(P.pixel)
        o['id'] = int(P.id)
        if want_methods:
            r = P.cmminf()
            o['cmminf'] = -2 if r is None else (int(r) if isinstance(r, (int, np.integer)) else -3)
            o['gzeroar'] = bool(P.gzeroar())
            with warnings.catch_warnings(record=True) as w:
                warnings.simplefilter('always')
                a = P.garea()
            o['garea'] = float(a)
            o['warned'] = any('incomplete' in str(x.message) for x in w)
            with warnings.catch_warnings(record=True):
                warnings.simplefilter('always')
                s = P.str
            o['str'] = float(s)
    except Exception as ex:
        o['raised'] = exc_name(ex)
    return o


def snapshot(P):
    return (int(P.ncaps), None if P.x is None else np.array(P.x, dtype=np.float64).tobytes(),
            None if P.cm is None else np.array(P.cm, dtype=np.float64).tobytes(), int(P.use_caps), float(P.weight),
            int(P.pixel), int(P.id))


# ---------------------------------------------------------------- independent area oracle (harness side)
_LATTICE = {}


def lattice(n=200000):
    """Fibonacci lattice, stored by coordinate (no BLAS): measured error of single-cap areas < 2e-3 sr"""
    if n not in _LATTICE:
        k = np.arange(n) + 0.5
        z = 1.0 - 2.0 * k / n
        phi = k * (math.pi * (3.0 - math.sqrt(5.0)))
        s = np.sqrt(1.0 - z * z)
        _LATTICE[n] = (s * np.cos(phi), s * np.sin(phi), z)
    return _LATTICE[n]


def quadrature(xs, cms):
    """area of the intersection of caps (x_k, cm_k), all used, by counting lattice points (own dot products)"""
    px, py, pz = lattice()
    inside = np.ones(px.shape[0], dtype=bool)
    for x, cm in zip(xs, cms):
        d = 1.0 - (px * float(x[0]) + py * float(x[1]) + pz * float(x[2]))
        inside &= (d < cm) if cm >= 0 else (d > -cm)
    return 4.0 * PI * inside.sum() / px.shape[0]


def oracle_disc(poly, value):
    used = [cp for k, cp in enumerate(poly['caps']) if k in poly['use']]
    a = quadrature([g.vec(cp['x']) for cp in used], [g.fl(cp['cm']) for cp in used]) if used else 4.0 * PI
    return min(2 ** 30, int(round(abs(value - a) * 1e6)))


# ---------------------------------------------------------------- judging one object against TLC's exp
def judge_obj(c, exp, o):
    """-> (list of disagreements, finding id or None)"""
    if o['raised']:
        return ['raised ' + o['raised']], ('D-X06-3' if exp['dev3'] and o['raised'].startswith('AttributeError') else None)
    a = exp['attrs']
    bad = []
    dev = []
    if o['ncaps'] != a['ncaps']:
        bad.append('ncaps %r, specified %r' % (o['ncaps'], a['ncaps']))
    if o['caps'] != tuple(a['caps']):
        bad.append('caps %r' % (o['caps'],))
    if frozenset(o['use']) != a['use']:
        bad.append('use_caps bits %r, specified %r' % (o['use'], sorted(a['use'])))
    if o['use_type'] != 'int' or o['weight_type'] != 'float':
        bad.append('use_caps / weight are %s / %s (documented int / float)' % (o['use_type'], o['weight_type']))
    if o['weight'] != tuple(a['weight']):
        bad.append('weight %r, specified %r' % (o['weight'], a['weight']))
    if a['pixel'] and o['pixel'] != a['pixel'][0]:
        bad.append('pixel %r, specified %r' % (o['pixel'], a['pixel'][0]))
    if a['id'] and o['id'] != a['id'][0]:
        bad.append('id %r, specified %r' % (o['id'], a['id'][0]))
    m = exp['cmminf']
    if m['kind'] == 'none' and o['cmminf'] != -2:
        bad.append('cmminf() %r for a polygon without caps (documented None)' % o['cmminf'])
    if m['kind'] == 'index' and o['cmminf'] not in m['idx']:
        bad.append('cmminf() %r, specified one of %r' % (o['cmminf'], sorted(m['idx'])))
        dev.append('D-X06-6' if exp['dev6'] and o['cmminf'] == -1 else None)
    if o['gzeroar'] != exp['gzeroar']:
        bad.append('gzeroar() %r, specified %r' % (o['gzeroar'], exp['gzeroar']))
        dev.append('D-X06-2' if o['gzeroar'] == exp['dev2zero'] else None)
    ga = exp['garea']
    close, val = absarea(o['garea'], o['rel'])
    want = tuple(ga['area'])
    if ga['kind'] == 'exact':
        if not (close and val == want):
            bad.append('garea() %r, specified %d/%d pi' % (o['garea'], want[0], want[1]))
            dev.append('D-X06-6' if exp['dev6'] and close and val == tuple(exp['dev6garea']) else None)
    elif ga['kind'] == 'incomplete' and not o['warned']:
        if ga['known']:
            good = close and val == want
        else:
            good = oracle_disc(c['poly'], o['garea']) <= AREA_TOL
        if not good:
            bad.append('garea() %r returned without the incompleteness warning, area is %s' % (
                o['garea'], '%d/%d pi' % want if ga['known'] else 'not that (quadrature)'))
            dev.append('D-X06-2' if exp['dev2garea'] and o['garea'] == 0.0 else None)
    if a['str']:
        if absq(o['str']) != tuple(a['str'][0]):
            bad.append('str %r, specified the given %r' % (o['str'], a['str'][0]))
    elif abs(o['str'] - o['garea']) > o['rel'] * max(1.0, abs(o['garea'])):
        bad.append('str %r differs from garea() %r' % (o['str'], o['garea']))
    finding = min(dev) if bad and len(dev) == len(bad) and None not in dev else None
    return bad, finding


AREA_TOL = 20000        # micro-steradians; the same number as Trace_MangleGeom!AreaTol


def q(r):
    return '%d/%d' % tuple(r) if r[1] != 1 else '%d' % r[0]


def bcap(cp):
    return '(%s; cm=%s)' % (','.join(q(t) for t in cp['x']), q(cp['cm']))


def bpoly(p):
    return '[%s use=%s]' % (' '.join(bcap(cp) for cp in p['caps']), sorted(p['use']))


def describe(c):
    fam = c['fam']
    if fam == 'obj':
        kw = {k: (v[0] if v else None) for k, v in c['kw'].items()}
        return 'polygon %s route=%s%s keywords=%s%s' % (bpoly(c['poly']), c['route'], ' of ManglePolygon()' if c['base'] == 'noargs' else '',
                                                       kw, '' if c['usegiven'] else ' use_caps defaulted')
    if fam == 'alg':
        p1 = 'ManglePolygon()' if c['p1noargs'] else bpoly(c['p1'])
        if c['op'] == 'polyn':
            return '%s.polyn(%s, %d, complement=%s)' % (p1, bpoly(c['p2']), c['n'], c['complement'])
        return '%s.add_caps(%s)' % (p1, ' '.join(bcap(cp) for cp in c['new']))
    if fam == 'circle':
        return 'circle_cap(%d, pool point %d)' % (c['r'], c['i'])
    if fam == 'used':
        return 'is_cap_used(bits %s, %d)' % (sorted(c['mask']), c['i'])
    if fam == 'alias':
        return 'FITS_polygon %s %r' % (c['how'], c['key'])
    if fam == 'single':
        return '_single_polygon(%s)' % c['kind']
    if fam == 'plist':
        return 'PolygonList(%d polygons, header=%r)' % (c['n'], c['header'])
    if fam == 'circleargs':
        return 'circle_cap with %s' % c['kind']
    if fam == 'ctorargs':
        return 'ManglePolygon(%s)' % c['kind']
    return fam


class Reporter:
    def __init__(self, ctx):
        self.ctx = ctx
        self.classes = {}

    def fail(self, cls, case, finding):
        n = self.classes.get(cls, 0)
        self.classes[cls] = n + 1
        if n < MAX_PER_CLASS:
            self.ctx.violation(case, finding=finding)

    def finish(self):
        if self.classes:
            self.ctx.cov['failure_classes'] = dict(self.classes)
            for cls, n in sorted(self.classes.items()):
                fid = cls.rsplit('/', 1)[-1]
                print('  failures of class %-34s %6d%s%s' % (cls, n, '' if n <= MAX_PER_CLASS else ' (first %d filed)' % MAX_PER_CLASS,
                                                           '  [%s]' % FINDINGS[fid] if fid in FINDINGS else ''))


# ---------------------------------------------------------------- spec -> code, family by family
def run_obj(ctx, c, k, fits_poly=None):
    """build the object of state c by its route and observe it"""
    from pydl.pydlutils.mangle import ManglePolygon
    lay = (k + ctx.seed) % NLAY
    route = c['route']
    try:
        if route == 'fits':
            if isinstance(fits_poly, Exception):
                raise fits_poly
            return observe(fits_poly)
        if c['base'] == 'noargs':
            base, arrays = ManglePolygon(), ()
        else:
            base, arrays = build_kw(c['poly'], c['kw'], c['usegiven'], lay, k)
        if route in ('kw', 'noargs'):
            clobber(*arrays)
            return observe(base)
        P = base.copy() if route == 'copy' else ManglePolygon(base)
        if P is base:
            return {'raised': 'copy returned the same object'}
        for a, b in ((P.x, base.x), (P.cm, base.cm)):
            if a is not None and b is not None and a.size and np.shares_memory(a, b):
                return {'raised': 'copy shares an array with the original'}
        if k % 2:       # spoil the original: the copy must not notice
            clobber(base.x, base.cm, *arrays)
            base.use_caps, base.weight, base.pixel, base.id = 0, -5.0, -7, -9
        return observe(P)
    except Exception as ex:
        return {'raised': exc_name(ex)}


def member_obs(P, pts, lay):
    from pydl.pydlutils.mangle import is_in_polygon
    r = np.asarray(is_in_polygon(P, g.lay_arr(g.cart(pts), lay)))
    if r.shape != (len(pts),) or r.dtype != np.bool_:
        raise core.MachineryError('is_in_polygon returned %r %s' % (r.shape, r.dtype))
    return [bool(v) for v in r]


def run_alg(c, pts, k, seed):
    """p1.add_caps(...) / p1.polyn(p2, n, complement): caps, attributes and pool membership of the result"""
    from pydl.pydlutils.mangle import ManglePolygon
    rot = k + seed
    lay1, lay2 = rot % NLAY, (rot // 3) % NLAY
    o = {'raised': '', 'lay1': lay1, 'lay2': lay2}
    try:
        if c['p1noargs']:
            p1, arr1 = ManglePolygon(), ()
            o['lay1'] = -1
        else:
            incoming = c['new'] if c['op'] == 'add_caps' else c['p2']['caps']
            if lay1 == 7 and not dyadic(incoming):
                lay1 = 0        # float32-typed polygons receiving caps float32 cannot hold: not decided
            x1, cm1, o['lay1'] = cap_arrays(c['p1']['caps'], lay1)
            p1 = ManglePolygon(x=x1, cm=cm1, use_caps=g.mask_int(c['p1']['use']), weight=0.5, pixel=3, id=9)
            arr1 = (x1, cm1)
        before1 = snapshot(p1)
        if c['op'] == 'polyn':
            x2, cm2, o['lay2'] = cap_arrays(c['p2']['caps'], lay2)
            p2 = ManglePolygon(x=x2, cm=cm2, use_caps=g.mask_int(c['p2']['use']))
            before2 = snapshot(p2)
            n = c['n'] if rot % 2 else np.int64(c['n'])
            if not c['complement'] and rot % 3 == 0:
                R = p1.polyn(p2, n)
            elif rot % 3 == 1:
                R = p1.polyn(p2, n, c['complement'])
            else:
                R = p1.polyn(p2, n, complement=c['complement'])
            if snapshot(p2) != before2:
                o['raised'] = 'polyn changed its argument polygon'
            spoil = (p2.x, p2.cm)
        else:
            nx, ncm, o['lay2'] = cap_arrays(c['new'], lay2)
            keep = (nx.tobytes(), ncm.tobytes())
            R = p1.add_caps(nx, ncm)
            if (nx.tobytes(), ncm.tobytes()) != keep:
                o['raised'] = 'add_caps changed its arguments'
            spoil = (nx, ncm)
        if snapshot(p1) != before1:
            o['raised'] = 'the call changed the polygon it was called on'
        if R is p1:
            o['raised'] = 'the result is the same object'
        clobber(p1.x, p1.cm, *arr1)
        clobber(*spoil)
        o['ncaps'] = int(R.ncaps)
        o['caps'] = abscaps(R)
        o['attrs'] = (float(R.weight), int(R.pixel), int(R.id))
        o['attrs1'] = before1[4:7]
        o['member'] = member_obs(R, pts, rot % 6)
    except core.MachineryError:
        raise
    except Exception as ex:
        o['raised'] = exc_name(ex)
    return o


def judge_alg(c, exp, o):
    if o['raised']:
        return ['raised ' + o['raised']], ('D-X06-3' if exp['dev3'] and o['raised'].startswith('AttributeError') else None)
    bad, dev = [], []
    if o['ncaps'] != exp['ncaps']:
        bad.append('ncaps %r, specified %r' % (o['ncaps'], exp['ncaps']))
        dev.append(None)
    if o['caps'] != tuple(exp['caps']):
        bad.append('caps of the result %r' % (o['caps'],))
        dev.append('D-X06-4' if o['lay1'] == 6 and o['caps'] == tuple(exp['dev4caps']) else None)
    elif o['attrs'] != o['attrs1']:
        bad.append('weight, pixel, id of the result %r, specified those of the first polygon %r' % (o['attrs'], o['attrs1']))
        dev.append(None)
    if not dev:
        wrong = [i for i in range(1, len(o['member']) + 1)
                 if (i in exp['in'] and not o['member'][i - 1]) or (i in exp['out'] and o['member'][i - 1])]
        if wrong:
            d1 = exp['dev1']
            asdev = all(not ((i in d1['in'] and not o['member'][i - 1]) or (i in d1['out'] and o['member'][i - 1]))
                        for i in range(1, len(o['member']) + 1))
            bad.append('membership of the result wrong at pool points %s (e.g. point %d reported %s)' % (
                wrong[:6], wrong[0], o['member'][wrong[0] - 1]))
            dev.append('D-X06-1' if asdev else None)
    finding = dev[0] if len(dev) == 1 else None
    return bad, finding


RADIUS_FORMS = 6


def radius_form(r, form, n):
    if form == 0:
        return float(r)
    if form == 1:
        return np.float64(r)
    if form == 2:
        return np.float32(r)
    if form == 3:
        return np.array(float(r))
    if form == 4:
        return np.full((n,), float(r))
    return np.full((n,), int(r), dtype=np.int64)


def run_circle(c, pts, k, seed):
    from pydl.pydlutils.mangle import ManglePolygon, circle_cap
    rot = k + seed
    centre = pts[c['i'] - 1]
    coords = 'radec' if rot % 2 else 'xyz'
    lay = rot % 6
    o = {'raised': '', 'coords': coords, 'lay': lay, 'form': rot % RADIUS_FORMS}
    try:
        xyz = g.cart([centre])
        p = g.lay_arr(xyz if coords == 'xyz' else g.radec(xyz), lay)
        keep = np.array(p).tobytes()
        x, cm = circle_cap(radius_form(c['r'], o['form'], 1), p)
        x, cm = np.asarray(x), np.asarray(cm)
        if x.shape != (1, 3) or cm.shape != (1,):
            raise ValueError('shapes of the result %r %r' % (x.shape, cm.shape))
        if np.array(p).tobytes() != keep:
            o['raised'] = 'circle_cap changed its points'
        if coords == 'xyz' and isinstance(x, np.ndarray) and np.shares_memory(x, p):
            o['raised'] = 'x shares memory with the points'
        tol = 1e-15 if coords == 'radec' else 0.0
        o['xok'] = bool(np.all(np.abs(x[0].astype(np.float64) - xyz[0]) <= tol))
        o['x'] = [float(v) for v in x[0]]
        ctol = 2e-7 if cm.dtype == np.float32 else 5e-16
        f = Fraction(float(cm[0])).limit_denominator(1000)
        o['cm'] = (f.numerator, f.denominator)
        o['cmclose'] = abs(float(cm[0]) - f.numerator / f.denominator) <= ctol
        o['cmval'] = float(cm[0])
        P = ManglePolygon(x=x.astype(np.float64), cm=cm.astype(np.float64))
        o['member'] = member_obs(P, pts, lay)
    except core.MachineryError:
        raise
    except Exception as ex:
        o['raised'] = exc_name(ex)
    return o


def judge_circle(c, exp, o):
    if o['raised']:
        return ['raised ' + o['raised']]
    bad = []
    if not o['xok']:
        bad.append('x %r is not the point %r' % (o['x'], exp['x']))
    if not o['cmclose'] or o['cm'] != tuple(exp['cm']):
        bad.append('cm %r, specified 1 - cos(%d deg) = %s' % (o['cmval'], c['r'], q(exp['cm'])))
    wrong = [i for i in range(1, len(o['member']) + 1)
             if (i in exp['in'] and not o['member'][i - 1]) or (i in exp['out'] and o['member'][i - 1])]
    if wrong and not bad:
        bad.append('cap does not hold exactly the points closer than the radius: wrong at pool points %s' % wrong[:6])
    return bad


def circle_batch(ctx, rep, pts, cases):
    """vector form: one call per radius with all centres at once, and one call with a radius per point"""
    from pydl.pydlutils.mangle import circle_cap
    xyz = g.cart(pts)
    want = {}
    for c, exp in cases:
        want[(c['r'], c['i'])] = g.fl(exp['cm'])
    radii = sorted({c['r'] for c, _ in cases})
    for r in radii:
        for coords in ('xyz', 'radec'):
            p = xyz if coords == 'xyz' else g.radec(xyz)
            try:
                x, cm = circle_cap(float(r), p)
                good = np.asarray(x).shape == xyz.shape and np.allclose(x, xyz, rtol=0, atol=1e-15) and \
                    np.asarray(cm).shape == (len(pts),) and \
                    all(abs(float(cm[i - 1]) - want[(r, i)]) <= 5e-16 for i in range(1, len(pts) + 1) if (r, i) in want)
                msg = 'x / cm of the vector call differ from the one-point calls'
            except Exception as ex:
                good, msg = False, exc_name(ex)
            ctx.evaluated(1, 'circle_cap-vector')
            if not good:
                rep.fail('circle/vector', {'what': 'circle_cap(%r, all %d pool points as %s): %s' % (float(r), len(pts), coords, msg),
                                           'fam': 'circlebatch'}, None)
    rr = np.array([float(radii[i % len(radii)]) for i in range(len(pts))])
    try:
        x, cm = circle_cap(rr, xyz)
        good = all(abs(float(cm[i]) - want[(int(rr[i]), i + 1)]) <= 5e-16 for i in range(len(pts)) if (int(rr[i]), i + 1) in want)
        msg = 'cm is not 1 - cos(radius) element by element'
    except Exception as ex:
        good, msg = False, exc_name(ex)
    ctx.evaluated(1, 'circle_cap-vector')
    if not good:
        rep.fail('circle/vector', {'what': 'circle_cap(one radius per point): %s' % msg, 'fam': 'circlebatch'}, None)


def run_circleargs(c):
    from pydl.pydlutils.mangle import circle_cap
    kind = c['kind']
    z = np.array([[0.0, 0.0, 1.0], [1.0, 0.0, 0.0]])
    try:
        if kind == 'radius_longer':
            circle_cap(np.array([90.0, 90.0, 90.0]), z)
        elif kind == 'radius_shorter':
            circle_cap(np.array([90.0, 90.0, 90.0]), np.vstack([z, z]))
        elif kind == 'points_4_columns':
            circle_cap(90.0, np.array([[1.0, 2.0, 3.0, 4.0]]))
        elif kind == 'points_1_column':
            circle_cap(90.0, np.array([[1.0], [2.0]]))
        else:
            x, cm = circle_cap(np.array([90.0, 60.0]), z)
            if not (np.allclose(cm, [1.0, 0.5], rtol=0, atol=5e-16) and np.array_equal(x, z)):
                return 'wrong value'
        return 'ok'
    except Exception as ex:
        return 'raise ' + exc_name(ex)


def run_ctorargs(c):
    from pydl.pydlutils.mangle import ManglePolygon
    x, cm = np.array([[0.0, 0.0, 1.0]]), np.array([0.5])
    kw = {'x_only': {'x': x}, 'cm_only': {'cm': cm}, 'weight_only': {'weight': 1.0}, 'x_and_cm': {'x': x, 'cm': cm}}[c['kind']]
    try:
        P = ManglePolygon(**kw)
        return 'ok' if P.ncaps == 1 else 'wrong polygon'
    except ValueError:
        return 'ValueError'
    except Exception as ex:
        return 'other exception ' + exc_name(ex)


def run_used(c, k, seed):
    from pydl.pydlutils.mangle import is_cap_used
    m = g.mask_int(c['mask'])
    i = c['i']
    top = max(list(c['mask']) + [i])
    forms = ['int', 'int_npidx']
    if top <= 31:
        forms += ['uint32', 'int64']
    elif top <= 62:
        forms += ['int64', 'uint64']
    elif top <= 63:
        forms += ['uint64']
    form = forms[(k + seed) % len(forms)]
    mm = {'int': m, 'int_npidx': m, 'uint32': np.uint32(m) if top <= 31 else m, 'int64': np.int64(m) if top <= 62 else m,
          'uint64': np.uint64(m) if top <= 63 else m}[form]
    ii = np.int64(i) if form == 'int_npidx' and top <= 62 else i
    try:
        r = is_cap_used(mm, ii)
        if not isinstance(r, (bool, np.bool_)):
            return {'raised': 'returned %s' % type(r).__name__, 'form': form, 'val': False}
        return {'raised': '', 'val': bool(r), 'form': form}
    except Exception as ex:
        return {'raised': exc_name(ex), 'form': form, 'val': False}


# a small fixed FITS polygon table for the container families (values are irrelevant to the statements)
def container_table(ctx, nrows=3, noid=False):
    caps = [{'x': ((0, 1), (0, 1), (1, 1)), 'cm': (1, 2)}, {'x': ((1, 1), (0, 1), (0, 1)), 'cm': (1, 1)}]
    rows = []
    for k in range(nrows):
        rows.append(({'caps': caps[:1 + (k % 2)], 'use': frozenset({0} if k % 2 == 0 else {0, 1})},
                     {'weight': (tuple(rq(Fraction(k + 1, 2))),), 'pixel': (k,), 'id': (100 + k,), 'str': ((k + 20, 1),)}))
    return fits_table(ctx, rows, noid, 2), rows


def run_alias(ctx, c, env):
    from astropy.io import fits
    from pydl.pydlutils import mangle as mng
    if 'table' not in env:
        path, rows = container_table(ctx)
        env['table'] = mng.read_fits_polygons(path)
        with fits.open(path, uint=True) as h:
            env['columns'] = {n: np.array(h[1].data[n]) for n in h[1].columns.names}
    t = env['table']
    try:
        r = t[c['key']] if c['how'] == 'item' else getattr(t, c['key'])
    except Exception as ex:
        return {'out': 'AttributeError' if isinstance(ex, AttributeError) else 'raise', 'exc': exc_name(ex), 'col': ''}
    for name, col in env['columns'].items():
        a = np.asarray(r)
        if a.shape == col.shape and np.array_equal(a, col):
            return {'out': 'col', 'col': name, 'exc': ''}
    return {'out': 'other', 'col': '', 'exc': 'value %r' % (r,)}


def run_single(ctx, c, env):
    from pydl.pydlutils import mangle as mng
    kind = c['kind']
    P = mng.ManglePolygon(x=np.array([[0.0, 0.0, 1.0]]), cm=np.array([0.5]), id=5)
    if 'path3' not in env:
        env['path3'], env['rows3'] = container_table(ctx, 3)
        env['path1'], env['rows1'] = container_table(ctx, 1, noid=True)
    want = None
    if kind == 'polygon':
        obj = want = P
    elif kind == 'wholesky':
        obj = want = mng.ManglePolygon()
    elif kind in ('list0', 'list1', 'list2'):
        obj = mng.PolygonList([P, P.copy()][:int(kind[-1])], header=['h'])
        want = P
    elif kind == 'plainlist':
        obj = [P]
    elif kind == 'fits1':
        obj = mng.read_fits_polygons(env['path1'])
        want = env['rows1'][0]
    elif kind == 'fits2':
        obj = mng.read_fits_polygons(env['path3'])
    elif kind == 'row':
        obj = mng.read_fits_polygons(env['path3'])[1]
        want = env['rows3'][1]
    else:
        obj = {'none': None, 'int': 3, 'str': 'polygon', 'tuple': (P,)}[kind]
    try:
        r = mng._single_polygon(obj)
    except ValueError:
        return 'ValueError'
    except Exception as ex:
        return 'other exception ' + exc_name(ex)
    if kind in ('polygon', 'wholesky', 'list0', 'list1', 'list2', 'plainlist', 'none', 'int', 'str', 'tuple'):
        return 'same' if r is want else 'another object'
    if not isinstance(r, mng.ManglePolygon):
        return 'not a ManglePolygon'
    poly, kw = want
    o = observe(r, want_methods=False)
    good = (not o['raised'] and o['caps'] == tuple(poly['caps']) and frozenset(o['use']) == poly['use'] and
            o['weight'] == tuple(kw['weight'][0]) and o['pixel'] == kw['pixel'][0] and
            o['id'] == (-1 if kind == 'fits1' else kw['id'][0]) and absq(r.str) == tuple(kw['str'][0]))
    return 'converted' if good else 'converted wrongly: %r' % (o,)


def run_plist(c):
    from pydl.pydlutils import mangle as mng
    polys = [mng.ManglePolygon() for _ in range(c['n'])]
    if c['header']:
        h = [str(s) for s in c['header'][0]]
        L = mng.PolygonList(polys, header=h) if c['n'] else mng.PolygonList(header=h)
    else:
        L = mng.PolygonList(polys) if c['n'] else mng.PolygonList()
        other = mng.PolygonList()
        other.header.append('x')            # a default header is this list's own
    good_list = isinstance(L, list) and all(a is b for a, b in zip(L, polys))
    return {'len': len(L) if good_list else -1, 'header': tuple(L.header) if isinstance(L.header, list) else None}


# ---------------------------------------------------------------- code -> spec: recorded calls
def rq(f):
    f = Fraction(f)
    return [f.numerator, f.denominator]


def jcaps(caps):
    return [{'x': [list(t) for t in cp['x']], 'cm': list(cp['cm'])} for cp in caps]


def jpoly(p):
    return {'caps': jcaps(p['caps']), 'use': sorted(p['use'])}


def tpoly(j):
    return {'caps': tuple({'x': tuple(tuple(t) for t in cp['x']), 'cm': tuple(cp['cm'])} for cp in j['caps']),
            'use': frozenset(j['use'])}


def obs_caps_json(caps):
    return jcaps(caps) if isinstance(caps, tuple) else None


AXES = [(Fraction(1), Fraction(0), Fraction(0)), (Fraction(0), Fraction(1), Fraction(0)), (Fraction(0), Fraction(0), Fraction(1))]


def record_calls(ctx, rng, nobj, nalg, ncircle, nself, nused, narea):
    from pydl.pydlutils import mangle as mng
    pool = g.quadruple_pool(25)
    recs, meta = [], []

    special = [f for f in g.CM_SPECIAL if f.denominator <= 100]       # CmMinSet compares 2 + cm: keep TLC's products small
    tiny = [True]

    def rcm():
        return rng.choice(g.CM_SPECIAL if tiny[0] else special) if rng.random() < 0.3 else Fraction(rng.randint(-200, 200), 100)

    def rcaps(n, centres, axial=False):
        caps = []
        for _ in range(n):
            p = rng.random()
            if axial:
                v = rng.choice(AXES)
                v = g.neg(v) if rng.random() < 0.4 else v
                cm = Fraction(rng.choice([1, -1])) if (centres and v not in (centres[0], g.neg(centres[0]))) else rcm()
            else:
                v = rng.choice(centres) if (centres and p < 0.35) else (g.neg(rng.choice(centres)) if (centres and p < 0.5)
                                                                        else rng.choice(pool))
                cm = rcm()
            centres.append(v)
            caps.append({'x': tuple((t.numerator, t.denominator) for t in v), 'cm': (cm.numerator, cm.denominator)})
        return tuple(caps)

    def rpts(n, centres):
        out = []
        for _ in range(n):
            p = rng.random()
            v = rng.choice(centres) if (centres and p < 0.3) else (g.neg(rng.choice(centres)) if (centres and p < 0.45)
                                                                   else rng.choice(pool))
            out.append(tuple((t.numerator, t.denominator) for t in v))
        return out

    # ---- objects through a random route
    fits_jobs = []
    tiny[0] = False
    for k in range(nobj):
        nc = rng.choice([0, 1, 1, 2, 2, 3, 4])
        centres = []
        caps = rcaps(nc, centres, axial=rng.random() < 0.5)
        pm = rng.random()
        use = frozenset(range(nc)) if pm < 0.4 else frozenset(b for b in range(nc + 1) if rng.random() < 0.6)
        poly = {'caps': caps, 'use': use}
        route = rng.choice(['kw', 'kw', 'copy', 'ctor', 'fits'] if nc else ['kw', 'copy', 'ctor', 'noargs', 'noargs'])
        noargs = route == 'noargs' or (nc == 0 and route in ('copy', 'ctor') and rng.random() < 0.5)
        if noargs:
            poly = {'caps': (), 'use': frozenset()}
        rec = {'kind': 'obj', 'poly': jpoly(poly), 'noargs': bool(noargs and route != 'noargs')}
        m = {'route': route, 'lay': rng.randrange(NLAY), 'rot': rng.randrange(6), 'poly': poly, 'noargs': noargs}
        recs.append(rec)
        meta.append(m)
        if route == 'fits':
            fits_jobs.append(len(recs) - 1)
    kwfull = {'weight': ((1, 2),), 'pixel': (4,), 'id': (11,), 'str': ((1, 1),)}
    fitsp = {}
    for b in range(0, len(fits_jobs), 200):
        idx = fits_jobs[b:b + 200]
        rows = [(meta[j]['poly'], kwfull) for j in idx]
        width = max(len(p['caps']) for p, _ in rows)
        for j, P in zip(idx, fits_polygons(ctx, rows, False, width)):
            fitsp[j] = P
    for j, (rec, m) in enumerate(zip(recs, meta)):
        c = {'poly': m['poly'], 'route': m['route'] if m['route'] != 'noargs' else 'noargs', 'kw': {'weight': (), 'pixel': (), 'id': (), 'str': ()},
             'usegiven': True, 'base': 'noargs' if m['noargs'] else 'kw'}
        o = run_obj_record(ctx, c, m, fitsp.get(j))
        poly = m['poly']
        if o['raised']:
            rec['obs'] = {'raised': True, 'caps': [], 'use': [], 'cmminf': -3, 'gzeroar': False,
                          'garea': {'warned': False, 'close': False, 'val': [0, 1], 'hasoracle': False, 'disc': 0}, 'strsame': False}
            m['exc'] = o['raised']
            continue
        close, val = absarea(o['garea'], o['rel'])
        caps = o['caps'] if isinstance(o['caps'], tuple) else None
        rec['obs'] = {'raised': False, 'caps': jcaps(caps) if caps is not None else [{'x': [[9, 1], [9, 1], [9, 1]], 'cm': [9, 1]}],
                      'use': o['use'], 'cmminf': o['cmminf'], 'gzeroar': o['gzeroar'],
                      'garea': {'warned': o['warned'], 'close': close, 'val': list(val), 'hasoracle': not o['warned'],
                                'disc': oracle_disc(poly, o['garea']) if not o['warned'] else 0},
                      'strsame': (o['str'] == o['garea']) if m['route'] != 'fits' else (o['str'] == 1.0)}
        m['exc'] = ''
        m['observed'] = {kk: vv for kk, vv in o.items() if kk not in ('caps',)}

    # ---- add_caps / polyn
    tiny[0] = True
    for k in range(nalg):
        centres = []
        n1 = rng.choice([0, 1, 1, 2, 3])
        axial = rng.random() < 0.35
        p1 = {'caps': rcaps(n1, centres, axial), 'use': frozenset(b for b in range(n1) if rng.random() < 0.8)}
        op = rng.choice(['polyn', 'add_caps'])
        c = {'fam': 'alg', 'op': op, 'p1': p1, 'p1noargs': n1 == 0 and rng.random() < 0.5, 'p2': {'caps': (), 'use': frozenset()},
             'n': 0, 'complement': False, 'new': ()}
        if op == 'polyn':
            n2 = rng.randint(1, 3)
            c['p2'] = {'caps': rcaps(n2, centres, axial), 'use': frozenset(b for b in range(n2) if rng.random() < 0.7)}
            c['n'] = rng.randrange(n2)
            c['complement'] = rng.random() < 0.5
            cp = c['p2']['caps'][c['n']]
            new = ({'x': cp['x'], 'cm': (-cp['cm'][0], cp['cm'][1]) if c['complement'] else cp['cm']},)
        else:
            new = c['new'] = rcaps(rng.choice([0, 1, 1, 2, 3]), centres, axial)
        pts = rpts(12, centres)
        o = run_alg(c, pts, rng.randrange(10 ** 6), 0)
        caps = o.get('caps')
        rec = {'kind': 'alg', 'p1': jpoly(p1), 'p1noargs': c['p1noargs'], 'p1int': o.get('lay1') == 6, 'new': jcaps(new),
               'pts': [[list(t) for t in p] for p in pts],
               'obs': {'raised': bool(o['raised']),
                       'caps': jcaps(caps) if isinstance(caps, tuple) else [{'x': [[9, 1], [9, 1], [9, 1]], 'cm': [9, 1]}],
                       'member': o.get('member', [False] * len(pts))}}
        recs.append(rec)
        meta.append({'call': describe(c), 'exc': o['raised'], 'lay1': o.get('lay1'), 'lay2': o.get('lay2'),
                     'caps': repr(caps) if not isinstance(caps, tuple) else ''})

    # ---- circle_cap on exact radii
    for k in range(ncircle):
        r = rng.choice([0, 60, 60, 90, 90, 120, 180])
        centre = rng.choice(pool)
        x = tuple((t.numerator, t.denominator) for t in centre)
        pts = rpts(12, [centre])
        c = {'r': r, 'i': 1}
        o = run_circle(c, [x] + pts, rng.randrange(10 ** 6), 0)
        recs.append({'kind': 'circle', 'r': r, 'x': [list(t) for t in x], 'pts': [[list(t) for t in p] for p in pts],
                     'obs': {'raised': bool(o['raised']), 'xok': bool(o.get('xok', False)), 'cmclose': bool(o.get('cmclose', False)),
                             'cm': list(o.get('cm', (0, 1))), 'member': o.get('member', [False] * (len(pts) + 1))[1:]}})
        meta.append({'call': 'circle_cap(%d, %s) as %s, radius form %d, layout %d' % (r, bcap({'x': x, 'cm': (0, 1)}), o['coords'], o['form'], o['lay']),
                     'exc': o['raised'], 'cmval': o.get('cmval')})

    # ---- circle_cap at an arbitrary point given as RA/Dec (float or integer degrees): the cap holds its own centre
    for k in range(nself):
        r = rng.choice([60, 90, 120, 180])
        intpts = rng.random() < 0.5
        if intpts:
            radec = np.array([[rng.randint(0, 359), rng.randint(-89, 89)]], dtype=rng.choice([np.int64, np.int32]))
        else:
            radec = np.array([[rng.uniform(0, 360), math.degrees(math.asin(rng.uniform(-1, 1)))]])
        raised, member = '', False
        try:
            x, cm = mng.circle_cap(float(r), radec)
            member = bool(mng.is_in_cap(np.asarray(x)[0], np.asarray(cm)[0], radec.astype(np.float64))[0])
        except Exception as ex:
            raised = exc_name(ex)
        recs.append({'kind': 'self', 'r': r, 'intpts': bool(intpts), 'obs': {'raised': bool(raised), 'member': member}})
        meta.append({'call': 'circle_cap(%d.0, RA/Dec %s %s) then is_in_cap of the same point' % (r, radec.tolist(), radec.dtype), 'exc': raised})

    # ---- is_cap_used
    for k in range(nused):
        nb = rng.choice([0, 1, 2, 3, 5, 8])
        hi = rng.choice([8, 31, 32, 62, 63, 64, 100])
        mask = frozenset(rng.randint(0, hi) for _ in range(nb))
        i = rng.choice(sorted(mask)) if (mask and rng.random() < 0.5) else rng.randint(0, hi)
        o = run_used({'mask': mask, 'i': i}, rng.randrange(1000), 0)
        recs.append({'kind': 'used', 'mask': sorted(mask), 'i': i, 'obs': {'raised': bool(o['raised']), 'val': o['val']}})
        meta.append({'call': 'is_cap_used(bits %s as %s, %d)' % (sorted(mask), o['form'], i), 'exc': o['raised']})

    # ---- areas of polygons with irrational geometry: circle_cap caps at random points
    for k in range(narea):
        nc = rng.choice([1, 1, 1, 2, 3])
        v = np.array([[rng.gauss(0, 1) for _ in range(3)] for _ in range(nc)])
        v /= np.sqrt((v * v).sum(axis=1))[:, None]
        rad = np.array([rng.uniform(1.0, 179.0) for _ in range(nc)])
        rec = {'kind': 'area', 'nused': nc, 'zero': False, 'warned': False, 'disc': 0, 'raised': False}
        exc = ''
        try:
            x, cm = mng.circle_cap(rad, v)
            if rng.random() < 0.3:
                cm = -cm
            P = mng.ManglePolygon(x=x, cm=cm)
            with warnings.catch_warnings(record=True) as w:
                warnings.simplefilter('always')
                a = float(P.garea())
            rec['warned'] = any('incomplete' in str(t.message) for t in w)
            rec['disc'] = min(2 ** 30, int(round(abs(a - quadrature(v, [float(t) for t in cm])) * 1e6)))
        except Exception as ex:
            rec['raised'], exc = True, exc_name(ex)
        recs.append(rec)
        meta.append({'call': 'garea of %d circle_cap caps, radii %s' % (nc, [round(float(t), 3) for t in rad]), 'exc': exc})
    return recs, meta


def run_obj_record(ctx, c, m, fits_poly):
    c = dict(c, kw={'weight': (), 'pixel': (), 'id': (), 'str': ()}, noid=False)
    k = m['lay'] + NLAY * m['rot'] - ctx.seed       # run_obj derives the layout from k + seed
    return run_obj(ctx, c, k, fits_poly)


# ---------------------------------------------------------------- entry points
def run(ctx):
    ctx.level = 'model_checking'
    ctx.rule = ('every non-seed state of MC_MangleGeom is one polygon object built by a route (keywords / FITS row / copy() / '
                'copy constructor / no arguments) with all its attributes and methods, or one add_caps / polyn / circle_cap / '
                'is_cap_used / container call; evaluations = real objects built or calls made; non-trivial = distinct objects with '
                '>= 1 used cap, algebra cases whose result separates pool points, circle caps with 0 < r < 180; recorded calls = '
                'seeded random rational geometry judged by Trace_MangleGeom')
    ctx.assumptions = [
        'geometry restricted to rational unit vectors and rational cm (as C12); points exactly on a cap boundary are not decided',
        'garea of >= 2 used caps of non-zero area is documented as not implemented: any value is admitted while the '
        'PydlutilsUserWarning "incomplete" is issued; a value returned without it must be the area',
        'areas the spec cannot express as rational multiples of pi are compared with a 200000-point lattice quadrature, '
        'tolerance 0.02 sr (harness-measured discrepancy, judged by TLC)',
        'open (not decided): defaults of pixel / id, cmminf / garea of a polygon with caps none of which is used, |cm| > 2, '
        'polyn with n outside 0..ncaps-1, a Python int or list as circle_cap radius, is_cap_used beyond the width of a '
        'numpy mask, float32-typed polygons receiving caps that float32 cannot hold',
        'circle_cap cm compared with 1 - cos(r) to 5e-16 (2e-7 for float32 points); RA/Dec unit vectors to 1e-15']
    rep = Reporter(ctx)
    cfg = 'MC_MangleGeom_quick.cfg' if ctx.quick else 'MC_MangleGeom_thorough.cfg'
    r = ctx.tlc('MC_MangleGeom.tla', cfg, dump=True, timeout=1800)
    fams = {}
    pts = None
    for st in core.iter_states(r):
        c = st['c']
        if c['fam'] == 'pool':
            pts = c['pts']
        elif not c['fam'].startswith('seed') and c['fam'] != 'root':
            fams.setdefault(c['fam'], []).append((c, st['exp']))
    if pts is None:
        raise core.MachineryError('no pool state in the dump')
    for lst in fams.values():
        lst.sort(key=lambda s: repr(s[0]))       # dump order depends on worker scheduling (PYTHONHASHSEED is fixed)

    # ---- objects: FITS rows are written in batches (one table per 300 rows of equal IFIELD presence / width class)
    objs = fams.get('obj', [])
    fits_polys = {}
    groups = {}
    for k, (c, exp) in enumerate(objs):
        if c['route'] == 'fits':
            one = len(c['poly']['caps']) == 1 and k % 2 == 0        # tables whose widest polygon has one cap
            groups.setdefault((c['noid'], one), []).append(k)
    for (noid, one), idx in sorted(groups.items()):
        for b in range(0, len(idx), 300):
            part = idx[b:b + 300]
            rows = [(objs[k][0]['poly'], objs[k][0]['kw']) for k in part]
            width = 1 if one else max(len(p['caps']) for p, _ in rows) + (b // 300) % 2
            for k, P in zip(part, fits_polygons(ctx, rows, noid, width)):
                fits_polys[k] = P
    for k, (c, exp) in enumerate(objs):
        o = run_obj(ctx, c, k, fits_polys.get(k))
        ctx.evaluated(1, 'object/' + c['route'])
        ctx.validated()
        if c['poly']['use'] & frozenset(range(len(c['poly']['caps']))):
            ctx.nontriv(('obj', bpoly(c['poly'])))
        bad, finding = judge_obj(c, exp, o)
        if k % max(1, len(objs) // 3) == 0:
            ctx.sample({'object': describe(c), 'specified': J({kk: exp[kk] for kk in ('cmminf', 'gzeroar', 'garea')}),
                        'observed': {kk: o.get(kk) for kk in ('cmminf', 'gzeroar', 'garea', 'warned', 'str', 'raised')}}, limit=12)
        if bad:
            rep.fail('obj/%s/%s' % (c['route'], finding or 'unexplained'),
                     {'what': '%s [layout %d]: %s' % (describe(c), (k + ctx.seed) % NLAY, '; '.join(bad)), 'fam': 'obj', 'c': J(c),
                      'k': k, 'expected': J(exp), 'observed': J({kk: vv for kk, vv in o.items()})}, finding)

    # ---- add_caps / polyn
    for k, (c, exp) in enumerate(fams.get('alg', [])):
        o = run_alg(c, pts, k, ctx.seed)
        ctx.evaluated(1, c['op'])
        ctx.validated()
        if exp['in'] and exp['out']:
            ctx.nontriv(('alg', describe(c)))
        bad, finding = judge_alg(c, exp, o)
        if k % 997 == 0:
            ctx.sample({'call': describe(c), 'specified': {'ncaps': exp['ncaps'], 'points_in': len(exp['in']), 'points_out': len(exp['out'])},
                        'observed': {'ncaps': o.get('ncaps'), 'raised': o['raised']}}, limit=12)
        if bad:
            rep.fail('alg/%s/%s' % (c['op'], finding or 'unexplained'),
                     {'what': '%s [layouts %s, %s]: %s' % (describe(c), o.get('lay1'), o.get('lay2'), '; '.join(bad)), 'fam': 'alg',
                      'c': J(c), 'k': k, 'pts': J(pts), 'expected': J(exp), 'observed': J(o)}, finding)

    # ---- circle_cap
    circ = fams.get('circle', [])
    for k, (c, exp) in enumerate(circ):
        o = run_circle(c, pts, k, ctx.seed)
        ctx.evaluated(1, 'circle_cap')
        ctx.validated()
        if 0 < c['r'] < 180:
            ctx.nontriv(('circle', c['r'], c['i']))
        bad = judge_circle(c, exp, o)
        if bad:
            rep.fail('circle/unexplained', {'what': '%s [%s, radius form %d, layout %d]: %s' % (
                describe(c), o['coords'], o['form'], o['lay'], '; '.join(bad)), 'fam': 'circle', 'c': J(c), 'k': k, 'pts': J(pts),
                'expected': J(exp), 'observed': J(o)}, None)
    if circ:
        circle_batch(ctx, rep, pts, circ)
        ctx.sample({'call': describe(circ[0][0]), 'specified': J({'cm': circ[0][1]['cm']})}, limit=12)

    # ---- small families
    env = {}
    for k, (c, exp) in enumerate(fams.get('used', [])):
        o = run_used(c, k, ctx.seed)
        ctx.evaluated(1, 'is_cap_used')
        ctx.validated()
        if c['mask']:
            ctx.nontriv(('used', tuple(sorted(c['mask'])), c['i']))
        if o['raised'] or o['val'] != exp['val']:
            rep.fail('used/unexplained', {'what': '%s as %s: %s, specified %s' % (describe(c), o['form'], o['raised'] or o['val'], exp['val']),
                                          'fam': 'used', 'c': J(c), 'k': k, 'expected': J(exp)}, None)
    for k, (c, exp) in enumerate(fams.get('alias', [])):
        o = run_alias(ctx, c, env)
        ctx.evaluated(1, 'FITS_polygon')
        ctx.validated()
        good = exp['out'] == 'open' or (exp['out'] == 'col' and o['out'] == 'col' and o['col'] == exp['col']) or \
            (exp['out'] == 'AttributeError' and o['out'] == 'AttributeError') or \
            (exp['out'] == 'raise' and o['out'] in ('raise', 'AttributeError'))
        if not good:
            rep.fail('alias/unexplained', {'what': '%s: %r, specified %r' % (describe(c), o, J(exp)), 'fam': 'alias', 'c': J(c),
                                           'expected': J(exp)}, None)
    for k, (c, exp) in enumerate(fams.get('single', [])):
        got = run_single(ctx, c, env)
        ctx.evaluated(1, '_single_polygon')
        ctx.validated()
        if exp['out'] != 'open' and got != exp['out']:
            rep.fail('single/unexplained', {'what': '%s: %s, specified %s' % (describe(c), got, exp['out']), 'fam': 'single',
                                            'c': J(c), 'expected': J(exp)}, None)
    for k, (c, exp) in enumerate(fams.get('plist', [])):
        got = run_plist(c)
        ctx.evaluated(1, 'PolygonList')
        ctx.validated()
        if got['len'] != exp['len'] or got['header'] != tuple(exp['header']):
            rep.fail('plist/unexplained', {'what': '%s: %r, specified %r' % (describe(c), got, J(exp)), 'fam': 'plist', 'c': J(c),
                                           'expected': J(exp)}, None)
    for k, (c, exp) in enumerate(fams.get('ctorargs', [])):
        got = run_ctorargs(c)
        ctx.evaluated(1, 'ManglePolygon-arguments')
        ctx.validated()
        if got != exp['out']:
            rep.fail('ctorargs/unexplained', {'what': 'ManglePolygon(%s): %s, specified %s' % (c['kind'], got, exp['out']),
                                              'fam': 'ctorargs', 'c': J(c), 'expected': J(exp)}, None)
    for k, (c, exp) in enumerate(fams.get('circleargs', [])):
        got = run_circleargs(c)
        ctx.evaluated(1, 'circle_cap-arguments')
        ctx.validated()
        if (exp['out'] == 'raise') != got.startswith('raise') or (exp['out'] == 'ok' and got != 'ok'):
            rep.fail('circleargs/unexplained', {'what': '%s: %s, specified %s' % (describe(c), got, exp['out']), 'fam': 'circleargs',
                                                'c': J(c), 'expected': J(exp)}, None)

    # ---- code -> spec
    rng = random.Random(ctx.seed)
    sizes = (500, 500, 150, 80, 300, 40) if ctx.quick else (6000, 6000, 1500, 600, 3000, 300)
    recs, meta = record_calls(ctx, rng, *sizes)
    verdict = core.validate_records(ctx, 'Trace_MangleGeom', recs, chunk=4000)
    ctx.evaluated(len(recs), 'recorded')
    ctx.validated(len(recs))
    for k, rec in enumerate(recs):
        if rec['kind'] in ('obj', 'alg', 'area'):
            ctx.nontriv(('rec', k))
    for k in sorted(verdict):
        why = verdict[k]
        if why == 'input':
            raise core.MachineryError('Trace_MangleGeom rejected the INPUT of record %d: %r' % (k, recs[k]))
        mt = re.match(r'(D-X06-\d+)', why)
        finding = mt.group(1) if mt else None
        m = meta[k]
        if finding == 'D-X06-3' and not str(m.get('exc', '')).startswith('AttributeError'):
            finding = None
        what = m.get('call') or ('polygon %s route=%s' % (bpoly(m['poly']), m['route']) + (' of ManglePolygon()' if m.get('noargs') else ''))
        rep.fail('recorded/%s/%s' % (recs[k]['kind'], finding or 'unexplained'),
                 {'what': 'recorded %s rejected by Trace_MangleGeom (%s) %s' % (what, why, m.get('exc', '')), 'fam': 'record',
                  'record': recs[k], 'meta': J({kk: vv for kk, vv in m.items() if kk != 'poly'})}, finding)
    ctx.sample({'recorded_call': recs[0]}, limit=13)
    rep.finish()
    ctx.exhaustive = not ctx.quick


def replay(ctx, case):
    """bin/check X06 --replay <file>: re-run the one failing case of a replay file against its stored expectation."""
    ctx.level = 'model_checking'
    ctx.rule = 'single replayed case'
    ctx.nontriv('a')
    ctx.nontriv('b')
    ctx.evaluated(1)
    fam = case['fam']
    if fam == 'record':
        bad = core.validate_records(ctx, 'Trace_MangleGeom', [case['record']])
        print('stored record judged again by Trace_MangleGeom:', bad or 'accepted')
        print('(recorded calls are re-recorded by the full check; the stored observation is what the code returned then)')
        if bad:
            ctx.violation(case)
        return

    def thaw(v):
        if isinstance(v, dict):
            return {kk: thaw(x) for kk, x in v.items()}
        if isinstance(v, list):
            return tuple(thaw(x) for x in v)
        return v
    c = thaw(case['c'])
    exp = thaw(case.get('expected', {}))
    for p in ('poly', 'p1', 'p2'):
        if p in c:
            c[p]['use'] = frozenset(c[p]['use'])
    k = case.get('k', 0)
    if fam == 'obj':
        exp['attrs']['use'] = frozenset(exp['attrs']['use'])
        exp['cmminf']['idx'] = frozenset(exp['cmminf']['idx'])
        fp = None
        if c['route'] == 'fits':
            fp = fits_polygons(ctx, [(c['poly'], c['kw'])], c['noid'], max(1, len(c['poly']['caps'])))[0]
        o = run_obj(ctx, c, k, fp)
        bad, _ = judge_obj(c, exp, o)
    elif fam == 'alg':
        for s in ('in', 'out'):
            exp[s] = frozenset(exp[s])
            exp['dev1'][s] = frozenset(exp['dev1'][s])
        o = run_alg(c, thaw(case['pts']), k, ctx.seed)
        bad, _ = judge_alg(c, exp, o)
    elif fam == 'circle':
        for s in ('in', 'out'):
            exp[s] = frozenset(exp[s])
        o = run_circle(c, thaw(case['pts']), k, ctx.seed)
        bad = judge_circle(c, exp, o)
    elif fam == 'used':
        c['mask'] = frozenset(c['mask'])
        o = run_used(c, k, ctx.seed)
        bad = [] if (not o['raised'] and o['val'] == exp['val']) else ['is_cap_used %r' % (o,)]
    else:
        print('family %s: run the full check' % fam)
        return
    print('replayed:', case['what'], '\nobserved now:', o, '\ndisagreements:', bad)
    if bad:
        ctx.violation(case)
