"""C03 - a yanny object and its file never diverge over write/append histories.
Spec: spec/YannyFile.tla (one action per call and outcome); MC: mc/MC_YannyFile (all histories up to MaxOps, negative controls);
spec -> code: every TLC history replayed on real yanny objects and real files; code -> spec: recorded random histories
validated event by event by trace/Trace_YannyFile."""
import copy
import os
import random
import shutil
import warnings

import numpy as np

from .. import core

FILES = ('f1', 'f2')
TABLES = ('TA', 'TB')
NOFILE = 'nofile'


def s_of(n):
    if n % 3 == 0:
        return 'a\tb%d' % n                              # a tab and no blank: needs quoting too
    return ('v%d' % n) if n % 2 else ('a b%d' % n)      # even ids need quoting (blank inside)


BIG0 = 1237648720693755918        # a 64-bit id that a double cannot hold exactly (every row carries BIG0 + n)
TA_DT = np.dtype([('n', 'i4'), ('s', 'S8'), ('big', 'i8')])
TB_DT = np.dtype([('n', 'i4'), ('arr', 'i4', (2,))])


def ta_rows(ns):
    a = np.zeros((len(ns),), dtype=TA_DT)
    for i, n in enumerate(ns):
        a[i] = (n, s_of(n).encode(), BIG0 + n)
    return a


def tb_rows(ns):
    a = np.zeros((len(ns),), dtype=TB_DT)
    for i, n in enumerate(ns):
        a['n'][i] = n
        a['arr'][i] = [n, n + 1]
    return a


UNSIZED_BASE = '''#%%yanny
# base file with an unsized string column
K0 0

typedef struct {
    int n;
    char s[];
    long big;
} TA;

typedef struct {
    int n;
    int arr[2];
} TB;

TA 1 v1 %d
TA 2 "a b2" %d
'''


class World:
    """Real files in a scratch directory + one real yanny object."""

    def __init__(self, root, raw, start, rng):
        from pydl.pydlutils.yanny import yanny, write_ndarray_to_yanny
        self.root = root
        self.raw = raw
        self.rng = rng
        shutil.rmtree(root, ignore_errors=True)
        os.makedirs(root)
        if start == NOFILE:
            self.par = yanny()
        else:
            if rng.random() < 0.5:
                write_ndarray_to_yanny(self.path(start), [ta_rows([1, 2]), tb_rows([])], structnames=['TA', 'TB'], hdr={'K0': 0})
            else:
                # the same base content as a hand-written file whose string column is unsized (char s[])
                with open(self.path(start), 'w') as fh:
                    fh.write(UNSIZED_BASE % (BIG0 + 1, BIG0 + 2))
            self.par = yanny(self.path(start), raw=raw)

    def path(self, f):
        return os.path.join(self.root, f + '.par')

    def fname(self):
        fn = self.par.filename
        if not fn:
            return NOFILE
        b = os.path.basename(fn)[:-4]
        return b if b in FILES else 'other:' + fn

    # ---- projections -----------------------------------------------------------------------
    def project_obj(self, par=None):
        par = par if par is not None else self.par
        rows = {}
        for t in TABLES:
            out = []
            if t in par.tables():
                d = par[t]
                for k in range(par.size(t)):
                    n = int(d['n'][k])
                    if t == 'TA':
                        s = d['s'][k]
                        s = s.decode() if isinstance(s, bytes) else str(s)
                        good = s == s_of(n) and int(d['big'][k]) == BIG0 + n
                    else:
                        good = [int(x) for x in d['arr'][k]] == [n, n + 1]
                    out.append(n if good else -1)
            rows[t] = out
        pairs = []
        for k in par.pairs():
            try:
                pairs.append([k, int(par[k])])
            except (ValueError, TypeError):
                pairs.append([k, -1])
        return {'rows': rows, 'pairs': pairs}

    def project_file(self, f):
        p = self.path(f)
        if not os.path.exists(p):
            return {'exists': False, 'lines': []}
        with open(p) as fh:
            raw_lines = fh.read().split('\n')
        lines = []
        in_td = None
        prev_comment = False
        for ln in raw_lines:
            s = ln.strip()
            if in_td is not None:
                if s.startswith('}'):
                    lines.append(['td', s[1:].strip().rstrip(';').strip().upper()])
                    in_td = None
                continue
            if s == '':
                continue
            if s.startswith('#'):
                if not prev_comment:
                    lines.append(['note'] if lines else ['head'])
                prev_comment = True
                continue
            prev_comment = False
            if s.split()[0] == 'typedef':          # the keyword itself, not a pair whose key merely starts with it
                in_td = s
                continue
            toks = s.split()
            if toks[0].upper() in TABLES:
                try:
                    lines.append(['row', toks[0].upper(), int(toks[1])])
                except (ValueError, IndexError):
                    lines.append(['row', toks[0].upper(), -1])
            else:
                try:
                    lines.append(['pair', toks[0], int(toks[1])])
                except (ValueError, IndexError):
                    lines.append(['pair', toks[0], -1])
        return {'exists': True, 'lines': lines}

    def snapshot(self):
        fs = {f: self.project_file(f) for f in FILES}
        o = self.project_obj()
        o['fname'] = self.fname()
        return fs, o

    def bytes_of(self):
        out = {}
        for f in FILES:
            if os.path.exists(self.path(f)):
                with open(self.path(f), 'rb') as fh:
                    out[f] = fh.read()
        return out

    # ---- operations ---------------------------------------------------------------------------
    def apply(self, call):
        """call: dict(op, f, pairs, rows).  Returns the event (outcome + projections after the call)."""
        from pydl.pydlutils import PydlutilsException, PydlutilsUserWarning
        from pydl.pydlutils.yanny import yanny
        before = self.bytes_of()
        out = 'ok'
        ev = dict(call)
        try:
            if call['op'] == 'write':
                if call['f'] == NOFILE:
                    self.par.write()
                else:
                    self.par.write(self.path(call['f']))
            elif call['op'] == 'append':
                dt = {}
                for k, v in call['pairs']:
                    dt[k] = v
                for t in TABLES:
                    ns = list(call['rows'][t])
                    if not ns and self.rng.random() < 0.6:
                        continue
                    # no rows for this table: either not mentioned at all (above), or mentioned with an empty
                    # selection - an append of nothing is not only spelled {} (statement: "appending nothing only warns")
                    key = t if self.rng.random() < 0.5 else t.lower()
                    arr = ta_rows(ns) if t == 'TA' else tb_rows(ns)
                    if self.rng.random() < 0.5:
                        dt[key] = arr
                    else:
                        dt[key] = {c: [x.decode() if isinstance(x, bytes) else (x.tolist() if hasattr(x, 'tolist') else x)
                                       for x in arr[c]] for c in arr.dtype.names}
                if self.rng.random() < 0.15:
                    dt['symbols'] = {'struct': [], 'enum': []}      # ignored by append() by contract (a whole-object dict)
                with warnings.catch_warnings(record=True) as w:
                    warnings.simplefilter('always')
                    self.par.append(dt)
                if any(issubclass(x.category, PydlutilsUserWarning) for x in w):
                    out = 'warn'
            elif call['op'] == 'delete':
                os.remove(self.path(call['f']))
            elif call['op'] == 'reread':
                fresh = yanny(self.par.filename, raw=self.raw)
                ev['reread'] = self.project_obj(fresh)
        except (PydlutilsException, ValueError) as ex:
            out = 'raise'
            ev['exc'] = type(ex).__name__
        except Exception as ex:       # an unrelated exception explains no action of the spec
            out = 'error:' + type(ex).__name__
            ev['exc'] = '%s: %s' % (type(ex).__name__, str(ex)[:120])
        after = self.bytes_of()
        ev['bytes_prefix'] = all(after[f].startswith(before[f]) for f in before if f in after)
        ev['out'] = out
        ev['fs'], ev['obj'] = self.snapshot()
        if 'reread' not in ev:
            ev['reread'] = {'rows': {t: [] for t in TABLES}, 'pairs': []}
        return ev


def norm_call(c):
    return {'op': c['op'], 'f': c['f'], 'pairs': [[k, v] for k, v in c['pairs']],
            'rows': {t: list(c['rows'][t]) for t in TABLES}}


def spec_fs(fs):
    return {f: {'exists': fs[f]['exists'], 'lines': [list(l) for l in fs[f]['lines']]} for f in FILES}


def spec_obj(o):
    return {'rows': {t: list(o['rows'][t]) for t in TABLES}, 'pairs': [[k, v] for k, v in o['pairs']], 'fname': o['fname']}


def replay_history(ctx, st, root, raw, rng):
    w = World(root, raw, st['start'], rng)
    ev = None
    for c in st['hist']:
        ev = w.apply(norm_call(c))
    fs, obj = w.snapshot()
    want_fs, want_obj = spec_fs(st['fs']), spec_obj(st['obj'])
    problems = []
    if fs != want_fs:
        problems.append('files: spec %r real %r' % (want_fs, fs))
    if obj != want_obj:
        problems.append('object: spec %r real %r' % (want_obj, obj))
    if ev is not None and ev['out'] != st['last']['out']:
        problems.append('outcome of last call: spec %s real %s %s' % (st['last']['out'], ev['out'], ev.get('exc', '')))
    if ev is not None and not ev['bytes_prefix']:
        problems.append('earlier bytes of a file were not preserved by the last call')
    return problems


def random_trace(root, rng, nops):
    raw = rng.random() < 0.4
    start = rng.choice(['f1', 'f2', 'f1', NOFILE])
    w = World(root, raw, start, rng)
    fs0, obj0 = w.snapshot()
    events = []
    nextid = 10
    used = {'K0'}
    for _ in range(nops):
        op = rng.choice(['append', 'append', 'append', 'write', 'write', 'delete', 'reread', 'append'])
        call = {'op': op, 'f': NOFILE, 'pairs': [], 'rows': {t: [] for t in TABLES}}
        cur = w.fname()
        if op == 'write':
            if cur == NOFILE:
                call['f'] = NOFILE
            else:
                call['f'] = rng.choice(FILES)
        elif op == 'delete':
            existing = [f for f in FILES if os.path.exists(w.path(f))]
            if not existing:
                continue
            call['f'] = rng.choice(existing)
        elif op == 'reread':
            if cur == NOFILE or not os.path.exists(w.path(cur)):
                continue
            call['f'] = cur
        else:
            call['f'] = cur
            if rng.random() < 0.35:
                k = rng.choice(['key%d' % nextid, 'enum', 'struct', 'typedefs', 'k0'])   # 'k0' differs from the base keyword 'K0' only in case
                if k in used:
                    k = 'key%d' % nextid
                call['pairs'] = [[k, nextid]]
                used.add(k)
            for t in TABLES:
                r = rng.random()
                if r < 0.45:
                    m = rng.choice([1, 1, 2, 3])
                    call['rows'][t] = list(range(nextid, nextid + m))
                    nextid += m
            nextid += 1
        events.append(w.apply(call))
    return {'raw': raw, 'init': {'fs': fs0, 'obj': obj0}, 'events': events}


def validate_traces(ctx, traces, label):
    """Returns {trace index: first unexplained event index (0-based)}."""
    path = core.write_json(os.path.join(ctx.scratch, 'yf_traces.json'), traces)
    r = ctx.tlc('Trace_YannyFile.tla', 'Trace_YannyFile.cfg', dump=True, env={'VERIF_TRACE': path}, count=False,
                label=label, must_hold=False, workers=8)
    if r['violated']:
        # an invariant / action property failed on a state reached by a recorded trace: find which
        pass
    reach = {}
    for st in core.iter_states(r):
        reach[st['tid']] = max(reach.get(st['tid'], 0), st['l'])
    bad = {}
    for i, t in enumerate(traces):
        got = reach.get(i + 1, 0)
        if got != len(t['events']) + 1:
            bad[i] = max(got - 1, 0)
    return bad, r['violated']


def run(ctx):
    ctx.level = 'model_checking'
    ctx.rule = ('MC_YannyFile states carry the call history that reached them; each history is replayed on a real yanny object and real files and the '
                'projected object/files/outcome compared with the TLC state; non-trivial = distinct history with at least one successful append or write; '
                'recorded random histories are validated event by event by Trace_YannyFile')
    ctx.assumptions = ['projection: a row is its table and integer id (other cells are a function of the id and are checked when projecting)',
                       'comment/blank lines are collapsed to one head/note token; byte-level prefix preservation is measured on the real bytes and logged per event',
                       'appended keys are fresh (a repeated key cannot be held twice by a dictionary)']
    rng = random.Random(ctx.seed)
    root = os.path.join(ctx.scratch, 'world')
    # negative controls: the invariants are not vacuous
    for dev in ('dev_objectonly', 'dev_clobber'):
        r = ctx.tlc('MC_YannyFile.tla', 'MC_YannyFile_%s.cfg' % dev, must_hold=False, count=False, label='negative control ' + dev)
        if not r['violated']:
            raise core.MachineryError('negative control %s was not refuted by TLC' % dev)
    # quick: all histories of <= 3 calls with the small append menu; thorough: <= 4 calls with the small menu
    # and <= 3 calls with the rich menu (the history variable makes every path a distinct state)
    cfgs = ['MC_YannyFile_quick.cfg'] if ctx.quick else ['MC_YannyFile_thorough.cfg', 'MC_YannyFile_thorough_rich.cfg']
    budget = 1500 if ctx.quick else 20000
    pool = []
    n = 0
    for cfg in cfgs:
        r = ctx.tlc('MC_YannyFile.tla', cfg, dump=True, timeout=2400)
        deep = 3 if cfg != 'MC_YannyFile_thorough.cfg' else 4
        part = []
        for st in core.iter_states(r):
            if not st['hist']:
                continue
            if len(st['hist']) >= deep:
                # reservoir of the deepest histories: keep memory bounded
                if len(part) < budget:
                    part.append(st)
                else:
                    k = rng.randrange(0, n + len(part) + 1)
                    if k < budget:
                        part[k] = st
                continue
            n += do_replay(ctx, st, root, rng)
        pool.extend(part)
    rng.shuffle(pool)
    for st in pool[:budget]:
        n += do_replay(ctx, st, root, rng)
    ctx.cov['parts']['histories_replayed'] = n
    ctx.cov['parts']['deep_histories_available'] = len(pool)
    # ---- code -> spec ---------------------------------------------------------------------------
    ntr = 150 if ctx.quick else 2000
    traces = [random_trace(root, rng, rng.randint(4, 12)) for _ in range(ntr)]
    bad, violated = validate_traces(ctx, traces, 'Trace_YannyFile %d recorded histories' % ntr)
    ctx.evaluated(sum(len(t['events']) for t in traces), 'recorded_events')
    ctx.validated(len(traces))
    for t in traces:
        if any(e['op'] == 'append' and e['out'] == 'ok' for e in t['events']):
            ctx.nontriv(('trace', repr(t['events'])[:2000]))
    ctx.sample({'recorded_history': [{k: e[k] for k in ('op', 'f', 'pairs', 'rows', 'out')} for e in traces[0]['events']]})
    for i in sorted(bad):
        t = traces[i]
        k = bad[i]
        ev = t['events'][k] if k < len(t['events']) else None
        ctx.violation({'what': 'recorded history rejected by Trace_YannyFile at event %d: %s' % (
            k, {kk: ev[kk] for kk in ('op', 'f', 'pairs', 'rows', 'out', 'exc', 'bytes_prefix') if ev and kk in ev}),
            'trace': t, 'event_index': k})
    if violated and not bad:
        raise core.MachineryError('Trace_YannyFile reported %s but every trace was accepted' % violated)
    # binding self-test: a corrupted record and a dropped event must be rejected
    good = [t for i, t in enumerate(traces) if i not in bad and any(e['op'] == 'append' and e['out'] == 'ok' for e in t['events'])]
    if good:
        t1 = copy.deepcopy(good[0])
        k = [i for i, e in enumerate(t1['events']) if e['op'] == 'append' and e['out'] == 'ok'][0]
        tgt = t1['events'][k]['obj']['rows']
        tname = [t for t in TABLES if tgt[t]][0] if any(tgt[t] for t in TABLES) else None
        if tname:
            tgt[tname] = tgt[tname][:-1]
        else:
            t1['events'][k]['obj']['pairs'] = t1['events'][k]['obj']['pairs'][:-1]
        t2 = copy.deepcopy(good[0])
        del t2['events'][k]
        b2, _ = validate_traces(ctx, [t1, t2], 'binding self-test (corrupted field, dropped event)')
        if 0 not in b2 or (1 not in b2 and len(t2['events']) > k):
            raise core.MachineryError('binding self-test failed: corrupted trace accepted (%r)' % (b2,))
        ctx.cov['parts']['binding_selftest'] = 'corrupted field rejected at event %d; dropped event rejected: %s' % (b2.get(0, -1), 1 in b2)
    shutil.rmtree(root, ignore_errors=True)
    ctx.exhaustive = False


def do_replay(ctx, st, root, rng):
    raw = rng.random() < 0.4
    problems = replay_history(ctx, st, root, raw, rng)
    ctx.evaluated(len(st['hist']), 'replayed_calls')
    ctx.validated()
    hist = [norm_call(c) for c in st['hist']]
    if st['last']['out'] == 'ok' and st['last']['op'] in ('append', 'write'):
        ctx.nontriv(repr((st['start'], hist)))
    if len(hist) == 3:
        ctx.sample({'start': st['start'], 'history': hist, 'final_object': spec_obj(st['obj'])}, limit=3)
    if problems:
        ctx.violation({'what': 'history %s from start %s (raw=%s): %s' % (
            [(c['op'], c['f'], c['pairs'], c['rows']) for c in hist], st['start'], raw, problems[0][:300]),
            'start': st['start'], 'raw': raw, 'hist': hist, 'problems': problems,
            'spec_state': {'fs': spec_fs(st['fs']), 'obj': spec_obj(st['obj']), 'last': dict(st['last'])}})
    return 1


def replay(ctx, case):
    ctx.level = 'model_checking'
    ctx.rule = 'single replayed history'
    ctx.nontriv('a'); ctx.nontriv('b')
    rng = random.Random(ctx.seed)
    root = os.path.join(ctx.scratch, 'world')
    if 'hist' in case:
        st = {'start': case['start'], 'hist': case['hist'], 'fs': case['spec_state']['fs'], 'obj': case['spec_state']['obj'],
              'last': case['spec_state']['last']}
        problems = replay_history(ctx, st, root, case.get('raw', False), rng)
        print('history:', case['hist'], '\nproblems:', problems or 'none')
        ctx.evaluated(1)
        if problems:
            ctx.violation(case)
    else:
        bad, _ = validate_traces(ctx, [case['trace']], 'replayed recorded history')
        print('recorded history re-validated:', 'rejected at event %d' % bad[0] if bad else 'accepted')
        ctx.evaluated(1)
        if bad:
            ctx.violation(case)
