"""C03 - a yanny object and its file never diverge over write/append histories.
Spec: spec/YannyFile.tla (one action per call and outcome); MC: mc/MC_YannyFile (all histories up to MaxOps, negative controls);
spec -> code: every TLC history replayed on real yanny objects and real files; code -> spec: recorded random histories
validated event by event by trace/Trace_YannyFile.
Every history starts from one of the spec's table sets (YannyFile!TableSetNames: which columns each table has, incl. column names
shared between the tables as scalar / array / other length / other kind); the harness builds the structures and rows from the
table set record TLC dumps, and TLC says which cells every row of the object and of a fresh read must hold."""
import copy
import os
import random
import re
import shutil
import warnings

import numpy as np

from .. import core

FILES = ('f1', 'f2')
TABLES = ('TA', 'TB')
NOFILE = 'nofile'


def s_of(n):
    if n % 3 == 0:
        return 'a\tb%d' % n                              # a tab and no blank: needs quoting too
    return ('v%d' % n) if n % 2 else ('a b%d' % n)      # even ids need quoting (blank inside)


BIG0 = 1237648720693755918        # a 64-bit id that a double cannot hold exactly (a "big" cell number m is BIG0 + m)
S_RE = re.compile(r'(?:v|a b|a\tb)(\d+)\Z')
KIND_DT = {'int': 'i4', 'big': 'i8', 'str': 'S8'}
KIND_C = {'int': 'int', 'big': 'long', 'str': 'char'}


def value_of(kind, m):
    """Concretise: the spec's cell number m of a kind -> the real value."""
    return m if kind == 'int' else (BIG0 + m if kind == 'big' else s_of(m))


def abstract_value(x):
    """Abstract: a real value -> (kind, number); anything that is not the image of value_of is ('other', -1)."""
    if isinstance(x, (bytes, np.bytes_)):
        try:
            x = x.decode()
        except UnicodeDecodeError:
            return 'other', -1
    if isinstance(x, str):
        m = S_RE.match(x)
        if m and len(m.group(1)) < 9 and s_of(int(m.group(1))) == x:
            return 'str', int(m.group(1))
        return 'other', -1
    if isinstance(x, (bool, np.bool_)):
        return 'other', -1
    if isinstance(x, (int, np.integer)):
        x = int(x)
        if 0 <= x - BIG0 < 10 ** 6:
            return 'big', x - BIG0
        if abs(x) < 2 ** 30:
            return 'int', x
    return 'other', -1


def abstract_cell(x):
    """A real cell -> the spec's [kind, arr, v]."""
    if isinstance(x, (list, tuple, np.ndarray)):
        kv = [abstract_value(e) for e in (x.tolist() if isinstance(x, np.ndarray) and x.dtype.kind not in 'SU' else list(x))]
        kinds = set(k for k, _ in kv)
        return {'kind': kinds.pop() if len(kinds) == 1 else 'other', 'arr': True, 'v': [v for _, v in kv]}
    k, v = abstract_value(x)
    return {'kind': k, 'arr': False, 'v': [v]}


class TableSetOf:
    """Concretises one of the spec's table sets (its name and every table's columns, as dumped by TLC)."""

    def __init__(self, rec):
        self.name = rec['name']
        self.cols = {t: [dict(c) for c in rec['cols'][t]] for t in TABLES}
        for t in TABLES:
            c0 = self.cols[t][0]
            if (c0['name'], c0['kind'], c0['dim']) != ('n', 'int', 0):
                raise core.MachineryError('table set %s: %s does not start with the row id' % (self.name, t))

    def dtype(self, t):
        return np.dtype([(c['name'], KIND_DT[c['kind']]) if c['dim'] == 0 else (c['name'], KIND_DT[c['kind']], (c['dim'],))
                         for c in self.cols[t]])

    def cell(self, c, n):
        if c['dim'] == 0:
            return value_of(c['kind'], n)
        return [value_of(c['kind'], n + j) for j in range(c['dim'])]

    def rows(self, t, ns):
        a = np.zeros((len(ns),), dtype=self.dtype(t))
        for i, n in enumerate(ns):
            for c in self.cols[t]:
                a[c['name']][i] = self.cell(c, n)
        return a

    def lists(self, t, ns):
        return {c['name']: [self.cell(c, n) for n in ns] for c in self.cols[t]}

    def text(self, base_rows):
        """The base content as a hand-written file whose scalar string columns are unsized (char s[])."""
        out = ['#%yanny', '# base file with unsized string columns', 'K0 0', '']
        for t in TABLES:
            out.append('typedef struct {')
            for c in self.cols[t]:
                dims = ('[%d]' % c['dim'] if c['dim'] else '') + (('[8]' if c['dim'] else '[]') if c['kind'] == 'str' else '')
                out.append('    %s %s%s;' % (KIND_C[c['kind']], c['name'], dims))
            out.append('} %s;' % t)
            out.append('')

        def tok(v):
            v = str(v)
            return '"%s"' % v if re.search(r'\s', v) else v
        for t in TABLES:
            for n in base_rows[t]:
                cells = []
                for c in self.cols[t]:
                    v = self.cell(c, n)
                    cells.append('{' + ' '.join(tok(x) for x in v) + '}' if c['dim'] else tok(v))
                out.append(' '.join([t] + cells))
        return '\n'.join(out) + '\n'


class World:
    """Real files in a scratch directory + one real yanny object."""

    def __init__(self, root, raw, start, rng, tset, base):
        """tset: TableSetOf; base: the spec's initial content of a file-started history ({'rows': {table: ids}, 'pairs': [[k, v]]})."""
        from pydl.pydlutils.yanny import yanny, write_ndarray_to_yanny
        self.root = root
        self.raw = raw
        self.rng = rng
        self.tset = tset
        shutil.rmtree(root, ignore_errors=True)
        os.makedirs(root)
        if start == NOFILE:
            self.par = yanny()
        else:
            if [list(p) for p in base['pairs']] != [['K0', 0]]:
                raise core.MachineryError('the base content of the spec changed: pairs %r' % (base['pairs'],))
            if rng.random() < 0.5:
                write_ndarray_to_yanny(self.path(start), [tset.rows(t, list(base['rows'][t])) for t in TABLES],
                                       structnames=list(TABLES), hdr={'K0': 0})
            else:
                # the same base content as a hand-written file whose scalar string columns are unsized (char s[])
                with open(self.path(start), 'w') as fh:
                    fh.write(tset.text({t: list(base['rows'][t]) for t in TABLES}))
            self.par = yanny(self.path(start), raw=raw)

    def path(self, f):
        return os.path.join(self.root, f + '.par')

    def fname(self):
        fn = self.par.filename
        if not fn:
            return NOFILE
        b = os.path.basename(fn)[:-4]
        return b if b in FILES else 'other:' + fn

    # ---- projections -----------------------------------------------------------------------
    def project_obj(self, par=None):
        """rows: every table's row ids in order; cells: every row's cells abstracted one by one (TLC says what they must be)."""
        par = par if par is not None else self.par
        rows = {}
        cells = {}
        for t in TABLES:
            out = []
            cs = []
            if t in par.tables():
                d = par[t]
                for k in range(par.size(t)):
                    row = []
                    for c in par.columns(t):
                        try:
                            row.append(abstract_cell(d[c][k]))
                        except (IndexError, KeyError, ValueError):     # a column shorter than the table (raw mode): the cell is absent
                            row.append({'kind': 'absent', 'arr': False, 'v': [-1]})
                    first = row[0] if row else None
                    out.append(first['v'][0] if first and first['kind'] == 'int' and not first['arr'] else -1)
                    cs.append(row)
            rows[t] = out
            cells[t] = cs
        pairs = []
        for k in par.pairs():
            try:
                pairs.append([k, int(par[k])])
            except (ValueError, TypeError):
                pairs.append([k, -1])
        return {'rows': rows, 'pairs': pairs, 'cells': cells}

    def project_file(self, f):
        p = self.path(f)
        if not os.path.exists(p):
            return {'exists': False, 'lines': []}
        with open(p) as fh:
            raw_lines = fh.read().split('\n')
        lines = []
        in_td = None
        prev_comment = False
        for ln in raw_lines:
            s = ln.strip()
            if in_td is not None:
                if s.startswith('}'):
                    lines.append(['td', s[1:].strip().rstrip(';').strip().upper()])
                    in_td = None
                continue
            if s == '':
                continue
            if s.startswith('#'):
                if not prev_comment:
                    lines.append(['note'] if lines else ['head'])
                prev_comment = True
                continue
            prev_comment = False
            if s.split()[0] == 'typedef':          # the keyword itself, not a pair whose key merely starts with it
                in_td = s
                continue
            toks = s.split()
            if toks[0].upper() in TABLES:
                try:
                    lines.append(['row', toks[0].upper(), int(toks[1])])
                except (ValueError, IndexError):
                    lines.append(['row', toks[0].upper(), -1])
            else:
                try:
                    lines.append(['pair', toks[0], int(toks[1])])
                except (ValueError, IndexError):
                    lines.append(['pair', toks[0], -1])
        return {'exists': True, 'lines': lines}

    def snapshot(self):
        fs = {f: self.project_file(f) for f in FILES}
        o = self.project_obj()
        o['fname'] = self.fname()
        return fs, o

    def bytes_of(self):
        out = {}
        for f in FILES:
            if os.path.exists(self.path(f)):
                with open(self.path(f), 'rb') as fh:
                    out[f] = fh.read()
        return out

    # ---- operations ---------------------------------------------------------------------------
    def apply(self, call):
        """call: dict(op, f, pairs, rows).  Returns the event (outcome + projections after the call)."""
        from pydl.pydlutils import PydlutilsException, PydlutilsUserWarning
        from pydl.pydlutils.yanny import yanny
        before = self.bytes_of()
        out = 'ok'
        ev = dict(call)
        try:
            if call['op'] == 'write':
                if call['f'] == NOFILE:
                    self.par.write()
                else:
                    self.par.write(self.path(call['f']))
            elif call['op'] == 'append':
                dt = {}
                for k, v in call['pairs']:
                    dt[k] = v
                for t in TABLES:
                    ns = list(call['rows'][t])
                    if not ns and self.rng.random() < 0.6:
                        continue
                    # no rows for this table: either not mentioned at all (above), or mentioned with an empty
                    # selection - an append of nothing is not only spelled {} (statement: "appending nothing only warns")
                    key = t if self.rng.random() < 0.5 else t.lower()
                    if self.rng.random() < 0.5:
                        dt[key] = self.tset.rows(t, ns)
                    else:
                        dt[key] = self.tset.lists(t, ns)
                if self.rng.random() < 0.15:
                    dt['symbols'] = {'struct': [], 'enum': []}      # ignored by append() by contract (a whole-object dict)
                with warnings.catch_warnings(record=True) as w:
                    warnings.simplefilter('always')
                    self.par.append(dt)
                if any(issubclass(x.category, PydlutilsUserWarning) for x in w):
                    out = 'warn'
            elif call['op'] == 'delete':
                os.remove(self.path(call['f']))
            elif call['op'] == 'reread':
                fresh = yanny(self.par.filename, raw=self.raw)
                ev['reread'] = self.project_obj(fresh)
        except (PydlutilsException, ValueError) as ex:
            out = 'raise'
            ev['exc'] = type(ex).__name__
        except Exception as ex:       # an unrelated exception explains no action of the spec
            out = 'error:' + type(ex).__name__
            ev['exc'] = '%s: %s' % (type(ex).__name__, str(ex)[:120])
        after = self.bytes_of()
        ev['bytes_prefix'] = all(after[f].startswith(before[f]) for f in before if f in after)
        ev['out'] = out
        ev['fs'], ev['obj'] = self.snapshot()
        if 'reread' not in ev:
            ev['reread'] = {'rows': {t: [] for t in TABLES}, 'pairs': [], 'cells': {t: [] for t in TABLES}}
        return ev


def norm_call(c):
    return {'op': c['op'], 'f': c['f'], 'pairs': [[k, v] for k, v in c['pairs']],
            'rows': {t: list(c['rows'][t]) for t in TABLES}}


def spec_fs(fs):
    return {f: {'exists': fs[f]['exists'], 'lines': [list(l) for l in fs[f]['lines']]} for f in FILES}


def spec_obj(o):
    return {'rows': {t: list(o['rows'][t]) for t in TABLES}, 'pairs': [[k, v] for k, v in o['pairs']], 'fname': o['fname']}


def spec_cells(c):
    return {t: [[{'kind': x['kind'], 'arr': bool(x['arr']), 'v': list(x['v'])} for x in row] for row in c[t]] for t in TABLES}


def spec_fresh(fr):
    return {'rows': {t: list(fr['rows'][t]) for t in TABLES}, 'pairs': [[k, v] for k, v in fr['pairs']], 'cells': spec_cells(fr['cells'])}


def replay_history(ctx, st, root, raw, rng):
    w = World(root, raw, st['start'], rng, TableSetOf(st['tset']), st.get('base'))
    ev = None
    for c in st['hist']:
        ev = w.apply(norm_call(c))
    fs, obj = w.snapshot()
    cells = obj.pop('cells')
    want_fs, want_obj, want_cells = spec_fs(st['fs']), spec_obj(st['obj']), spec_cells(st['cells'])
    problems = []
    if fs != want_fs:
        problems.append('files: spec %r real %r' % (want_fs, fs))
    if obj != want_obj:
        problems.append('object: spec %r real %r' % (want_obj, obj))
    if cells != want_cells:
        problems.append('cells of the object (table set %s): spec %r real %r' % (st['tset']['name'], want_cells, cells))
    if ev is not None and ev['out'] != st['last']['out']:
        problems.append('outcome of last call: spec %s real %s %s' % (st['last']['out'], ev['out'], ev.get('exc', '')))
    if ev is not None and not ev['bytes_prefix']:
        problems.append('earlier bytes of a file were not preserved by the last call')
    if st['fresh']['readable']:
        # the state says a fresh read of the object's file is possible and what it returns
        from pydl.pydlutils.yanny import yanny
        try:
            got = w.project_obj(yanny(w.par.filename, raw=raw))
        except Exception as ex:
            got = 'fresh read raised %s: %s' % (type(ex).__name__, str(ex)[:120])
        if got != spec_fresh(st['fresh']):
            problems.append('fresh read of the object\'s file: spec %r real %r' % (spec_fresh(st['fresh']), got))
    return problems


def random_trace(root, rng, nops, inits):
    raw = rng.random() < 0.4
    start = rng.choice([x for x in ['f1', 'f2', 'f1', NOFILE] if x in inits])
    tset = inits[start]['tsets'][rng.choice(sorted(inits[start]['tsets']))]
    w = World(root, raw, start, rng, TableSetOf(tset), inits[start]['base'])
    fs0, obj0 = w.snapshot()
    events = []
    nextid = 10
    used = {'K0'}
    for _ in range(nops):
        op = rng.choice(['append', 'append', 'append', 'write', 'write', 'delete', 'reread', 'append'])
        call = {'op': op, 'f': NOFILE, 'pairs': [], 'rows': {t: [] for t in TABLES}}
        cur = w.fname()
        if op == 'write':
            if cur == NOFILE:
                call['f'] = NOFILE
            else:
                call['f'] = rng.choice(FILES)
        elif op == 'delete':
            existing = [f for f in FILES if os.path.exists(w.path(f))]
            if not existing:
                continue
            call['f'] = rng.choice(existing)
        elif op == 'reread':
            if cur == NOFILE or not os.path.exists(w.path(cur)):
                continue
            call['f'] = cur
        else:
            call['f'] = cur
            if rng.random() < 0.35:
                k = rng.choice(['key%d' % nextid, 'enum', 'struct', 'typedefs', 'k0'])   # 'k0' differs from the base keyword 'K0' only in case
                if k in used:
                    k = 'key%d' % nextid
                call['pairs'] = [[k, nextid]]
                used.add(k)
            for t in TABLES:
                r = rng.random()
                if r < 0.45:
                    m = rng.choice([1, 1, 2, 3])
                    call['rows'][t] = list(range(nextid, nextid + m))
                    nextid += m
            nextid += 1
        events.append(w.apply(call))
    return {'raw': raw, 'tset': tset['name'], 'init': {'fs': fs0, 'obj': obj0}, 'events': events}


def validate_traces(ctx, traces, label):
    """Returns {trace index: first unexplained event index (0-based)}."""
    path = core.write_json(os.path.join(ctx.scratch, 'yf_traces.json'), traces)
    r = ctx.tlc('Trace_YannyFile.tla', 'Trace_YannyFile.cfg', dump=True, env={'VERIF_TRACE': path}, count=False,
                label=label, must_hold=False, workers=8)
    if r['violated']:
        # an invariant / action property failed on a state reached by a recorded trace: find which
        pass
    reach = {}
    for st in core.iter_states(r):
        reach[st['tid']] = max(reach.get(st['tid'], 0), st['l'])
    bad = {}
    for i, t in enumerate(traces):
        got = reach.get(i + 1, 0)
        if got != len(t['events']) + 1:
            bad[i] = max(got - 1, 0)
    return bad, r['violated']


def run(ctx):
    ctx.level = 'model_checking'
    ctx.rule = ('MC_YannyFile states carry the call history that reached them; each history is replayed on a real yanny object and real files and the '
                'projected object (rows, pairs, cells of every row under the state\'s table set)/files/outcome and a fresh read of the bound file compared with the TLC state; non-trivial = distinct history with at least one successful append or write; '
                'recorded random histories are validated event by event by Trace_YannyFile')
    ctx.assumptions = ['projection: a file line of a row is its table and integer id; a row of an object is its id and, cell by cell, [kind, array?, numbers] '
                       '(a real value is abstracted to the kind and number it concretises; TLC says which cells row n of a table holds under the table set)',
                       'table sets: the five of YannyFile!TableSetNames (columns shared between the tables as scalar/array, array/scalar, arrays of two lengths, two kinds)',
                       'comment/blank lines are collapsed to one head/note token; byte-level prefix preservation is measured on the real bytes and logged per event',
                       'appended keys are fresh (a repeated key cannot be held twice by a dictionary)']
    rng = random.Random(ctx.seed)
    root = os.path.join(ctx.scratch, 'world')
    # negative controls: the invariants are not vacuous
    for dev in ('dev_objectonly', 'dev_clobber'):
        r = ctx.tlc('MC_YannyFile.tla', 'MC_YannyFile_%s.cfg' % dev, must_hold=False, count=False, label='negative control ' + dev)
        if not r['violated']:
            raise core.MachineryError('negative control %s was not refuted by TLC' % dev)
    apalache_any_length(ctx)
    # quick: all histories of <= 3 calls with the small append menu; thorough: <= 4 calls with the small menu
    # and <= 3 calls with the rich menu (the history variable makes every path a distinct state)
    cfgs = ['MC_YannyFile_quick.cfg'] if ctx.quick else ['MC_YannyFile_thorough.cfg', 'MC_YannyFile_thorough_rich.cfg']
    budget = 1500 if ctx.quick else 20000
    pool = []
    n = 0
    inits = {}          # start -> {'base': initial content, 'tsets': {name: table set record}}  (the spec's initial states)
    by_tset = {}
    for cfg in cfgs:
        r = ctx.tlc('MC_YannyFile.tla', cfg, dump=True, timeout=2400)
        deep = 3 if cfg != 'MC_YannyFile_thorough.cfg' else 4
        part = []
        seen_deep = 0
        early = []
        for st in core.iter_states(r):
            if not st['hist']:
                d = inits.setdefault(st['start'], {'base': {'rows': st['obj']['rows'], 'pairs': st['obj']['pairs']}, 'tsets': {}})
                d['tsets'][st['tset']['name']] = st['tset']
                continue
            if len(st['hist']) >= deep:
                # uniform reservoir of the deepest histories: keep memory bounded
                seen_deep += 1
                if len(part) < budget:
                    part.append(st)
                else:
                    k = rng.randrange(0, seen_deep)
                    if k < budget:
                        part[k] = st
                continue
            if st['start'] not in inits:
                early.append(st)
                continue
            n += do_replay(ctx, st, root, rng, inits, by_tset)
        for st in early:
            n += do_replay(ctx, st, root, rng, inits, by_tset)
        pool.extend(part)
    rng.shuffle(pool)
    for st in pool[:budget]:
        n += do_replay(ctx, st, root, rng, inits, by_tset)
    ctx.cov['parts']['histories_replayed_by_table_set'] = dict(sorted(by_tset.items()))
    tsets_seen = set(k for d in inits.values() for k in d['tsets'])
    if set(by_tset) != tsets_seen or any(v['both_tables_in_one_call'] == 0 for v in by_tset.values()):
        raise core.MachineryError('table-set dimension not exercised (no replayed call emitted rows of both tables): %r' % (by_tset,))
    ctx.cov['parts']['histories_replayed'] = n
    ctx.cov['parts']['deep_histories_available'] = len(pool)
    # ---- code -> spec ---------------------------------------------------------------------------
    ntr = 150 if ctx.quick else 2000
    traces = [random_trace(root, rng, rng.randint(4, 12), inits) for _ in range(ntr)]
    ctx.cov['parts']['recorded_histories_by_table_set'] = {k: sum(1 for t in traces if t['tset'] == k) for k in sorted(tsets_seen)}
    bad, violated = validate_traces(ctx, traces, 'Trace_YannyFile %d recorded histories' % ntr)
    ctx.evaluated(sum(len(t['events']) for t in traces), 'recorded_events')
    ctx.validated(len(traces))
    for t in traces:
        if any(e['op'] == 'append' and e['out'] == 'ok' for e in t['events']):
            ctx.nontriv(('trace', repr(t['events'])[:2000]))
    ctx.sample({'recorded_history': [{k: e[k] for k in ('op', 'f', 'pairs', 'rows', 'out')} for e in traces[0]['events']]})
    for i in sorted(bad):
        t = traces[i]
        k = bad[i]
        ev = t['events'][k] if k < len(t['events']) else None
        ctx.violation({'what': 'recorded history rejected by Trace_YannyFile at event %d: %s' % (
            k, {kk: ev[kk] for kk in ('op', 'f', 'pairs', 'rows', 'out', 'exc', 'bytes_prefix') if ev and kk in ev}),
            'trace': t, 'event_index': k})
    if violated and not bad:
        raise core.MachineryError('Trace_YannyFile reported %s but every trace was accepted' % violated)
    # binding self-test: a corrupted record and a dropped event must be rejected
    good = [t for i, t in enumerate(traces) if i not in bad and any(e['op'] == 'append' and e['out'] == 'ok' for e in t['events'])]
    if good:
        t1 = copy.deepcopy(good[0])
        k = [i for i, e in enumerate(t1['events']) if e['op'] == 'append' and e['out'] == 'ok'][0]
        tgt = t1['events'][k]['obj']['rows']
        tname = [t for t in TABLES if tgt[t]][0] if any(tgt[t] for t in TABLES) else None
        if tname:
            tgt[tname] = tgt[tname][:-1]
        else:
            t1['events'][k]['obj']['pairs'] = t1['events'][k]['obj']['pairs'][:-1]
        t2 = copy.deepcopy(good[0])
        del t2['events'][k]
        b2, _ = validate_traces(ctx, [t1, t2], 'binding self-test (corrupted field, dropped event)')
        if 0 not in b2 or (1 not in b2 and len(t2['events']) > k):
            raise core.MachineryError('binding self-test failed: corrupted trace accepted (%r)' % (b2,))
        ctx.cov['parts']['binding_selftest'] = 'corrupted field rejected at event %d; dropped event rejected: %s' % (b2.get(0, -1), 1 in b2)
    # binding self-test of the cells: one observed cell falsified (array-ness, kind, one number) in the object after a
    # successful append of rows, and in a fresh read
    falsified = []
    for t in [t for i, t in enumerate(traces) if i not in bad]:
        for k, e in enumerate(t['events']):
            tn = [x for x in TABLES if e['obj']['cells'][x]]
            if e['op'] == 'append' and e['out'] == 'ok' and tn and len(falsified) < 12:
                for how in ('arr', 'kind', 'v'):
                    c = copy.deepcopy(t)
                    cell = c['events'][k]['obj']['cells'][tn[-1]][-1][-1]
                    if how == 'arr':
                        cell['arr'] = not cell['arr']
                    elif how == 'kind':
                        cell['kind'] = 'int' if cell['kind'] != 'int' else 'big'
                    else:
                        cell['v'][-1] += 1
                    falsified.append(c)
            if e['op'] == 'reread' and e['out'] == 'ok' and tn and sum(1 for c in falsified if c.get('_rr')) < 3:
                c = copy.deepcopy(t)
                cell = c['events'][k]['reread']['cells'][tn[0]][0][-1]
                cell['v'][0] += 1
                c['_rr'] = 1
                falsified.append(c)
    if not falsified and not bad:
        raise core.MachineryError('binding self-test of the cells: no accepted history with rows to falsify')
    if falsified:
        b3, _ = validate_traces(ctx, falsified, 'binding self-test (falsified cells)')
        missed = [i for i in range(len(falsified)) if i not in b3]
        ctx.cov['parts']['selftest_cells'] = {'corrupted_records': len(falsified), 'rejected': len(b3)}
        if missed:
            raise core.MachineryError('binding self-test failed: %d of %d histories with a falsified cell were accepted, e.g. table set %s'
                                      % (len(missed), len(falsified), falsified[missed[0]]['tset']))
    shutil.rmtree(root, ignore_errors=True)
    ctx.exhaustive = False


def do_replay(ctx, st, root, rng, inits, by_tset):
    raw = rng.random() < 0.4
    st['base'] = inits[st['start']]['base']
    problems = replay_history(ctx, st, root, raw, rng)
    ctx.evaluated(len(st['hist']), 'replayed_calls')
    ctx.validated()
    hist = [norm_call(c) for c in st['hist']]
    acc = by_tset.setdefault(st['tset']['name'], {'histories': 0, 'both_tables_in_one_call': 0})
    acc['histories'] += 1
    # a successful call that emits rows of BOTH tables: an append giving both, or a write of an object holding both
    if any(all(c['rows'][t] for t in TABLES) for c in hist) or (st['last']['op'] == 'write' and st['last']['out'] == 'ok'
                                                                 and all(st['obj']['rows'][t] for t in TABLES)):
        acc['both_tables_in_one_call'] += 1
    if st['last']['out'] == 'ok' and st['last']['op'] in ('append', 'write'):
        ctx.nontriv(repr((st['start'], st['tset']['name'], hist)))
    if len(hist) == 3:
        ctx.sample({'start': st['start'], 'table_set': st['tset']['name'], 'history': hist, 'final_object': spec_obj(st['obj'])}, limit=3)
    if problems:
        ctx.violation({'what': 'history %s from start %s, table set %s (raw=%s): %s' % (
            [(c['op'], c['f'], c['pairs'], c['rows']) for c in hist], st['start'], st['tset']['name'], raw, problems[0][:300]),
            'start': st['start'], 'raw': raw, 'hist': hist, 'problems': problems, 'tset': core_plain(st['tset']), 'base': core_plain(st['base']),
            'spec_state': {'fs': spec_fs(st['fs']), 'obj': spec_obj(st['obj']), 'last': dict(st['last']),
                           'cells': spec_cells(st['cells']), 'fresh': dict(spec_fresh(st['fresh']), readable=bool(st['fresh']['readable']))}})
    return 1


def apalache_any_length(ctx):
    """Unbounded part: Apalache discharges the inductive invariant of apalache/YannyFileInd.tla (the write/append protocol of
    spec/YannyFile.tla for histories of ANY length; states with at most four elements per sequence) and refutes two negative controls."""
    from .. import apalache
    runs = [('Init => IndInv', ['--init=Init', '--next=Next', '--inv=IndInv', '--length=0'], True),
            ("IndInv /\\ Next => IndInv'", ['--init=IndInit', '--next=Next', '--inv=IndInv', '--length=1'], True),
            ('IndInv /\\ Next => PrefixPreserved, NoClobber, NoCreateOnAppend, RefusalsChangeNothing',
             ['--init=IndInit', '--next=Next', '--inv=ActionProps', '--length=1'], True),
            ('negative control: append to the object only breaks IndInv', ['--init=IndInit', '--next=NextDev', '--inv=IndInv', '--length=1'], False),
            ('negative control: a write that truncates breaks NoClobber', ['--init=IndInit', '--next=NextClobber', '--inv=ActionProps', '--length=1'], False)]
    apalache.discharge(ctx, 'YannyFileInd', runs, 'apalache_inductive',
                       'histories of any length; every state whose sequences hold at most 4 elements (Gen(4)) and that satisfies IndInv')
    ctx.assumptions.append('unbounded part: apalache/YannyFileInd.tla (same actions and invariants as spec/YannyFile.tla, two tables of integer row ids); Apalache '
                           'discharges Init => IndInv, IndInv /\\ Next => IndInv\' and the four action properties from every IndInv state, and refutes two negative controls')


def core_plain(x):
    """TLC values as parsed from a dump (dict / tuple) -> plain JSON-able data."""
    if isinstance(x, dict):
        return {k: core_plain(v) for k, v in x.items()}
    if isinstance(x, (tuple, list)):
        return [core_plain(v) for v in x]
    return x


def replay(ctx, case):
    ctx.level = 'model_checking'
    ctx.rule = 'single replayed history'
    ctx.nontriv('a'); ctx.nontriv('b')
    rng = random.Random(ctx.seed)
    root = os.path.join(ctx.scratch, 'world')
    if 'hist' in case:
        st = {'start': case['start'], 'hist': case['hist'], 'fs': case['spec_state']['fs'], 'obj': case['spec_state']['obj'],
              'last': case['spec_state']['last'], 'tset': case['tset'], 'base': case['base'],
              'cells': case['spec_state']['cells'], 'fresh': case['spec_state']['fresh']}
        problems = replay_history(ctx, st, root, case.get('raw', False), rng)
        print('history:', case['hist'], '\nproblems:', problems or 'none')
        ctx.evaluated(1)
        if problems:
            ctx.violation(case)
    else:
        bad, _ = validate_traces(ctx, [case['trace']], 'replayed recorded history')
        print('recorded history re-validated:', 'rejected at event %d' % bad[0] if bad else 'accepted')
        ctx.evaluated(1)
        if bad:
            ctx.violation(case)
