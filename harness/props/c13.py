"""C13 - trace sets: bases are the textbook polynomials and fit/evaluate are consistent.

Spec: spec/TraceSetPoly.tla (over spec/Rat.tla); MC: mc/MC_TraceSetPoly; Trace: trace/Trace_TraceSetPoly.

spec -> code: every state of MC_TraceSetPoly is a basis evaluation, a fitting problem, a trace-set problem or the
default grid of a trace set over a real-valued x-range (family "tgrid": xmin and xmax - xmin over every quarter
fraction; limits from a table, supplied as keywords, or derived from real-valued positions) with
the outcome the specification demands (exact rationals); each is replayed into flegendre / fchebyshev / fpoly /
fchebyshev_split / func_fit / TraceSet / xy2traceset / traceset2xy under every applicable calling convention.
code -> spec: seeded random real calls are recorded and judged by Trace_TraceSetPoly (exact records: the spec
recomputes the rational answer; law instances: the spec judges a measured discrepancy, M3).
Python only converts rationals <-> floats, calls pydl, and (M3 part only) calls numpy.polynomial + numpy.linalg.lstsq
as the independent solver named in DESIGN.md.
"""
import json
import math
import os
import random
import threading
import time
from fractions import Fraction as F

import numpy as np

from .. import core

TOL64 = F(1, 10**9)
TOL32 = F(1, 10**4)
TOL32_FIT = F(1, 10**3)
# highest degree the specification can evaluate exactly in 32 bits at an abscissa with denominator q (spec: MaxDeg)
MAXDEG = {1: 11, 2: 11, 3: 11, 4: 9, 5: 9, 6: 8, 7: 7, 8: 7}
ALIAS = {'legendre': 'flegendre', 'chebyshev': 'fchebyshev', 'poly': 'fpoly', 'chebyshev_split': 'fchebyshev_split'}
UNITS = 2 ** 30            # records: observed floats in units of 2^-30
TOLU64 = 4                 # 3.7e-9
TOLU32 = 200000            # 1.9e-4


_SEEN = {}
PER_SIGNATURE = 4


def report(ctx, signature, case, finding=None):
    """At most PER_SIGNATURE replay files per kind of failure (the rest are counted in the summary line)."""
    if finding:                       # one family of failures with a name: a handful of replay files is enough
        signature = (finding, signature[0])
    _SEEN[signature] = _SEEN.get(signature, 0) + 1
    if _SEEN[signature] <= PER_SIGNATURE:
        ctx.violation(case, finding=finding)


def summary():
    for sig, n in sorted(_SEEN.items(), key=repr):
        if n > PER_SIGNATURE:
            print('  (%d more failing cases like %r not written as replay files)' % (n - PER_SIGNATURE, sig), flush=True)


# ---- array properties: the outcome depends on the VALUES handed over, never on their memory layout ----------
LAYOUTS1 = ['plain', 'readonly', 'strided', 'swapped']
LAYOUTS2 = ['plain', 'readonly', 'strided', 'fortran', 'swapped']
_ROT = [random.Random(0)]


def dress(a, layout):
    """The same values as `a` in another memory layout: read-only, a non-contiguous view (every second element of a
    longer array / Fortran order), or byte-swapped (as read from a FITS file)."""
    a = np.asarray(a)
    if layout == 'plain' or a.ndim == 0:
        return a
    if layout == 'readonly':
        b = a.copy()
        b.setflags(write=False)
        return b
    if layout == 'strided':
        big = np.zeros(a.shape[:-1] + (2 * a.shape[-1],), dtype=a.dtype)
        big[..., 1::2] = 77
        big[..., ::2] = a
        return big[..., ::2]
    if layout == 'fortran':
        return np.asfortranarray(a) if a.ndim >= 2 else dress(a, 'strided')
    if layout == 'swapped':
        return a.astype(a.dtype.newbyteorder()) if a.dtype.itemsize > 1 else a
    raise core.MachineryError('unknown layout ' + layout)


def rotate(ndim=1):
    """The next layout (a seeded pseudo-random rotation, re-seeded in run(); one draw per array handed over)."""
    return _ROT[0].choice(LAYOUTS2 if ndim >= 2 else LAYOUTS1)


NUMTYPES = ['float', 'float', 'int64', 'int32', 'int16', 'uint16', 'uint8']


def as_type(a, numtype):
    """The same VALUES in an integer type, or None when they are not integral / do not fit."""
    a = np.asarray(a)
    if numtype == 'float' or a.dtype == bool:
        return a
    v = np.asarray(a, dtype=np.float64)
    info = np.iinfo(numtype)
    if v.size == 0 or not np.all(v == np.round(v)) or v.min() < info.min or v.max() > info.max:
        return None
    return v.astype(numtype)


def rotate_type():
    return _ROT[0].choice(NUMTYPES)


class Layouts(dict):
    """Memory layout and numeric type ('strided', 'swapped:int16', ...) of every array handed over in one call;
    `forced` (from a replay file) wins over the seeded rotation.  Integer types only where the values are integral."""

    def __init__(self, forced=None, ints=True):
        dict.__init__(self)
        self.forced = forced or {}
        self.ints = ints

    def give(self, name, a, ints=None):
        a = np.asarray(a)
        f = self.forced.get(name)
        if f:
            lay, _, numtype = f.partition(':')
        else:
            lay = rotate(a.ndim)
            numtype = rotate_type() if (self.ints if ints is None else ints) else 'float'
        b = as_type(a, numtype or 'float')
        if b is None:
            b, numtype = a, 'float'
        self[name] = lay if (numtype or 'float') == 'float' or a.dtype == bool else '%s:%s' % (lay, numtype)
        return dress(b, lay)


def fq(v):
    return F(v[0], v[1])


def fl(v):
    return float(F(v[0], v[1]))


def basis_fn(name):
    from pydl.goddard.math import flegendre
    from pydl.pydlutils import trace
    return {'legendre': flegendre, 'chebyshev': trace.fchebyshev, 'poly': trace.fpoly,
            'chebyshev_split': trace.fchebyshev_split}[name]


def far(v, want, tol, scale=1):
    """None if the float v is within tol*scale of the exact rational `want`, else a description."""
    try:
        fv = float(v)
    except Exception as ex:
        return 'not a number: %r' % (ex,)
    if not math.isfinite(fv):
        return 'not finite: %r' % fv
    d = abs(F(fv) - want)
    if d > tol * scale:
        return 'got %.17g want %s (%.17g) diff %.3g' % (fv, want, float(want), float(d))
    return None


def scale_of(fracs):
    return max([F(1)] + [abs(x) for x in fracs])


# ----------------------------------------------------------------------------------------------
# spec -> code: bases
# ----------------------------------------------------------------------------------------------
def basis_calls(basis, m, xs):
    """The calling conventions for one (basis, m) and a list of rational abscissae: yields
    (label, callable returning the array, index map: column -> position in xs, tolerance)."""
    fn = basis_fn(basis)
    xf = [float(x) for x in xs]
    yield 'f64-array', (lambda: fn(np.array(xf, dtype=np.float64), m)), list(range(len(xs))), TOL64
    yield 'f32-array', (lambda: fn(np.array(xf, dtype=np.float32), m)), list(range(len(xs))), TOL32
    rev = list(range(len(xs)))[::-1]
    # a non-contiguous view, abscissae in reverse order
    yield 'f64-strided', (lambda: fn(np.array([xf[::-1], xf[::-1]], dtype=np.float64).T[:, 0], m)), rev, TOL64
    yield 'f64-readonly', (lambda: fn(dress(np.array(xf, dtype=np.float64), 'readonly'), m)), list(range(len(xs))), TOL64
    yield 'f64-swapped', (lambda: fn(dress(np.array(xf, dtype=np.float64), 'swapped'), m)), list(range(len(xs))), TOL64
    yield 'f32-swapped-strided', (lambda: fn(dress(dress(np.array(xf, dtype=np.float32), 'swapped'), 'strided'), m)), \
        list(range(len(xs))), TOL32
    ints = [k for k, x in enumerate(xs) if x.denominator == 1]
    for tname in ('int8', 'int16', 'int32', 'int64', 'uint8', 'uint16', 'uint32'):
        sel = [k for k in ints if xs[k] >= 0 or not tname.startswith('u')]
        if sel:
            yield 'int-array-' + tname, (lambda sel=sel, tname=tname: fn(np.array([int(xs[k]) for k in sel], dtype=tname), m)), sel, TOL64
    if ints:
        yield 'int-array-strided', (lambda: fn(dress(np.array([int(xs[k]) for k in ints], dtype=np.int32), 'strided'), m)), ints, TOL64
    for k, x in enumerate(xs):
        yield 'py-float', (lambda k=k: fn(xf[k], m)), [k], TOL64
        yield 'np-float64', (lambda k=k: fn(np.float64(xf[k]), m)), [k], TOL64
        yield 'array1', (lambda k=k: fn(np.array([xf[k]]), m)), [k], TOL64
        # a scalar abscissa held in a zero-dimensional array
        yield '0d-f64', (lambda k=k: fn(np.array(xf[k], dtype=np.float64), m)), [k], TOL64
        yield '0d-f32', (lambda k=k: fn(np.asarray(np.float32(xf[k])), m)), [k], TOL32
        if x.denominator == 1:
            yield 'py-int', (lambda k=k: fn(int(xs[k]), m)), [k], TOL64
            yield 'np-int64', (lambda k=k: fn(np.int64(int(xs[k])), m)), [k], TOL64
            yield 'np-int16', (lambda k=k: fn(np.int16(int(xs[k])), m)), [k], TOL64
            yield '0d-int32', (lambda k=k: fn(np.array(int(xs[k]), dtype=np.int32), m)), [k], TOL64
            if x >= 0:
                yield 'np-uint8', (lambda k=k: fn(np.uint8(int(xs[k])), m)), [k], TOL64


def check_basis_group(ctx, basis, m, items):
    """items: list of (x Fraction, expected tuple of Fractions).  Returns number of call-elements compared."""
    xs = [x for x, _ in items]
    n = 0
    for label, call, cols, tol in basis_calls(basis, m, xs):
        ctx.evaluated(len(cols), 'basis-' + label)
        n += len(cols)
        what = None
        try:
            a = np.asarray(call())
        except Exception as ex:
            what = 'raised %s: %s' % (type(ex).__name__, str(ex)[:120])
            a = None
        if a is not None:
            if a.shape != (m, len(cols)):
                what = 'shape %r, expected (m, n) = %r' % (a.shape, (m, len(cols)))
            else:
                for j, k in enumerate(cols):
                    for d in range(m):
                        w = far(a[d, j], items[k][1][d], tol)
                        if w:
                            what = 'member %d at x=%s: %s' % (d, xs[k], w)
                            break
                    if what:
                        break
        if what:
            finding = 'D-C13-6' if (basis == 'chebyshev_split' and 'uint' in label and what.startswith('member')) else None
            report(ctx, ('basis', basis, label, what.split(' ')[0]),
                   {'what': '%s(x, %d) [%s] %s' % (ALIAS[basis], m, label, what), 'part': 'basis',
                           'basis': basis, 'm': m, 'conv': label,
                           'xs': [[xs[k].numerator, xs[k].denominator] for k in cols],
                           'expected': [[[v.numerator, v.denominator] for v in items[k][1]] for k in cols]}, finding=finding)
    return n


# ----------------------------------------------------------------------------------------------
# spec -> code: fits
# ----------------------------------------------------------------------------------------------
def fit_conventions(c):
    """Calling conventions applicable to the fitting problem c (concretisation only)."""
    allfree = all(c['ia'])
    wones = all(w == (1, 1) for w in c['w'])
    fixed_zero = all(a == (0, 1) for a in c['ians'])
    out = ['full64', 'alias64']
    if c.get('fam') in ('sweep', 'masks'):
        out.append('full32')
    if wones or allfree or fixed_zero:
        out.append('minimal64')
    if all(a[1] == 1 for a in c['ians']):
        out.append('intans64')
    return out


LAST_LAYOUT = {}


def call_fit(c, conv, layouts=None):
    from pydl.pydlutils.trace import func_fit
    dt = np.float32 if conv == 'full32' else np.float64
    x = np.array([fl(v) for v in c['xs']], dtype=dt)
    y = np.array([fl(v) for v in c['y']], dtype=dt)
    w = np.array([fl(v) for v in c['w']], dtype=dt)
    ia = np.array([bool(b) for b in c['ia']], dtype=bool)
    ians = np.array([fl(v) for v in c['ians']], dtype=dt)
    name = ALIAS[c['basis']] if conv == 'alias64' else c['basis']
    if conv == 'alias64':          # zeros (prescribed values, weights) written as -0.0
        ians = np.where(ians == 0, -0.0, ians)
        w = np.where(w == 0, -0.0, w)
    if conv == 'intans64':         # prescribed values as an integer array (0 is the integer 0)
        ians = np.array([int(fq(v)) for v in c['ians']], dtype=np.int64)
    lays = Layouts(layouts)
    x, y, w = lays.give('x', x), lays.give('y', y), lays.give('invvar', w)
    ia, ians = lays.give('ia', ia), lays.give('inputans', ians)
    LAST_LAYOUT.clear()
    LAST_LAYOUT.update(lays)
    kw = {'invvar': w, 'ia': ia, 'inputans': ians, 'function_name': name}
    if conv == 'minimal64':
        if all(v == (1, 1) for v in c['w']):
            del kw['invvar']
        if all(c['ia']):
            del kw['ia']
        if all(a == (0, 1) for a in c['ians']):
            del kw['inputans']
        if name == 'legendre':
            del kw['function_name']
    snap = Snap(x=x, y=y, invvar=w, ia=ia, inputans=ians)
    res, yfit = func_fit(x, y, int(c['nc']), **kw)
    if snap.changed():
        raise AssertionError('func_fit modified the caller\'s array(s) %s' % ', '.join(snap.changed()))
    return np.asarray(res), np.asarray(yfit)


def judge_fit(c, exp, conv, res, yfit):
    tol = TOL32_FIT if conv == 'full32' else TOL64
    eres = [fq(v) for v in exp['res']]
    eyf = [fq(v) for v in exp['yfit']]
    sc = scale_of(eres + eyf)
    if res.shape != (len(eres),):
        return 'coefficients shape %r' % (res.shape,)
    if yfit.shape != (len(eyf),):
        return 'yfit shape %r' % (yfit.shape,)
    for j, e in enumerate(eres):
        w = far(res[j], e, tol, sc)
        if w:
            fixed = not c['ia'][j]
            return 'coefficient %d%s: %s' % (j, ' (declared fixed)' if fixed else '', w)
    for k, e in enumerate(eyf):
        w = far(yfit[k], e, tol, sc)
        if w:
            return 'yfit[%d]: %s' % (k, w)
    return None


def layout_signature(lays, what):
    """Which layout matters for the de-duplication of failures that are exceptions: only 'something is byte-swapped /
    read-only' - not the whole combination."""
    if not what.startswith('raised'):
        return ()
    return tuple(sorted({v.partition(':')[0] for v in lays.values() if v.partition(':')[0] in ('swapped', 'readonly', '0d')} |
                        ({'integer'} if any(':' in v for v in lays.values()) else set())))


def odd_layouts(lays):
    return {k: v for k, v in lays.items() if v != 'plain'}


def check_fit(ctx, c, exp, only=None, layouts=None):
    n = 0
    for conv in fit_conventions(c):
        if only and conv != only:
            continue
        ctx.evaluated(1, 'fit-%s-%s' % (c.get('fam', 'replay'), conv))
        n += 1
        LAST_LAYOUT.clear()
        try:
            res, yfit = call_fit(c, conv, layouts)
            what = judge_fit(c, exp, conv, res, yfit)
        except core.MachineryError:
            raise
        except Exception as ex:
            what = 'raised %s: %s' % (type(ex).__name__, str(ex)[:160])
        if what:
            lays = dict(LAST_LAYOUT)
            # D-C13-3: byte-swapped x and at least two free coefficients -> the dtype assertion of func_fit fails
            finding = 'D-C13-3' if (what.startswith('raised AssertionError') and lays.get('x') == 'swapped') else None
            if finding is None and ':' in lays.get('x', '') and not what.startswith('raised'):
                finding = 'D-C13-4'           # integer-typed x: coefficients stored in an integer array
            report(ctx, ('fit', c['basis'], c.get('fam'), conv, what.split(':')[0].rstrip('0123456789[] '),
                         layout_signature(lays, what)),
                   {'what': 'func_fit %s nc=%d ia=%s [%s/%s, layouts %s]: %s' % (
                       c['basis'], c['nc'], [int(b) for b in c['ia']], c.get('fam'), conv, odd_layouts(lays) or 'plain', what),
                    'part': 'fit', 'conv': conv, 'layouts': lays, 'call': jsonable(c), 'expected': jsonable(exp)},
                   finding=finding)
    return n


def check_hist(ctx, h, exp, layouts=None):
    """A call history: the calls of h one after the other, reusing ONE array object for each of x, y, invvar, ia and
    inputans (only the mask is rewritten in place between the calls); every call is judged against the outcome the
    specification demands of that call alone."""
    from pydl.pydlutils.trace import func_fit
    calls = h['calls']
    c0 = calls[0]
    lays = Layouts(dict(layouts or {}))
    if 'ia' not in lays.forced:        # the harness rewrites the mask in place between the calls: never read-only
        lays.forced['ia'] = 'strided' if rotate() in ('strided', 'swapped') else 'plain'
    x = lays.give('x', np.array([fl(v) for v in c0['xs']]))
    y = lays.give('y', np.array([fl(v) for v in c0['y']]))
    w = lays.give('invvar', np.array([fl(v) for v in c0['w']]))
    ians = lays.give('inputans', np.array([fl(v) for v in c0['ians']]))
    ia = lays.give('ia', np.ones(int(c0['nc']), dtype=bool))
    ctx.evaluated(len(calls), 'hist-shared-arrays')
    for k, c in enumerate(calls):
        what = None
        try:
            if (c['xs'], c['y'], c['w'], c['ians']) != (c0['xs'], c0['y'], c0['w'], c0['ians']):
                raise core.MachineryError('history calls do not share their data')
            ia[:] = [bool(b) for b in c['ia']]
            snap = Snap(x=x, y=y, invvar=w, ia=ia, inputans=ians)
            res, yfit = func_fit(x, y, int(c['nc']), invvar=w, ia=ia, inputans=ians,
                                 function_name=ALIAS[c['basis']] if k % 2 else c['basis'])
            what = judge_fit(c, exp[k], 'full64', np.asarray(res), np.asarray(yfit))
            if what is None and snap.changed():
                what = 'the caller\'s array(s) %s were modified by the call' % ', '.join(snap.changed())
        except core.MachineryError:
            raise
        except Exception as ex:
            what = 'raised %s' % describe(ex)
        if what:
            finding = 'D-C13-3' if (what.startswith('raised AssertionError') and lays.get('x') == 'swapped') else None
            if finding is None and ':' in lays.get('x', '') and not what.startswith('raised'):
                finding = 'D-C13-4'
            report(ctx, ('hist', h['basis'], what.split(':')[0].rstrip('0123456789[] '),
                         layout_signature(lays, what)),
                   {'what': 'func_fit history %s nc=%d, call %d of %d with ia=%s (same x, y, invvar, ia, inputans arrays as the '
                            'calls before it, masks %s; layouts %s): %s' % (
                                h['basis'], h['nc'], k + 1, len(calls), [int(b) for b in c['ia']],
                                [[int(b) for b in cc['ia']] for cc in calls[:k]], odd_layouts(lays) or 'plain', what),
                    'part': 'hist', 'layouts': dict(lays), 'call': jsonable(h), 'expected': jsonable(exp)}, finding=finding)
            break        # the arrays may be damaged: later calls of this history say nothing new
    return len(calls)


# ----------------------------------------------------------------------------------------------
# spec -> code: trace sets
# ----------------------------------------------------------------------------------------------
def mat(rows, dt=np.float64):
    return np.array([[fl(v) for v in r] for r in rows], dtype=dt)


def fits_rec(basis, xmin, xmax, coeff, jump=None):
    """A trace-set table row like the ones in spFrame files (FUNC, XMIN, XMAX, COEFF[, XJUMP*])."""
    from astropy.io import fits
    nt, nc = coeff.shape
    cols = [fits.Column(name='FUNC', format='16A', array=np.array([basis])),
            fits.Column(name='XMIN', format='D', array=np.array([xmin], dtype='f8')),
            fits.Column(name='XMAX', format='D', array=np.array([xmax], dtype='f8')),
            fits.Column(name='COEFF', format='%dD' % (nt * nc), dim='(%d,%d)' % (nc, nt),
                        array=coeff.reshape(1, nt, nc).astype('f8'))]
    if jump is not None:
        for nme, v in zip(('XJUMPLO', 'XJUMPHI', 'XJUMPVAL'), jump):
            cols.append(fits.Column(name=nme, format='E', array=np.array([v], dtype='f4')))
    return fits.BinTableHDU.from_columns(cols).data


def has_zero_keyword(c):
    j = c['jump']
    vals = ([c['xmin']] if c['gmin'] else []) + ([c['xmax']] if c['gmax'] else []) + \
        ([j['lo'], j['hi'], j['val']] if j['on'] else [])
    return any(v == (0, 1) for v in vals)


def tset_conventions(c):
    zero = any(w == (0, 1) for row in c['w'] for w in row)
    out = ['xy2traceset-invvar', 'TraceSet-inmask' if zero else 'TraceSet-plain', 'fits']
    if has_zero_keyword(c) or zero:
        out.append('xy2traceset-negzero')
    return out


def number_form(v, conv):
    """The same number in the forms a caller may write it: 0.0 (float), 0 (Python int, when integral), -0.0."""
    if conv == 'xy2traceset-negzero' and v == (0, 1):
        return -0.0
    if conv.startswith('TraceSet-') and v[1] == 1:
        # integral scalars as Python ints or numpy integer scalars of some width (seeded rotation)
        t = _ROT[0].choice(['int', 'int64', 'int32', 'int16', 'uint8', 'uint16'])
        if t == 'int' or (t.startswith('u') and v[0] < 0) or abs(v[0]) > 250:
            return int(v[0])
        return np.dtype(t).type(v[0])
    return fl(v)


def build_tset(c, exp, conv, lays):
    from pydl.pydlutils.trace import TraceSet, xy2traceset
    xpos = lays.give('xpos', mat(c['xpos']))
    ypos = lays.give('ypos', mat(c['ypos']))
    w = mat(c['w'])
    j = c['jump']
    if conv == 'fits':
        jump = (fl(j['lo']), fl(j['hi']), fl(j['val'])) if j['on'] else None
        return TraceSet(fits_rec(c['basis'], fl(exp['xmin']), fl(exp['xmax']), mat(exp['coeff']), jump)), xpos
    kw = {'func': c['basis'], 'ncoeff': int(c['nc'])}
    if c['gmin']:
        kw['xmin'] = number_form(c['xmin'], conv)
    if c['gmax']:
        kw['xmax'] = number_form(c['xmax'], conv)
    if j['on']:
        kw['xjumplo'], kw['xjumphi'], kw['xjumpval'] = [number_form(j[k], conv) for k in ('lo', 'hi', 'val')]
    if conv == 'xy2traceset-invvar':
        kw['invvar'] = lays.give('invvar', w)
        # scalars held in zero-dimensional arrays, in every other case of the rotation
        if rotate() in ('readonly', 'swapped') or lays.forced.get('scalars') == '0d':
            lays['scalars'] = '0d'
            kw = {k: (np.array(v) if isinstance(v, (int, float)) else v) for k, v in kw.items()}
        return xy2traceset(xpos, ypos, **kw), xpos
    if conv == 'xy2traceset-negzero':
        # zeros written as -0.0 everywhere: keywords, zero weights, zero positions; no rejection iterations
        kw['invvar'] = lays.give('invvar', np.where(w == 0, -0.0, w))
        kw['maxiter'] = 0
        if ':' not in lays['xpos']:        # (an integer array cannot hold -0.0)
            xpos = dress(np.where(np.asarray(xpos) == 0, -0.0, np.asarray(xpos)), lays['xpos'])
        return xy2traceset(xpos, ypos, **kw), xpos
    # the zero-weight points go through inmask, the other weights (if not all one) through invvar
    if conv == 'TraceSet-inmask':
        kw['inmask'] = lays.give('inmask', w > 0)
    wpos = np.where(w > 0, w, 1.0)
    if not (wpos == 1).all():
        kw['invvar'] = lays.give('invvar', wpos)
    if c['basis'] == 'legendre':
        del kw['func']
    if int(c['nc']) == 3:
        del kw['ncoeff']
    return TraceSet(xpos, ypos, **kw), xpos


def near_matrix(a, want, name, tol=TOL64):
    a = np.asarray(a)
    shape = (len(want), len(want[0]))
    if a.shape != shape:
        return '%s shape %r expected %r' % (name, a.shape, shape)
    flat = [fq(v) for r in want for v in r]
    sc = scale_of(flat)
    for k, r in enumerate(want):
        for i, v in enumerate(r):
            w = far(a[k, i], fq(v), tol, sc)
            if w:
                return '%s[%d,%d]: %s' % (name, k, i, w)
    return None


def judge_tset(c, exp, conv, t, xpos):
    from pydl.pydlutils.trace import traceset2xy
    nt = len(c['xpos'])
    # a table stores its jump parameters in single precision: 8/16-bit integer positions are then shifted in single
    # precision by numpy's promotion rules (float32 tolerance for exactly that combination)
    tol = TOL32 if (conv == 'fits' and c['jump']['on'] and np.asarray(xpos).dtype.kind in 'iu'
                    and np.asarray(xpos).dtype.itemsize <= 2) else TOL64
    if F(float(t.xmin)) != fq(exp['xmin']) or F(float(t.xmax)) != fq(exp['xmax']):
        return 'xmin/xmax %r %r expected %s %s' % (t.xmin, t.xmax, fq(exp['xmin']), fq(exp['xmax']))
    if t.nTrace != nt or t.ncoeff != c['nc'] or t.func != c['basis']:
        return 'nTrace/ncoeff/func %r %r %r' % (t.nTrace, t.ncoeff, t.func)
    if conv != 'fits':
        w = near_matrix(t.coeff, exp['coeff'], 'coeff') or near_matrix(t.yfit, exp['yfit'], 'yfit')
        if w:
            return w
    # evaluate at the same positions: .xy and traceset2xy
    x1, y1 = t.xy(xpos)
    x2, y2 = traceset2xy(t, xpos)
    if not (np.array_equal(x1, xpos) and np.array_equal(x2, xpos)):
        return 'xy() did not return the positions it was given'
    w = near_matrix(y1, exp['yfit'], 'xy(xpos)', tol) or near_matrix(y2, exp['yfit'], 'traceset2xy(xpos)', tol)
    if w:
        return w
    if conv != 'fits' and not np.allclose(y1, t.yfit, rtol=0, atol=1e-9 * max(1.0, float(np.abs(t.yfit).max()))):
        return 'xy(xpos) differs from the trace set\'s own yfit'
    x3, y3 = traceset2xy(t, xpos, ignore_jump=True)
    w = near_matrix(y3, exp['yign'], 'traceset2xy(xpos, ignore_jump=True)')
    if w:
        return w
    # the trace set carries the jump it was given (asked only when the jump has an effect at all)
    if bool(t.has_jump) != bool(c['jump']['on']) and c['jump']['val'] != (0, 1):
        return 'has_jump %r' % (t.has_jump,)
    # default grid
    xg, yg = traceset2xy(t)
    grid = [fq(v) for v in exp['grid']]
    xg = np.asarray(xg)
    if xg.shape != (nt, len(grid)):
        return 'default grid shape %r expected %r (xmin=%s xmax=%s)' % (xg.shape, (nt, len(grid)), grid[0], fq(exp['xmax']))
    for k in range(nt):
        for i, g in enumerate(grid):
            if F(float(xg[k, i])) != g:
                return 'default grid[%d,%d] = %r expected %s' % (k, i, xg[k, i], g)
    if t.nx != len(grid):
        return 'nx %r expected %d' % (t.nx, len(grid))
    return near_matrix(yg, exp['ygrid'], 'traceset2xy() on the default grid')


def tset_finding(c, lays, what):
    """Names of the known integer-type deviations that explain a trace-set mismatch exactly (None otherwise)."""
    typ = lays.get('xpos', '').partition(':')[2]
    if typ in ('uint8', 'int8', 'int16', 'uint16') and not (c['gmin'] and c['gmax']):
        return 'D-C13-7'        # limits taken from narrow integer positions: xmin + xmax wraps around in xmid
    if not typ or what.startswith('raised'):
        return None
    return 'D-C13-5'


def check_tset(ctx, c, exp, only=None, layouts=None):
    n = 0
    for conv in tset_conventions(c):
        if only and conv != only:
            continue
        ctx.evaluated(1, 'tset-' + conv)
        n += 1
        lays = Layouts(layouts)
        try:
            t, xpos = build_tset(c, exp, conv, lays)
            what = judge_tset(c, exp, conv, t, xpos)
        except core.MachineryError:
            raise
        except Exception as ex:
            what = 'raised %s: %s' % (type(ex).__name__, str(ex)[:160])
        if what:
            j = c['jump']
            report(ctx, ('tset', c['basis'], conv, bool(j['on']), what.split(':')[0].split('[')[0],
                         layout_signature(lays, what)), {
                'what': 'trace set %s nc=%d nTrace=%d jump=%s xmin=%s xmax=%s [%s, layouts %s]: %s' % (
                c['basis'], c['nc'], len(c['xpos']),
                (str(fq(j['lo'])), str(fq(j['hi'])), str(fq(j['val']))) if j['on'] else None,
                str(fq(c['xmin'])) if c['gmin'] else None, str(fq(c['xmax'])) if c['gmax'] else None, conv,
                odd_layouts(lays) or 'plain', what),
                'part': 'tset', 'conv': conv, 'layouts': dict(lays), 'call': jsonable(c), 'expected': jsonable(exp)},
                finding=tset_finding(c, lays, what))
    return n


# ----------------------------------------------------------------------------------------------
# spec -> code: default grids over real-valued x-ranges (family "tgrid")
# ----------------------------------------------------------------------------------------------
def tgrid_conventions(c, exp):
    """'fits': the trace set comes from a table; 'keywords': fitted to the grid with xmin / xmax supplied; 'derived':
    fitted to real-valued positions whose extremes are the limits (no xmin / xmax keywords).  The two fitted ones only
    where the specification says the coefficients can be demanded back (exp.fitk / exp.fitd)."""
    return ['fits'] + (['keywords'] if exp['fitk'] else []) + (['derived'] if exp['fitd'] else [])


def build_tgrid(c, exp, conv, lays):
    from pydl.pydlutils.trace import TraceSet, xy2traceset
    j = c['jump']
    nt = len(c['coeff'])
    if conv == 'fits':
        jump = (fl(j['lo']), fl(j['hi']), fl(j['val'])) if j['on'] else None
        return TraceSet(fits_rec(c['basis'], fl(c['xmin']), fl(c['xmax']), mat(c['coeff']), jump))
    kw = {'func': c['basis'], 'ncoeff': int(c['nc'])}
    if j['on']:
        kw['xjumplo'], kw['xjumphi'], kw['xjumpval'] = fl(j['lo']), fl(j['hi']), fl(j['val'])
    if conv == 'keywords':
        xpos, ypos = mat([exp['grid']] * nt), mat(exp['ygrid'])
        kw['xmin'], kw['xmax'] = fl(c['xmin']), fl(c['xmax'])
    else:
        xpos, ypos = mat(c['dpos']), mat(exp['dy'])
    xpos, ypos = lays.give('xpos', xpos, ints=False), lays.give('ypos', ypos, ints=False)
    # through the function or the class (seeded rotation; a replay file says which)
    lays['maker'] = lays.forced.get('maker') or _ROT[0].choice(['xy2traceset', 'TraceSet'])
    return {'xy2traceset': xy2traceset, 'TraceSet': TraceSet}[lays['maker']](xpos, ypos, **kw)


def judge_grid_of(t, c, exp, ign):
    """The default grid of trace set t through .xy() and traceset2xy(), with / without ignore_jump."""
    from pydl.pydlutils.trace import traceset2xy
    nt = len(c['coeff'])
    grid = [fq(v) for v in exp['grid']]
    nx = int(exp['nx'])
    want = exp['ygridign'] if ign else exp['ygrid']
    for name, fn in (('xy()', lambda: t.xy(ignore_jump=ign)), ('traceset2xy()', lambda: traceset2xy(t, ignore_jump=ign))):
        name += ' ignore_jump' if ign else ''
        out = fn()
        if not (isinstance(out, tuple) and len(out) == 2):
            return '%s did not return (x, y)' % name
        xg, yg = np.asarray(out[0]), np.asarray(out[1])
        if xg.shape != (nt, nx):
            return 'default grid shape %r expected (nTrace, nx) = %r: %s' % (
                xg.shape, (nt, nx), grid_words(xg, c))
        for k in range(nt):
            for i, g in enumerate(grid):
                if F(float(xg[k, i])) != g:
                    return 'default grid[%d,%d] = %r expected %s' % (k, i, xg[k, i], g)
        w = near_matrix(yg, want, name + ' on the default grid')
        if w:
            return w
    return None


def grid_words(xg, c):
    """A wrong-shaped grid in words (for the report only)."""
    try:
        last = float(xg[0, -1])
        return 'last point %r, xmin=%s xmax=%s%s' % (last, fq(c['xmin']), fq(c['xmax']),
                                                     ' (beyond xmax)' if F(last) > fq(c['xmax']) else '')
    except Exception:
        return 'xmin=%s xmax=%s' % (fq(c['xmin']), fq(c['xmax']))


def judge_tgrid(c, exp, conv, t):
    nt = len(c['coeff'])
    if F(float(t.xmin)) != fq(c['xmin']) or F(float(t.xmax)) != fq(c['xmax']):
        return 'xmin/xmax %r %r expected %s %s' % (t.xmin, t.xmax, fq(c['xmin']), fq(c['xmax']))
    if t.nTrace != nt or t.ncoeff != c['nc'] or t.func != c['basis']:
        return 'nTrace/ncoeff/func %r %r %r' % (t.nTrace, t.ncoeff, t.func)
    if conv != 'fits':
        # the values were an exact combination of the basis: the coefficients are recovered, yfit = the values
        w = near_matrix(t.coeff, c['coeff'], 'coeff') or \
            near_matrix(t.yfit, exp['ygrid'] if conv == 'keywords' else exp['dy'], 'yfit')
        if w:
            return w
    if not isinstance(t.nx, (int, np.integer)) or int(t.nx) != int(exp['nx']):
        return 'nx %r expected %d (xmin=%s xmax=%s)' % (t.nx, exp['nx'], fq(c['xmin']), fq(c['xmax']))
    return judge_grid_of(t, c, exp, False) or judge_grid_of(t, c, exp, True)


def check_tgrid(ctx, c, exp, only=None, layouts=None):
    n = 0
    for conv in tgrid_conventions(c, exp):
        if only and conv != only:
            continue
        ctx.evaluated(1, 'tgrid-' + conv)
        n += 1
        lays = Layouts(layouts)
        try:
            t = build_tgrid(c, exp, conv, lays)
            what = judge_tgrid(c, exp, conv, t)
        except core.MachineryError:
            raise
        except Exception as ex:
            what = 'raised %s: %s' % (type(ex).__name__, str(ex)[:160])
        if what:
            j = c['jump']
            whole = (fq(c['xmax']) - fq(c['xmin'])).denominator == 1
            report(ctx, ('tgrid', c['basis'], conv, bool(j['on']), whole,
                         ''.join(ch for ch in what.split(':')[0].split('[')[0] if not ch.isdigit()),
                         layout_signature(lays, what)), {
                'what': 'trace set %s nc=%d nTrace=%d xmin=%s xmax=%s (x-range %s a whole number of pixels) jump=%s '
                        '[default grid, %s, layouts %s]: %s' % (
                            c['basis'], c['nc'], len(c['coeff']), fq(c['xmin']), fq(c['xmax']), 'is' if whole else 'is not',
                            (str(fq(j['lo'])), str(fq(j['hi'])), str(fq(j['val']))) if j['on'] else None, conv,
                            odd_layouts(lays) or 'plain', what),
                'part': 'tgrid', 'conv': conv, 'layouts': dict(lays), 'call': jsonable(c), 'expected': jsonable(exp)})
    return n


def jsonable(o):
    if isinstance(o, dict):
        return {k: jsonable(v) for k, v in o.items()}
    if isinstance(o, (tuple, list)):
        return [jsonable(v) for v in o]
    if isinstance(o, frozenset):
        return sorted(jsonable(v) for v in o)
    return o


def untuple(o):
    """Inverse of jsonable for replay files: rationals back to tuples."""
    if isinstance(o, dict):
        return {k: untuple(v) for k, v in o.items()}
    if isinstance(o, list):
        return tuple(untuple(v) for v in o)
    return o


# ----------------------------------------------------------------------------------------------
# code -> spec: records
# ----------------------------------------------------------------------------------------------
def absf(v):
    """float -> [floor(v), trunc((v - floor(v)) * 2^30)]  (the abstraction Trace_TraceSetPoly.CloseF reads)."""
    v = float(v)
    if not math.isfinite(v) or abs(v) >= 2 ** 30:
        return [2 ** 30, 0]
    f = F(v)
    ip = math.floor(f)
    return [int(ip), int((f - ip) * UNITS)]


def rq(x):
    return [x.numerator, x.denominator]


def rand_rat(rng, q, lo=-1, hi=1):
    """p/q in [lo, hi] in lowest terms (so its denominator divides q)."""
    return F(rng.randint(lo * q, hi * q), q)


def describe(ex):
    return '%s: %s' % (type(ex).__name__, str(ex)[:120])


class Snap(object):
    """Bit images of the arrays a caller hands to pydl, taken before the call (law CallerArraysUnchanged)."""

    def __init__(self, **arrays):
        self.items = {k: (a, a.tobytes(), a.dtype, a.shape) for k, a in arrays.items() if isinstance(a, np.ndarray)}

    def changed(self):
        return sorted(k for k, (a, img, dt, sh) in self.items.items() if a.dtype != dt or a.shape != sh or a.tobytes() != img)


def law(name, disc, pre=True, width=64, crash=False, exc='', **info):
    r = {'kind': 'law', 'law': name, 'pre': bool(pre), 'disc': int(disc), 'width': width, 'crash': bool(crash), 'exc': exc}
    r['info'] = info
    return r


def unchanged(snap, call, **info):
    """One instance of CallerArraysUnchanged: disc = number of caller arrays that differ after `call`."""
    ch = snap.changed()
    return law('unchanged', len(ch), call=call, arrays=sorted(snap.items), changed=ch, **info)


def basis_records(rng, n):
    recs = []
    for _ in range(n):
        basis = rng.choice(['legendre', 'chebyshev', 'poly', 'chebyshev_split'])
        conv = rng.choice(['f64', 'f64', 'f32', 'scalar', 'npscalar', 'fortran', '0d', '0d32', 'readonly', 'swapped', 'swapped32'])
        k = 1 if conv in ('scalar', 'npscalar', '0d', '0d32') else rng.randint(1, 7)
        xs = [rand_rat(rng, rng.choice([1, 2, 2, 3, 3, 4, 5, 6, 7, 8])) for _ in range(k)]
        itype = rng.choice(['', '', '', 'int8', 'int16', 'int32', 'int64', 'uint8', 'uint16', 'npint', '0dint'])
        if itype:                       # integral abscissae in an integer type
            conv = itype
            k = 1 if itype in ('npint', '0dint') else k
            xs = [F(rng.randint(0 if itype.startswith('u') else -1, 1)) for _ in range(k)]
        top = min(MAXDEG[x.denominator] for x in xs) + (2 if basis == 'chebyshev_split' else 1)
        m = rng.randint(2 if basis == 'chebyshev_split' else 1, top)
        fn = basis_fn(basis)
        xf = [float(x) for x in xs]
        if conv == 'scalar':
            arg = xf[0]
        elif conv == 'npscalar':
            arg = np.float64(xf[0])
        elif conv == 'f32':
            arg = np.array(xf, dtype=np.float32)
        elif conv == 'npint':
            arg = rng.choice([np.int64, np.int32, np.int16, np.int8])(int(xs[0]))
        elif conv == '0dint':
            arg = np.array(int(xs[0]), dtype=rng.choice(['int64', 'int16']))
        elif conv.startswith('int') or conv.startswith('uint'):
            arg = np.array([int(x) for x in xs], dtype=conv)
        elif conv == '0d':
            arg = np.array(xf[0], dtype=np.float64)                 # a scalar in a zero-dimensional array
        elif conv == '0d32':
            arg = np.asarray(np.float32(xf[0]))
        elif conv == 'readonly':
            arg = dress(np.array(xf, dtype=np.float64), 'readonly')
        elif conv == 'swapped':
            arg = dress(np.array(xf, dtype=np.float64), 'swapped')
        elif conv == 'swapped32':
            arg = dress(dress(np.array(xf, dtype=np.float32), 'swapped'), 'strided')
        elif conv == 'fortran':
            arg = np.array([xf, xf], dtype=np.float64).T[:, 0]      # a non-contiguous view
        else:
            arg = np.array(xf, dtype=np.float64)
        rec = {'kind': 'basis', 'basis': basis, 'm': m, 'xs': [rq(x) for x in xs], 'rows': -1, 'cols': -1, 'vals': [],
               'tol': TOLU32 if conv in ('f32', '0d32', 'swapped32') else TOLU64, 'conv': conv, 'exc': ''}
        snap = Snap(x=arg)
        try:
            a = np.asarray(fn(arg, m))
            if a.ndim == 2:
                rec['rows'], rec['cols'] = int(a.shape[0]), int(a.shape[1])
                rec['vals'] = [[absf(a[d, j]) for d in range(a.shape[0])] for j in range(a.shape[1])]
        except Exception as ex:
            rec['exc'] = describe(ex)
            rec['rows'], rec['cols'], rec['vals'] = -1, -1, []
        if basis == 'chebyshev_split' and conv.startswith('uint') and not rec['exc']:
            rec['finding'] = 'D-C13-6'          # applies only if the record is rejected
        recs.append(rec)
        if snap.items:
            recs.append(unchanged(snap, ALIAS[basis], m=m, conv=conv))
    return recs


def fit_records(rng, n):
    """Small rational fitting problems judged exactly by the specification.  Half of them are call HISTORIES: 2-4
    func_fit calls one after the other that reuse the same x, y, invvar, ia and inputans array objects with a different
    free/fixed mask each time; every call is recorded with the arguments the caller supplied (the prescribed values as
    they were put into the array before the first call)."""
    from pydl.pydlutils.trace import func_fit
    recs = []
    nfit = 0
    hist = 0
    while nfit < n:
        basis = rng.choice(['legendre', 'chebyshev', 'poly', 'chebyshev_split'])
        q = rng.choice([1, 1, 2, 2, 3, 4])
        nc = rng.randint(2 if basis == 'chebyshev_split' else 1, 3 if q > 1 else 2)
        pool = sorted({F(p, q) for p in range(-q, q + 1)})
        npts = rng.randint(nc + 1, 9)
        xs = [rng.choice(pool) for _ in range(npts)]
        w = [F(rng.choice([0, 1, 1, 2, 3, 4]), rng.choice([1, 1, 2])) for _ in range(npts)]
        good = {x for x, wt in zip(xs, w) if wt > 0}
        if basis == 'chebyshev_split':
            neg = {x for x in good if x < 0}
            pos = good - neg
            if not ((len(neg) >= nc - 1 and len(pos) >= 1) or (len(pos) >= nc - 1 and len(neg) >= 1)):
                continue
        elif len(good) < nc:
            continue
        if sum(1 for wt in w if wt > 0) < 2:        # func_fit's one-good-point shortcut is outside "enough good points"
            continue
        y = [F(rng.randint(-6, 6), rng.choice([1, 1, 2])) for _ in range(npts)]
        ncalls = rng.choice([1, 1, 2, 3, 4]) if nc > 1 else 1
        masks = []
        while len(masks) < ncalls:
            mk = [rng.random() < (0.75 if ncalls == 1 else 0.5) for _ in range(nc)]
            if not masks or mk != masks[-1]:
                masks.append(mk)
        if ncalls == 1:
            ians = [F(rng.randint(-3, 3)) for _ in range(nc)]
        else:
            ians = [F(rng.choice([-3, -2, -1, 1, 2, 3])) for _ in range(nc)]
        name = rng.choice([basis, ALIAS[basis]])
        xa = np.array([float(v) for v in xs])
        ya = np.array([float(v) for v in y])
        wa = np.array([float(v) for v in w])
        iaa = np.ones(nc, dtype=bool)
        ansa = np.array([float(v) for v in ians])
        form = rng.choice(['plain', 'plain', 'negzero', 'intans'])
        if form == 'negzero':          # zeros (prescribed values, weights) written as -0.0
            ansa = np.where(ansa == 0, -0.0, ansa)
            wa = np.where(wa == 0, -0.0, wa)
        elif form == 'intans':         # prescribed values as an integer array
            ansa = np.array([int(v) for v in ians], dtype=np.int64)
        layout = {nme: rng.choice(LAYOUTS1) for nme in ('x', 'y', 'invvar', 'inputans')}
        layout['ia'] = rng.choice(['plain', 'strided'])         # (rewritten in place between the calls of a history)
        arrs = {'x': xa, 'y': ya, 'invvar': wa, 'inputans': ansa}
        for nme in ('x', 'y', 'invvar', 'inputans'):            # integral values also in integer types
            t = rng.choice(NUMTYPES)
            b = as_type(arrs[nme], t)
            if t != 'float' and b is not None:
                arrs[nme] = b
                layout[nme] += ':' + t
            arrs[nme] = dress(arrs[nme], layout[nme].partition(':')[0])
        xa, ya, wa, ansa = arrs['x'], arrs['y'], arrs['invvar'], arrs['inputans']
        iaa = dress(iaa, layout['ia'])
        hist += 1
        for call, mk in enumerate(masks):
            iaa[:] = mk
            kw = {'invvar': wa, 'function_name': name}
            if ncalls > 1 or not all(mk) or rng.random() < 0.5:
                kw['ia'] = iaa
                kw['inputans'] = ansa
            rec = {'kind': 'fit', 'basis': basis, 'nc': nc, 'xs': [rq(v) for v in xs], 'y': [rq(v) for v in y],
                   'w': [rq(v) for v in w], 'ia': list(mk), 'ians': [rq(v) for v in ians], 'res': [], 'yfit': [],
                   'tol': TOLU64, 'exc': '', 'hist': hist, 'call': call, 'ncalls': ncalls,
                   'layout': '/'.join('%s=%s' % kv for kv in sorted(layout.items()) if kv[1] != 'plain') or 'plain'}
            snap = Snap(x=xa, y=ya, invvar=wa, ia=iaa, inputans=ansa)
            try:
                res, yfit = func_fit(xa, ya, nc, **kw)
                rec['res'] = [absf(v) for v in np.asarray(res).ravel()]
                rec['yfit'] = [absf(v) for v in np.asarray(yfit).ravel()]
            except Exception as ex:
                rec['exc'] = describe(ex)
                rec['res'], rec['yfit'] = [], []
                if isinstance(ex, AssertionError) and layout['x'].startswith('swapped'):
                    rec['finding'] = 'D-C13-3'
            if ':' in layout['x'] and not rec['exc']:
                rec['finding'] = 'D-C13-4'          # applies only if the specification rejects the record
            recs.append(rec)
            nfit += 1
            recs.append(unchanged(snap, 'func_fit', hist=hist, call_index=call, ncalls=ncalls))
            # the history goes on with the arrays as the code left them
    return recs


def grid_summary(xg, nt):
    xg = np.asarray(xg)
    if xg.ndim != 2 or xg.shape[1] == 0:
        return {'rows': -1, 'nx': -1, 'exact': False, 'first': [0, 1], 'last': [0, 1], 'unit': False}
    fr = [F(float(v)) for v in (xg[0, 0], xg[0, -1])]
    exact = all(f.denominator <= 1024 and abs(f.numerator) < 2 ** 30 for f in fr) and \
        bool((xg == xg[0:1, :]).all())
    return {'rows': int(xg.shape[0]), 'nx': int(xg.shape[1]), 'exact': bool(exact),
            'first': rq(fr[0]) if exact else [0, 1], 'last': rq(fr[1]) if exact else [0, 1],
            'unit': bool((np.diff(xg, axis=1) == 1).all())}


def rand_jump(rng, a, b, xmin=None):
    """Jump parameters (halves / quarters); a third of them with a zero, negative or edge parameter."""
    kind = rng.choice(['any', 'any', 'any', 'any', 'lo0', 'hi0', 'val0', 'neglo', 'loxmin'])
    lo = F(rng.randint(2 * a - 2, 2 * b + 2), 2)
    hi = lo + rng.choice([F(1, 2), F(1), F(2)])
    val = rng.choice([F(1, 2), F(1, 4), F(-1, 4), F(1), F(-1, 2) if hi - lo > F(1, 2) else F(1, 4)])
    if kind == 'lo0':
        lo, hi = F(0), rng.choice([F(1, 2), F(1), F(2), F(4)])
    elif kind == 'hi0':
        hi, lo = F(0), -rng.choice([F(1, 2), F(1), F(2)])
    elif kind == 'val0':
        val = F(0)
    elif kind == 'neglo':
        lo, hi = -rng.choice([F(1, 2), F(1), F(3)]), rng.choice([F(1), F(2), F(3)])
    elif kind == 'loxmin' and xmin is not None:
        lo, hi = xmin, xmin + rng.choice([F(1), F(2)])
    if val <= lo - hi:
        val = F(1, 4)
    return lo, hi, val


def tseval_records(rng, n):
    from pydl.pydlutils.trace import TraceSet, traceset2xy
    recs = []
    for _ in range(n):
        basis = rng.choice(['legendre', 'chebyshev', 'poly'])
        nc = rng.randint(1, 4)
        nt = rng.randint(1, 3)
        a = rng.randint(-2, 3)
        b = a + rng.randint(4, 10)
        xmin = F(4 * a - rng.choice([0, 0, 1, 2]), 4)
        xmax = F(4 * b + rng.choice([0, 0, 1, 2, 3]), 4)
        coeff = [[F(rng.randint(-4, 4), rng.choice([1, 1, 2])) for _ in range(nc)] for _ in range(nt)]
        on = rng.random() < 0.6
        lo, hi, val = rand_jump(rng, a, b, xmin)
        ign = on and rng.random() < 0.25
        k = rng.randint(1, 6)
        xp = [[F(rng.randint(4 * a, 4 * b), rng.choice([1, 2, 4, 4])) for _ in range(k)] for _ in range(nt)]
        xp = [[min(max(x, F(a)), F(b)) for x in row] for row in xp]
        near = rng.random() < 0.3
        if near:
            # far from 0, rows that are equal / NEARLY equal (1e-5 .. 1e-6 relative) / clearly different
            shift = rng.choice([1000, 1500, -1200])
            a, b, xmin, xmax, lo, hi = a + shift, b + shift, xmin + shift, xmax + shift, lo + shift, hi + shift
            nt = rng.randint(2, 3)
            nc = min(nc, 3)
            coeff = [[F(rng.randint(-4, 4), rng.choice([1, 1, 2])) for _ in range(nc)] for _ in range(nt)]
            row0 = [x + shift for x in xp[0]]
            xp = [row0] + [[x + d for x in row0] for d in
                           [rng.choice([F(0), F(1, 128), F(1, 64), F(-1, 128), F(1, 2)]) for _ in range(nt - 1)]]
        cf = np.array([[float(v) for v in r] for r in coeff])
        lay = rng.choice(LAYOUTS2)
        if rng.random() < 0.3:          # integral positions, handed over in an integer type where they fit
            xp = [[F(math.floor(x)) for x in row] for row in xp]
        xpa = np.array([[float(v) for v in r] for r in xp])
        t_ = rng.choice(NUMTYPES)
        if t_ != 'float' and as_type(xpa, t_) is not None:
            xpa = as_type(xpa, t_)
            lay += ':' + t_
        xpa = dress(xpa, lay.partition(':')[0])
        exc = ''
        first = rng.random() < 0.5
        snap = Snap(xpos=xpa)
        try:
            t = TraceSet(fits_rec(basis, float(xmin), float(xmax), cf, (float(lo), float(hi), float(val)) if on else None))
            snap = Snap(xpos=xpa, coeff=np.asarray(t.coeff))
            if first:
                _, yv = t.xy(xpa, ignore_jump=ign)
            else:
                _, yv = traceset2xy(t, xpa, ignore_jump=ign)
            xg, yg = traceset2xy(t, ignore_jump=ign)
            gs = grid_summary(xg, nt)
            gi = sorted({1, gs['nx'], rng.randint(1, max(1, gs['nx']))}) if gs['nx'] > 0 else []
            vals = [[absf(v) for v in row] for row in np.asarray(yv)]
            gvals = [[absf(np.asarray(yg)[kk, g - 1]) for g in gi] for kk in range(nt)]
        except Exception as ex:
            exc = describe(ex)
            vals, gvals, gi, gs = [], [], [], grid_summary(np.zeros((0, 0)), nt)
        small = lay.partition(':')[2] in ('int16', 'uint16', 'uint8', 'int8') and on and not ign
        recs.append({'kind': 'tseval', 'basis': basis, 'nc': nc, 'coeff': [[rq(v) for v in r] for r in coeff],
                     'xmin': rq(xmin), 'xmax': rq(xmax),
                     'jump': {'on': on, 'lo': rq(lo), 'hi': rq(hi), 'val': rq(val)}, 'ign': bool(ign),
                     'xp': [[rq(v) for v in r] for r in xp], 'vals': vals, 'grid': gs, 'gi': gi, 'gvals': gvals,
                     'tol': TOLU32 if small else TOLU64, 'exc': exc, 'layout': lay, 'near': near})
        if ':' in lay and not exc:
            recs[-1]['finding'] = 'D-C13-5'         # integer-typed positions: applies only if the record is rejected
        # row independence: the traces evaluated together against each trace evaluated alone (a one-trace table)
        info = {'basis': basis, 'nc': nc, 'nTrace': nt, 'near': near, 'layout': lay}
        try:
            _, ytog = traceset2xy(t, xpa, ignore_jump=ign)
            d = 0.0
            for kk in range(nt):
                t1 = TraceSet(fits_rec(basis, float(xmin), float(xmax), cf[kk:kk + 1, :],
                                       (float(lo), float(hi), float(val)) if on else None))
                _, y1 = traceset2xy(t1, np.asarray(xpa)[kk:kk + 1, :], ignore_jump=ign)
                d = max(d, float(np.abs(np.asarray(ytog)[kk, :] - np.asarray(y1)[0, :]).max()))
            recs.append(law('rowalone', units(d, max(1.0, float(np.abs(np.asarray(ytog)).max()))), **info))
        except Exception as ex:
            recs.append(law('rowalone', 2 * 10**9, crash=True, exc=describe(ex), **info))
        recs.append(unchanged(snap, 'traceset2xy', basis=basis, nc=nc))
    return recs


def limits_records(rng, n):
    """Trace sets fitted to positions with the xmin / xmax keywords absent, zero (0, 0.0, -0.0), negative or positive -
    always different from what the positions alone would give; the specification says what xmin, xmax and the default
    grid must be."""
    from pydl.pydlutils.trace import TraceSet, traceset2xy, xy2traceset
    recs = []
    for it in range(n):
        a = rng.choice([-60, -12, -3, 0, 2, 40])
        b = a + rng.randint(6, 20)
        nt = rng.randint(1, 3)
        xpos = np.tile(np.arange(a, b + 1, dtype=np.float64), (nt, 1))
        dmin, dmax = F(a), F(b)
        if nt > 1 and rng.random() < 0.5:
            xpos[1, :] += 0.5
            dmax = F(b) + F(1, 2)
        ypos = 3.0 + 0.01 * xpos + 1e-4 * xpos ** 2
        lay = rng.choice(LAYOUTS2)
        t_ = rng.choice(NUMTYPES)
        if t_ != 'float' and as_type(xpos, t_) is not None:
            xpos = as_type(xpos, t_)
            lay += ':' + t_
        xpos, ypos = dress(xpos, lay.partition(':')[0]), dress(ypos, rng.choice(LAYOUTS2))
        cmin = [None, dmin - 1, dmin - F(1, 4), dmin - 7]
        if dmin > 0:
            cmin += [F(0), F(0), F(0)]
        cmax = [None, dmax + 1, dmax + F(3, 4), dmax + 7]
        if dmax < 0:
            cmax += [F(0), F(0), F(0)]
        xmin, xmax = rng.choice(cmin), rng.choice(cmax)
        zform = rng.choice(['float', 'int', 'negzero'])

        def form(v):
            if v == 0:
                return {'float': 0.0, 'int': 0, 'negzero': -0.0}[zform]
            if v.denominator == 1 and zform == 'int':
                return rng.choice([int, np.int64, np.int32, np.int16])(int(v))
            return float(v)
        kw = {'ncoeff': rng.randint(1, 3), 'func': rng.choice(['legendre', 'chebyshev', 'poly'])}
        if xmin is not None:
            kw['xmin'] = form(xmin)
        if xmax is not None:
            kw['xmax'] = form(xmax)
        rec = {'kind': 'limits', 'gmin': xmin is not None, 'gmax': xmax is not None, 'xmin': rq(xmin if xmin is not None else F(0)),
               'xmax': rq(xmax if xmax is not None else F(0)), 'xpos': [[rq(dmin), rq(dmax)]], 'nTrace': nt,
               'omin': [0, 1], 'omax': [0, 1], 'oexact': False, 'grid': grid_summary(np.zeros((0, 0)), nt), 'exc': '',
               'keywords': [repr(kw.get('xmin')), repr(kw.get('xmax'))], 'layout': lay}
        try:
            t = (xy2traceset if it % 2 else TraceSet)(xpos, ypos, **kw)
            om, ox = F(float(t.xmin)), F(float(t.xmax))
            if all(f.denominator <= 1024 and abs(f.numerator) < 2 ** 30 for f in (om, ox)):
                rec['omin'], rec['omax'], rec['oexact'] = rq(om), rq(ox), True
            xg, _ = traceset2xy(t)
            rec['grid'] = grid_summary(xg, nt)
        except Exception as ex:
            rec['exc'] = describe(ex)
        recs.append(rec)
    return recs


def units(d, scale=1.0):
    """A measured discrepancy in units of 1e-12 of the data scale (integer, capped)."""
    d = float(d)
    if not math.isfinite(d):
        return 2 * 10**9
    return int(min(math.ceil(d / max(1.0, float(scale)) / 1e-12), 2 * 10**9))


def design_matrix(basis, x, nc):
    """Independent basis matrix (numpy.polynomial) for the lstsq oracle of the M3 part."""
    from numpy.polynomial import chebyshev, legendre, polynomial
    x = np.asarray(x, dtype=np.float64)
    if basis == 'legendre':
        return legendre.legvander(x, nc - 1)
    if basis == 'chebyshev':
        return chebyshev.chebvander(x, nc - 1)
    if basis == 'poly':
        return polynomial.polyvander(x, nc - 1)
    return np.hstack([(x >= 0).astype(np.float64)[:, None], chebyshev.chebvander(x, nc - 2)])


def wls_reference(A64, y64, w64, ia, ians64):
    """The independent solver of the M3 part: numpy.linalg.lstsq on the sqrt(weight)-scaled free columns."""
    good = w64 > 0
    free = np.nonzero(ia)[0]
    fixed = np.nonzero(~ia)[0]
    sw = np.sqrt(w64[good])
    ysub = y64 - A64[:, fixed] @ ians64[fixed]
    ref = ians64.copy()
    if len(free):
        ref[free] = np.linalg.lstsq(A64[good][:, free] * sw[:, None], ysub[good] * sw, rcond=None)[0]
    return ref


def fit_law_records(rng, nprng, n):
    """Random float fitting problems: func_fit against numpy.linalg.lstsq (wls), fixed kept, zero weights, exact,
    caller arrays unchanged; the calls of one problem reuse the same ia / inputans array objects (a call history)."""
    from pydl.pydlutils.trace import func_fit
    recs = []
    for it in range(n):
        basis = rng.choice(['legendre', 'chebyshev', 'poly', 'chebyshev_split'])
        width = 32 if it % 5 == 4 else 64
        nc = rng.randint(2 if basis == 'chebyshev_split' else 1, 4 if width == 32 else 6)
        npts = rng.randint(2 * nc + 6, 48)
        dt = np.float32 if width == 32 else np.float64
        x = (np.linspace(-1, 1, npts) + nprng.uniform(-0.4, 0.4, npts) / npts).astype(dt)
        if rng.random() < 0.5:
            x = x[nprng.permutation(npts)]
        w = nprng.uniform(0.1, 10.0, npts).astype(dt)
        zero = nprng.random(npts) < 0.2
        # keep at least nc + 3 good points on each side of zero
        for side in (x < 0, x >= 0):
            idx = np.nonzero(side & ~zero)[0]
            if len(idx) < nc + 3:
                zero[np.nonzero(side)[0]] = False
        w[zero] = 0
        ctrue = nprng.normal(0, 2, nc)
        A64 = np.asarray(design_matrix(basis, x, nc), dtype=np.float64)
        y = (A64 @ ctrue + nprng.normal(0, 0.5, npts)).astype(dt)
        ia = nprng.random(nc) < 0.7
        if it % 3 == 0:
            ia[:] = True
        ians = nprng.normal(0, 2, nc).astype(dt)
        ians = np.where(np.abs(ians) < 0.05, dt(1.0), ians).astype(dt)
        want_ia, want_ians = ia.copy(), ians.copy()              # what the caller means; the arrays below are handed over
        kw = {'invvar': w, 'function_name': basis}
        if not ia.all() or it % 2:
            kw['ia'] = ia
            kw['inputans'] = ians
        info = {'basis': basis, 'nc': nc, 'npts': npts, 'seed_index': it}
        y64 = np.asarray(y, dtype=np.float64)
        w64 = np.asarray(w, dtype=np.float64)
        lays = {nme: rng.choice(LAYOUTS1) for nme in ('x', 'y', 'invvar', 'inputans')}
        lays['ia'] = rng.choice(['plain', 'strided'])
        info['layouts'] = {k2: v for k2, v in lays.items() if v != 'plain'}
        x, y, w = dress(x, lays['x']), dress(y, lays['y']), dress(w, lays['invvar'])
        ia, ians = dress(ia, lays['ia']), dress(ians, lays['inputans'])
        kw['invvar'] = w
        if 'ia' in kw:
            kw['ia'], kw['inputans'] = ia, ians
        stage = 'wls'
        try:
            snap = Snap(x=x, y=y, invvar=w, ia=ia, inputans=ians)
            res, yfit = func_fit(x, y, nc, **kw)
            recs.append(unchanged(snap, 'func_fit', **info))
            ref = wls_reference(A64, y64, w64, want_ia, np.asarray(want_ians, dtype=np.float64))
            sc = max(1.0, float(np.abs(ref).max()))
            d = max(float(np.abs(np.asarray(res, dtype=np.float64) - ref).max()),
                    float(np.abs(np.asarray(yfit, dtype=np.float64) - A64 @ ref).max()))
            recs.append(law('wls', units(d, sc), pre=(w64 > 0).sum() >= nc, width=width, nfree=int(want_ia.sum()), **info))
            fixed = np.nonzero(~want_ia)[0]
            stage = 'fixed'
            if len(fixed):
                recs.append(law('fixed', int(sum(1 for j in fixed if res[j] != want_ians[j])), width=width, **info))
            stage = 'zerow'
            if zero.any():
                y2 = y.copy()
                y2[w == 0] += nprng.normal(0, 100, int((w == 0).sum())).astype(dt)
                res2, yfit2 = func_fit(x, y2, nc, **kw)             # same ia / inputans objects again
                d2 = max(float(np.abs(res2 - res).max()), float(np.abs(yfit2 - yfit).max()))
                recs.append(law('zerow', units(d2, sc), width=width, **info))
            stage = 'wls'
            if 'ia' in kw and nc > 1:
                # the history goes on: same arrays, the mask turned over (what was free is now fixed and vice versa)
                flip = ~want_ia
                if not flip.any():
                    flip[rng.randrange(nc)] = True
                if flip.all():
                    flip[rng.randrange(nc)] = False
                ia[:] = flip
                snap = Snap(x=x, y=y, invvar=w, ia=ia, inputans=ians)
                res4, yfit4 = func_fit(x, y, nc, **kw)
                recs.append(unchanged(snap, 'func_fit', second_call=True, **info))
                ref4 = wls_reference(A64, y64, w64, flip, np.asarray(want_ians, dtype=np.float64))
                sc4 = max(1.0, float(np.abs(ref4).max()))
                d4 = max(float(np.abs(np.asarray(res4, dtype=np.float64) - ref4).max()),
                         float(np.abs(np.asarray(yfit4, dtype=np.float64) - A64 @ ref4).max()))
                recs.append(law('wls', units(d4, sc4), width=width, nfree=int(flip.sum()), second_call=True, **info))
                ia[:] = want_ia
            stage = 'exact'
            # exact combination of float coefficients, fixed ones prescribed at their true values
            y3 = (A64 @ ctrue).astype(dt)
            kw3 = dict(kw)
            if 'inputans' in kw3:
                kw3['inputans'] = ctrue.astype(dt)
            res3, yfit3 = func_fit(x, y3, nc, **kw3)
            d3 = float(np.abs(np.asarray(res3, dtype=np.float64) - ctrue.astype(dt)).max())
            recs.append(law('exact', units(d3, max(1.0, float(np.abs(ctrue).max()))), width=width, **info))
        except core.MachineryError:
            raise
        except Exception as ex:
            rec = law(stage, 2 * 10**9, width=width, crash=True, exc=describe(ex), **info)
            if isinstance(ex, AssertionError) and lays['x'] == 'swapped':
                rec['finding'] = 'D-C13-3'          # byte-swapped x: the dtype assertion of func_fit
            recs.append(rec)
    return recs


def tset_law_records(rng, nprng, n):
    """Random float trace sets: fit-then-evaluate, coefficients = func_fit on the normalised positions, jump laws,
    round trip, caller arrays unchanged."""
    from pydl.pydlutils.trace import TraceSet, func_fit, traceset2xy, xy2traceset
    recs = []
    for it in range(n):
        basis = rng.choice(['legendre', 'chebyshev', 'poly'])
        nc = rng.randint(1, 6)
        nt = rng.randint(1, 4)
        nx = rng.randint(2 * nc + 6, 60)
        width = 32 if it % 6 == 5 else 64
        dt = np.float32 if width == 32 else np.float64
        x0 = rng.choice([0.0, 0.0, 100.0, -7.5, 40.0, -float(nx + 5)])
        xpos = np.tile(np.arange(nx, dtype=np.float64) + x0, (nt, 1))
        near = width == 64 and rng.random() < 0.3
        if near:
            # far from 0, each row the first one shifted by 0 / a tiny amount (1e-7 .. 4e-6 relative) / clearly
            x0 = rng.choice([1000.0, 1500.0, -1300.0])
            xpos = np.tile(np.arange(nx, dtype=np.float64) + x0, (nt, 1))
            for k in range(1, nt):
                xpos[k, :] += rng.choice([0.0, 1e-4, 1e-3, 4e-3, -4e-3, 0.1])
        elif it % 2:
            xpos = xpos + nprng.uniform(-0.3, 0.3, xpos.shape)
        xpos = xpos.astype(dt)
        ypos = (50 + 10 * np.sin(xpos / nx * 3) + nprng.normal(0, 0.3, xpos.shape)).astype(dt)
        kw = {'func': basis, 'ncoeff': nc}
        invvar = nprng.uniform(0.5, 4, xpos.shape).astype(dt)
        invvar[nprng.random(xpos.shape) < 0.1] = 0
        inmask = nprng.random(xpos.shape) > 0.1
        if it % 3 != 0:
            kw['invvar'] = invvar
        else:
            invvar = np.ones(xpos.shape, dtype=dt)
        if it % 4 < 2:
            kw['inmask'] = inmask
        else:
            inmask = np.ones(xpos.shape, dtype=bool)
        jump = it % 5 < 3
        if jump:
            lo = x0 + nprng.uniform(0.2, 0.8) * nx
            wdt = nprng.uniform(0.5, 3.0)
            val = nprng.uniform(-0.4, 0.8) * min(1.0, wdt)
            # a third of the jumps have a zero / negative / edge parameter
            special = rng.choice(['', '', '', '', 'lo0', 'lo0int', 'hi0', 'val0', 'neglo', 'loxmin'])
            if special == 'lo0':
                lo = 0.0
            elif special == 'lo0int':
                lo, wdt = 0, rng.choice([2, 5, 40])
            elif special == 'hi0':
                lo, wdt = -wdt, wdt
            elif special == 'val0':
                val = 0.0
            elif special == 'neglo':
                lo = -nprng.uniform(0.5, 5.0)
                wdt = -lo + nprng.uniform(0.5, 6.0)
            elif special == 'loxmin':
                lo = float(xpos.min())
            kw['xjumplo'], kw['xjumphi'], kw['xjumpval'] = lo, lo + wdt, val
        if it % 7 == 0:
            kw['xmin'], kw['xmax'] = x0 - 2.0, x0 + nx + 1.5
        elif x0 == 40.0 and it % 2:
            kw['xmin'] = rng.choice([0, 0.0, -0.0])            # a zero limit that is not what the positions give
        elif x0 < -nx and it % 2:
            kw['xmax'] = rng.choice([0, 0.0, -0.0])
        info = {'basis': basis, 'nc': nc, 'nTrace': nt, 'nx': nx, 'jump': bool(jump), 'seed_index': it,
                'limits': [repr(kw.get('xmin')), repr(kw.get('xmax'))],
                'jumpargs': [repr(kw.get(kk)) for kk in ('xjumplo', 'xjumphi', 'xjumpval')]}
        start = len(recs)
        lays = {nme: rng.choice(LAYOUTS2) for nme in ('xpos', 'ypos', 'invvar', 'inmask')}
        t_ = rng.choice(NUMTYPES)
        if width == 64 and t_ != 'float' and as_type(xpos, t_) is not None:      # an integer pixel grid
            xpos = as_type(xpos, t_)
            lays['xpos'] += ':' + t_
        info['layouts'] = {k2: v for k2, v in lays.items() if v != 'plain'}
        xpos, ypos = dress(xpos, lays['xpos'].partition(':')[0]), dress(ypos, lays['ypos'])
        invvar, inmask = dress(invvar, lays['invvar']), dress(inmask, lays['inmask'])
        if 'invvar' in kw:
            kw['invvar'] = invvar
        if 'inmask' in kw:
            kw['inmask'] = inmask
        stage = 'fitxy'
        try:
            snap = Snap(xpos=xpos, ypos=ypos, invvar=kw.get('invvar'), inmask=kw.get('inmask'))
            t = (xy2traceset if it % 2 else TraceSet)(xpos, ypos, **kw)
            recs.append(unchanged(snap, 'xy2traceset' if it % 2 else 'TraceSet', **info))
            snap = Snap(xpos=xpos, coeff=np.asarray(t.coeff), yfit=np.asarray(t.yfit))
            _, y1 = t.xy(xpos)
            _, y2 = traceset2xy(t, xpos)
            recs.append(unchanged(snap, 'traceset2xy', **info))
            yfit = np.asarray(t.yfit, dtype=np.float64)
            sc = max(1.0, float(np.abs(yfit).max()))
            recs.append(law('fitxy', units(max(float(np.abs(np.asarray(y1) - yfit).max()),
                                               float(np.abs(np.asarray(y2) - yfit).max())), sc), width=width, **info))
            # what the caller asked for is what the trace set says about itself
            stage = 'tscoeff'
            if bool(t.has_jump) != bool(jump) and kw.get('xjumpval') != 0:
                raise ValueError('has_jump is %r for jump arguments %r' % (t.has_jump, info['jumpargs']))
            dmax = 0.0
            coeff = np.asarray(t.coeff)
            for k in range(nt):
                xv = t.xnorm(xpos[k, :], bool(t.has_jump))
                r, _ = func_fit(xv, ypos[k, :], nc, invvar=invvar[k, :] * inmask[k, :].astype(dt), function_name=basis)
                dmax = max(dmax, float(np.abs(r - coeff[k, :]).max()))
            recs.append(law('tscoeff', units(dmax, max(1.0, float(np.abs(coeff).max()))), width=width, **info))
            if jump and width == 64:
                below = xpos[:, (xpos <= kw['xjumplo']).all(axis=0)]
                above = xpos[:, (xpos >= kw['xjumphi']).all(axis=0)]
                stage = 'jumpbelow'
                if below.shape[1]:
                    d = np.abs(t.xy(below)[1] - t.xy(below, ignore_jump=True)[1]).max()
                    recs.append(law('jumpbelow', units(d, sc), pre=bool((below <= kw['xjumplo']).all()), **info))
                stage = 'jumpabove'
                if above.shape[1]:
                    d = np.abs(t.xy(above)[1] - t.xy(above + kw['xjumpval'], ignore_jump=True)[1]).max()
                    recs.append(law('jumpabove', units(d, sc), pre=bool((above >= kw['xjumphi']).all()), **info))
            stage = 'roundtrip'
            if width == 64 and it % 2 == 0 and 'xmin' not in kw and 'xmax' not in kw:
                # round trip on the default grid: positions -> trace set -> positions -> trace set
                tk = {k2: v for k2, v in kw.items() if k2 in ('func', 'ncoeff', 'xjumplo', 'xjumphi', 'xjumpval')}
                xg, yg = traceset2xy(t)
                t2 = xy2traceset(xg, yg, xmin=t.xmin, xmax=t.xmax, **tk)
                recs.append(law('roundtrip', units(np.abs(np.asarray(t2.coeff) - coeff).max(),
                                                   max(1.0, float(np.abs(coeff).max()))), **info))
        except core.MachineryError:
            raise
        except Exception as ex:
            recs.append(law(stage, 2 * 10**9, width=width, crash=True, exc=describe(ex), **info))
        if ':' in lays['xpos']:
            narrow = lays['xpos'].partition(':')[2] in ('uint8', 'int16', 'uint16') and 'xmin' not in kw
            for r in recs[start:]:
                if not r.get('crash'):
                    r['finding'] = 'D-C13-7' if narrow else 'D-C13-5'
    return recs


def fixture_records(rng):
    """The two stored trace sets (sdss: no jump; boss: jump): default grid of the full set; jump laws, round trip and
    fit->evaluate on a seeded subset of 8 traces (a table row with the same FUNC/XMIN/XMAX/XJUMP* and those COEFF rows)."""
    from astropy.io import fits
    from pydl.pydlutils.trace import TraceSet, traceset2xy, xy2traceset
    recs = []
    tdir = os.path.join(core.PYDL_SRC, 'pydl', 'pydlutils', 'tests', 't')
    for name in ('sdss_traceset.fits', 'boss_traceset.fits'):
        path = os.path.join(tdir, name)
        if not os.path.exists(path):
            raise core.MachineryError('fixture missing: ' + path)
        stage = 'fitxy'
        with fits.open(path) as hdul:
            table = hdul[1].data
            ntrace = int(table['COEFF'][0].shape[0])
            rows = sorted(rng.sample(range(ntrace), 8))
            try:
                full = TraceSet(table)
                xg, _ = traceset2xy(full)
                xmin, xmax = F(float(full.xmin)), F(float(full.xmax))
                recs.append({'kind': 'grid', 'xmin': rq(xmin), 'xmax': rq(xmax), 'nTrace': ntrace,
                             'grid': grid_summary(xg, ntrace), 'fixture': name})
                jump = (full.xjumplo, full.xjumphi, full.xjumpval) if full.has_jump else None
                if bool(full.has_jump) != ('XJUMPLO' in table.dtype.names):
                    raise ValueError('has_jump is %r for %s' % (full.has_jump, name))
                t = TraceSet(fits_rec(full.func, float(full.xmin), float(full.xmax), np.asarray(full.coeff)[rows, :], jump))
                if np.asarray(t.coeff).shape != (8, full.ncoeff) or bool(t.has_jump) != bool(full.has_jump):
                    raise ValueError('a sub-table of %s gives a different trace set' % name)
                xg, yg = traceset2xy(t)
                kw = {}
                sc = float(np.abs(yg).max())
                if t.has_jump:
                    kw = {'xjumplo': t.xjumplo, 'xjumphi': t.xjumphi, 'xjumpval': t.xjumpval}
                    lo, hi, val = float(t.xjumplo), float(t.xjumphi), float(t.xjumpval)
                    below = xg[:, xg[0, :] <= lo]
                    above = xg[:, xg[0, :] >= hi]
                    stage = 'jumpbelow'
                    db = np.abs(t.xy(below)[1] - t.xy(below, ignore_jump=True)[1]).max(axis=1)
                    stage = 'jumpabove'
                    da = np.abs(t.xy(above)[1] - t.xy(above + val, ignore_jump=True)[1]).max(axis=1)
                    for k in range(8):
                        recs.append(law('jumpbelow', units(db[k], sc), fixture=name, trace=rows[k]))
                        recs.append(law('jumpabove', units(da[k], sc), fixture=name, trace=rows[k]))
                stage = 'roundtrip'
                snap = Snap(xpos=xg, ypos=yg)
                t2 = xy2traceset(xg, yg, ncoeff=t.ncoeff, func=t.func, **kw)
                recs.append(unchanged(snap, 'xy2traceset', fixture=name))
                for k in range(8):
                    recs.append(law('roundtrip', units(np.abs(t2.coeff[k] - t.coeff[k]).max(),
                                                       max(1.0, float(np.abs(t.coeff[k]).max()))), fixture=name, trace=rows[k]))
                stage = 'fitxy'
                recs.append(law('fitxy', units(np.abs(t2.xy(xg)[1] - t2.yfit).max(), float(np.abs(t2.yfit).max())), fixture=name))
            except core.MachineryError:
                raise
            except Exception as ex:
                recs.append(law(stage, 2 * 10**9, crash=True, exc=describe(ex), fixture=name))
    return recs


# ----------------------------------------------------------------------------------------------
GENERATORS = {'basis': lambda rng, nprng, n: basis_records(rng, n), 'fit': lambda rng, nprng, n: fit_records(rng, n),
              'tseval': lambda rng, nprng, n: tseval_records(rng, n), 'fit_law': fit_law_records, 'tset_law': tset_law_records,
              'limits': lambda rng, nprng, n: limits_records(rng, n),
              'fixture': lambda rng, nprng, n: fixture_records(rng)}


def generate(gen, n, seed):
    """Records of one generator; every generator has its own seeded streams so that a single record can be re-made."""
    rng = random.Random('%d-%s' % (seed, gen))
    nprng = np.random.default_rng([seed, sorted(GENERATORS).index(gen)])
    recs = GENERATORS[gen](rng, nprng, n)
    for idx, rec in enumerate(recs):
        rec['origin'] = {'gen': gen, 'n': n, 'seed': seed, 'index': idx}
    return recs


WIRE_DROP = ('info', 'conv', 'exc', 'fixture', 'origin', 'keywords', 'finding')          # ('layout' is sent: the spec ignores it)


def record_direction(ctx):
    """code -> spec: seeded random real calls, recorded and judged by Trace_TraceSetPoly."""
    k = 1 if ctx.quick else 8
    recs = []
    for gen, n in (('basis', 250 * k), ('fit', 200 * k), ('tseval', 120 * k), ('fit_law', 120 * k), ('tset_law', 60 * k),
                   ('limits', 80 * k), ('fixture', 0)):
        recs += generate(gen, n, ctx.seed)
    wire = [{kk: v for kk, v in rec.items() if kk not in WIRE_DROP} for rec in recs]
    bad = core.validate_records(ctx, 'Trace_TraceSetPoly', wire, chunk=max(len(wire), 1))
    big = sum(1 for v in bad.values() if v == 'toobig')
    if big > len(recs) // 10:
        raise core.MachineryError('%d of %d records are outside the exact range of the specification' % (big, len(recs)))
    ctx.evaluated(len(recs) - big, 'recorded')
    ctx.evaluated(big, 'recorded-set-aside')
    ctx.validated(len(recs) - big)
    for i, rec in enumerate(recs):
        if rec['kind'] != 'law':
            ctx.nontriv(('rec', i))
        if rec.get('exc') and i not in bad:
            bad[i] = 'exception ' + rec['exc']
    setaside = 0
    for i in sorted(bad):
        rec = recs[i]
        if bad[i] == 'toobig':          # outside what the specification can compute exactly: set aside, not judged
            setaside += 1
            continue
        if bad[i] in ('notwellposed', 'precondition', 'unknownlaw', 'unknownkind'):
            raise core.MachineryError('record %d rejected for a harness reason (%s): %r' % (i, bad[i], rec))
        if rec.get('exc'):
            bad[i] = '%s: the real code raised %s' % (bad[i], rec['exc'])
        brief = {kk: v for kk, v in rec.items() if kk not in ('vals', 'gvals', 'res', 'yfit', 'origin', 'exc')}
        report(ctx, ('record', rec['kind'], rec.get('basis'), bad[i].split(':')[0]),
               {'what': 'recorded %s rejected by Trace_TraceSetPoly (%s): %s' % (rec['kind'], bad[i], str(brief)[:220]),
                'part': 'record', 'why': bad[i], 'record': rec}, finding=rec.get('finding'))
    ctx.sample({'recorded': {kk: v for kk, v in recs[0].items()}})
    ctx.sample({'law_instance': next(rec for rec in recs if rec['kind'] == 'law')})
    selftest(ctx, recs, wire, bad)


def falsify(w, k):
    """One observed field of an accepted record moved beyond the tolerance (None if the record has nothing to move)."""
    r = json.loads(json.dumps(w))
    kind = r['kind']
    bump = 2 ** 22           # 4e-3 in units of 2^-30: beyond the float64 and the float32 tolerance
    if kind == 'basis':
        if not r['vals']:
            return None
        if k % 3:
            a = k % len(r['vals'])
            r['vals'][a][(k // 3) % len(r['vals'][a])][1] += bump
        else:
            r['rows'], r['cols'] = r['cols'] + 1, r['rows']          # transposed / wrong shape
    elif kind == 'fit':
        if not r['res']:
            return None
        if k % 2 == 0:
            r['res'][k % len(r['res'])][0] += 1
        else:
            r['yfit'][k % len(r['yfit'])][1] += bump
    elif kind == 'tseval':
        if not r['vals'] or not r['vals'][0]:
            return None
        m = k % 4
        if m == 0:
            r['vals'][k % len(r['vals'])][0][1] += bump
        elif m == 1:
            r['grid']['nx'] += 1
        elif m == 2:
            r['grid']['first'] = [r['grid']['first'][0] + r['grid']['first'][1], r['grid']['first'][1]]
        else:
            if not r['gvals'] or not r['gvals'][0]:
                return None
            r['gvals'][0][-1][1] += bump
    elif kind == 'grid':
        r['grid']['nx'] -= 1
    elif kind == 'limits':
        if k % 2 == 0:
            r['omin'] = [r['omin'][0] + r['omin'][1], r['omin'][1]]
        else:
            r['omax'] = [r['omax'][0] - r['omax'][1], r['omax'][1]]
    elif kind == 'law':
        if r['crash']:
            return None
        r['disc'] = 150000000            # above every tolerance of the trace specification
    else:
        return None
    return r


def selftest(ctx, recs, wire, bad):
    """Non-vacuity of the binding: ~200 accepted records with one observed field falsified must all be rejected."""
    fals = []
    step = max(1, len(wire) // 260)
    for i in range(0, len(wire), step):
        if i in bad or recs[i].get('exc'):
            continue
        f = falsify(wire[i], i // step)
        if f is not None:
            fals.append(f)
    fals = fals[:240]
    core.binding_selftest(ctx, 'Trace_TraceSetPoly', fals, 'recorded_calls', extra_env={'VERIF_SELFTEST': '1'})


def run(ctx):
    ctx.level = 'model_checking'
    ctx.rule = ('every non-seed state of MC_TraceSetPoly is one case (basis evaluation (basis, m, x) / fitting problem / '
                'trace-set problem / default grid of a trace set over a real-valued x-range) with its exact rational outcome, replayed under every applicable calling convention; '
                'non-trivial = distinct case with m >= 3 (bases) or with a non-zero generating coefficient beyond the '
                'constant (fits, trace sets); recorded calls = seeded random real calls judged by Trace_TraceSetPoly '
                '(exact records + M3 law instances whose discrepancy is measured by the harness, level exploration)')
    ctx.assumptions = [
        'TLC 32-bit integers: exact abscissae have denominators <= 8 (degree <= MaxDeg(den)), fits use <= 9 abscissae and '
        '<= 4 coefficients; larger/real-valued inputs only in the M3 law instances',
        'float tolerance 1e-9 (float64) / 1e-4 (float32 bases) / 1e-3 (float32 fits), relative to max(1, |expected|)',
        'M3 law instances (general weighted optimum on random float data, fit->evaluate on float trace sets, jump laws and '
        'round trip on the FITS fixtures): numpy.polynomial + numpy.linalg.lstsq are the independent oracle, the harness '
        'measures the discrepancy, the spec judges it (exploration, not model checking)',
        'trace sets are restricted to func in {legendre, chebyshev, poly} (the evaluators TraceSet offers)',
        'integer types: every argument with integral values is also handed over as int64/int32/int16/uint16/uint8 (and numpy '
        'integer scalars for scalar keywords); ia is documented as an array of bool and is not given as integers; a trace '
        'set read from a table keeps its jump parameters in float32, so 8/16-bit integer positions are shifted in single '
        'precision there (float32 tolerance for exactly that combination)']
    _ROT[0] = random.Random(ctx.seed)
    cfg = 'MC_TraceSetPoly_quick.cfg' if ctx.quick else 'MC_TraceSetPoly_thorough.cfg'
    # the model-checking run and the recording of real calls are independent: run TLC in a thread meanwhile
    box = {}

    def mc():
        try:
            box['r'] = ctx.tlc('MC_TraceSetPoly.tla', cfg, dump=True, timeout=1500)
        except BaseException as ex:       # re-raised in the main thread
            box['err'] = ex
    th = threading.Thread(target=mc)
    th.start()
    try:
        record_direction(ctx)
    finally:
        th.join()
    if 'err' in box:
        raise box['err']
    r = box['r']
    groups = {}
    nstate = 0
    ngrid = [0, 0]
    cpu0 = time.process_time()
    for st in core.iter_states(r):
        c, exp = st['c'], st['exp']
        kind = c.get('kind')
        if kind == 'basis':
            x = fq(c['x'])
            groups.setdefault((c['basis'], c['m']), []).append((x, tuple(fq(v) for v in exp['vals'])))
            if c['m'] >= 3:
                ctx.nontriv(('basis', c['basis'], c['m'], c['x']))
            ctx.validated()
            nstate += 1
            if nstate % 400 == 1:
                ctx.sample({'basis_case': jsonable(c), 'expected': jsonable(exp)})
        elif kind == 'fit':
            check_fit(ctx, c, exp)
            ctx.validated()
            nstate += 1
            if any(v != (0, 1) for v in c['gen'][1:]):
                ctx.nontriv(('fit', c['basis'], c['nc'], c['xs'], c['y'], c['w'], c['ia'], c['ians']))
            if nstate % 3000 == 2:
                ctx.sample({'fit_case': jsonable(c), 'expected': jsonable(exp)})
        elif kind == 'hist':
            check_hist(ctx, c, exp)
            ctx.validated(len(c['calls']))
            nstate += 1
            ctx.nontriv(('hist', c['basis'], c['nc'], c['fm'], tuple(cc['ia'] for cc in c['calls']), c['calls'][0]['xs']))
            if 'hist' not in box:
                box['hist'] = True
                ctx.sample({'history_case': jsonable(c), 'expected': jsonable(exp)})
        elif kind == 'tset':
            check_tset(ctx, c, exp)
            ctx.validated()
            nstate += 1
            if 'tset' not in box:
                box['tset'] = True
                ctx.sample({'tset_case': jsonable(c), 'expected': jsonable(exp)})
            if any(v != (0, 1) for row in c['gen'] for v in row[1:]):
                ctx.nontriv(('tset', c['basis'], c['nc'], c['xpos'], c['ypos'], c['w'], c['gmin'], c['gmax'], c['xmin'], c['xmax'],
                             tuple(sorted(c['jump'].items()))))
        elif kind == 'tgrid':
            check_tgrid(ctx, c, exp)
            ctx.validated()
            nstate += 1
            ngrid[(fq(c['xmax']) - fq(c['xmin'])).denominator != 1] += 1
            if 'tgrid' not in box and exp['nx'] > 2 and (fq(c['xmax']) - fq(c['xmin'])).denominator != 1:
                box['tgrid'] = True
                ctx.sample({'tgrid_case': jsonable(c), 'expected': jsonable(exp)})
            ctx.nontriv(('tgrid', c['basis'], c['nc'], c['xmin'], c['xmax'], c['jump']['on']))
    # coverage guard of the case space itself: x-ranges that are / are not a whole number of pixels were both enumerated
    if ngrid[0] + ngrid[1] and not (ngrid[0] and ngrid[1]):
        raise core.MachineryError('default-grid family without whole / fractional x-ranges: %r' % (ngrid,))
    ctx.cov['parts']['tgrid_fractional_ranges'] = ngrid[1]
    ctx.cov['parts']['tgrid_whole_ranges'] = ngrid[0]
    for (basis, m), items in sorted(groups.items()):
        check_basis_group(ctx, basis, m, sorted(items))
    if nstate == 0:
        raise core.MachineryError('MC_TraceSetPoly produced no cases')

    ctx.cov['parts']['replay_cpu_s'] = round(time.process_time() - cpu0, 1)
    ctx.exhaustive = not ctx.quick
    summary()


def replay(ctx, case):
    """bin/check C13 --replay <file>: re-run the single failing case of a replay file."""
    ctx.level = 'model_checking'
    ctx.rule = 'single replayed case'
    part = case.get('part')
    before = len(ctx.violations)
    if part == 'basis':
        xs = [F(p, q) for p, q in case['xs']]
        items = [(x, tuple(F(a, b) for a, b in vals)) for x, vals in zip(xs, case['expected'])]
        # re-run every convention on exactly these abscissae
        check_basis_group(ctx, case['basis'], int(case['m']), items)
    elif part == 'fit':
        check_fit(ctx, untuple(case['call']), untuple(case['expected']), only=case.get('conv'), layouts=case.get('layouts'))
    elif part == 'tset':
        check_tset(ctx, untuple(case['call']), untuple(case['expected']), only=case.get('conv'), layouts=case.get('layouts'))
    elif part == 'hist':
        check_hist(ctx, untuple(case['call']), untuple(case['expected']), layouts=case.get('layouts'))
    elif part == 'tgrid':
        check_tgrid(ctx, untuple(case['call']), untuple(case['expected']), only=case.get('conv'), layouts=case.get('layouts'))
    elif part == 'record':
        # re-make the record from the real code (same generator, same seed, same index) and let the spec judge it again
        o = case['record']['origin']
        rec = generate(o['gen'], o['n'], o['seed'])[o['index']]
        print('re-made record:', str({kk: v for kk, v in rec.items() if kk not in ('vals', 'gvals')})[:600])
        wire = [{kk: v for kk, v in rec.items() if kk not in WIRE_DROP}]
        if rec['kind'] == 'law':
            wire = wire * 5          # MinInstances of the trace specification
        bad = core.validate_records(ctx, 'Trace_TraceSetPoly', wire)
        if bad or rec.get('exc'):
            ctx.violation(case)
    else:
        raise core.MachineryError('unknown replay case')
    ctx.evaluated(1)
    ctx.nontriv('a')
    ctx.nontriv('b')
    print('replayed %s case: %s' % (part, 'still failing' if len(ctx.violations) > before else 'passes now'))
