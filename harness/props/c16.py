"""C16 - readspec returns each requested spectrum in request order, unshifted; spec_append.

Spec: spec/ReadSpec.tla; MC: mc/MC_ReadSpec (+ _quick/_thorough/_tree4/_tree6 cfgs); Trace: trace/Trace_ReadSpec.

spec -> code: every state with pc = "done" of MC_ReadSpec is a call together with the dictionary the specification
demands; the survey tree is written as real FITS files from the pc = "file" states (cell values are TLC's), every call
is executed by the real readspec and every returned array compared with TLC's.  pc = "appended" states are spec_append
cases.  The "runs" family (blocks of fibres of one file in every order) is replayed in full.  code -> spec: seeded random calls (request vectors up to 40 long on a 9-file tree, all conventions, all ways of
locating the tree), the spec_append calls readspec makes while serving them, and random spec_append calls are recorded
and judged by TLC (Trace_ReadSpec).
"""
import contextlib
import json
import multiprocessing
import os
import random
import re
import zlib

import numpy as np

from .. import core, tlaval

IMAGES = ['flux', 'invvar', 'andmask', 'ormask', 'disp', 'sky']
TABLES = ['plugmap', 'zans', 'tsobj']
RUN2D, RUN1D, DRUN2D, DRUN1D = 'v5_7_0', 'v5_7_1', 'v9_9_9', 'v9_9_8'
ENVVARS = ['BOSS_SPECTRO_REDUX', 'RUN2D', 'RUN1D', 'SPECTRO_MATCH', 'PHOTO_RESOLVE', 'SPECTRO_REDUX']
DECOY = 6                    # decoy files carry the identity of file index + 6 (never a file of the tree)
FLOAT_COLS = ('MAG', 'Z', 'THETA', 'FLUX')      # floating-point columns of the data model; every other numeric one is integer
KEEP_COLS = ('FIBERID', 'PLATE', 'MJD')          # not identity-coded: left alone in the decoy files
CONVS = [('s', 's', 's'), ('s', 's', 'v'), ('s', 'o', 's'), ('s', 'o', 'v'),
         ('v', 'v', 's'), ('v', 'v', 'v'), ('v', 'o', 's'), ('v', 'o', 'v')]
_W = {}                      # per-process state for pool workers (set before the fork)
STRING_COLS = set()          # table columns whose specified cells are strings (learnt from TLC's file states)


# --------------------------------------------------------------------------- TLC dump access
_HDR = re.compile(r'^State \d+:')
_PC = re.compile(r'^/\\ pc = "(\w+)"')


def scan_dump(path, want):
    """Yield (pc, text) for the states of a TLC dump whose pc is in `want`, without parsing the others."""
    def emit(buf):
        for line in buf:
            m = _PC.match(line)
            if m:
                if m.group(1) in want:
                    return m.group(1), '\n'.join(buf)
                return None
        return None
    buf = []
    with open(path) as fh:
        for line in fh:
            if line.startswith('State ') and _HDR.match(line):
                if buf:
                    e = emit(buf)
                    if e:
                        yield e
                buf = []
            elif line.strip():
                buf.append(line.rstrip('\n'))
    if buf:
        e = emit(buf)
        if e:
            yield e


def parse_state(text):
    chunks = []
    for line in text.split('\n'):
        if line.startswith('/\\ '):
            chunks.append(line)
        elif chunks:
            chunks[-1] += '\n' + line
    st = {}
    for c in chunks:
        name, _, val = c[3:].partition(' = ')
        st[name.strip()] = tlaval.parse_value(val)
    return st


def plain(v):
    """TLC value (tuples / dicts) -> JSON-able lists / dicts."""
    if isinstance(v, dict):
        return {k: plain(x) for k, x in v.items()}
    if isinstance(v, (tuple, list)):
        return [plain(x) for x in v]
    if isinstance(v, frozenset):
        return sorted(plain(x) for x in v)
    return v


# --------------------------------------------------------------------------- the synthetic tree (spec value -> files)
def _decoy(a, off):
    a = np.asarray(a)
    return np.where(a != 0, a + off * 1000000, a) if off else a


def column_format(name, a):
    """FITS format a writer would choose for this plate: the narrowest that holds every value of the column on THIS
    file (strings: longest value; integers: int16 / int32 / int64; reals: float32 if exact, else float64).  Columns of
    the same name therefore differ in dtype from file to file exactly where the spec's values need it."""
    rep = '' if a.ndim == 1 else str(a.shape[1])
    if a.dtype.kind in 'SU':
        return '%dA' % max(1, max(len(x) for x in a.tolist()))
    if name in FLOAT_COLS:
        exact = np.array_equal(a.astype('f4').astype('f8'), a.astype('f8'))
        return rep + ('E' if exact else 'D')
    m = int(np.abs(a).max()) if a.size else 0
    return rep + ('I' if m < 2**15 else 'J' if m < 2**31 else 'K')


def _table(cols, off):
    from astropy.io import fits
    out = []
    for name, vals in cols.items():
        a = np.asarray(vals)
        if off and name not in KEEP_COLS:
            a = np.array([x + '_D' for x in a.tolist()]) if a.dtype.kind in 'SU' else _decoy(a, off)
        out.append(fits.Column(name, column_format(name, a), array=a))
    return fits.BinTableHDU.from_columns(out)


def write_file(platedir, fc, run1d, off=0, mjd=None, spplate=True):
    """One plate-MJD of the tree: spPlate (7 HDUs), <run1d>/spZbest, photoPlate (if the tree has them)."""
    from astropy.io import fits
    meta = fc['meta']
    mjd = mjd or meta['mjd']
    tag = '%04d-%05d' % (meta['plate'], mjd)
    os.makedirs(os.path.join(platedir, run1d), exist_ok=True)
    if spplate:
        hdus = []
        for k, name in enumerate(fc['layout']):
            if name == 'plugmap':
                h = _table(fc['plugmap'], off)
                h.name = 'PLUGMAP'
            else:
                a = _decoy(np.array(fc['images'][name]), off)
                if 'mask' in name:          # masks: int32, stored as unsigned 32-bit (BZERO convention) on wide files
                    a = a.astype('u4' if meta['wide'] else 'i4')
                else:                       # real images: float32 where it holds the file's values exactly, else float64
                    a = a.astype('f4') if np.array_equal(a.astype('f4').astype('f8'), a.astype('f8')) else a.astype('f8')
                h = fits.PrimaryHDU(a) if k == 0 else fits.ImageHDU(a, name=name.upper())
                if k == 0:
                    h.header['COEFF0'] = (meta['c0'] + (7 if off else 0)) / 1024.0
                    h.header['COEFF1'] = meta['c1'] / 1024.0
            hdus.append(h)
        fits.HDUList(hdus).writeto(os.path.join(platedir, 'spPlate-%s.fits' % tag), overwrite=True)
        if meta['photo']:
            fits.HDUList([fits.PrimaryHDU(), _table(fc['tsobj'], off)]).writeto(
                os.path.join(platedir, 'photoPlate-%s.fits' % tag), overwrite=True)
    fits.HDUList([fits.PrimaryHDU(), _table(fc['zans'], off)]).writeto(
        os.path.join(platedir, run1d, 'spZbest-%s.fits' % tag), overwrite=True)


def write_tree(base, files):
    """Real tree + three decoys (another top directory, another RUN2D, another RUN1D) holding files of the same names
    whose cells identify a file that is not in the tree, plus a later MJD per plate."""
    from astropy.io import fits
    root, droot = os.path.join(base, 'redux'), os.path.join(base, 'decoy')
    latest = {}
    for fc in files:
        m = fc['meta']
        if m['plate'] not in latest or latest[m['plate']]['meta']['mjd'] < m['mjd']:
            latest[m['plate']] = fc
    for fc in files:
        pdir = '%04d' % fc['meta']['plate']
        write_file(os.path.join(root, RUN2D, pdir), fc, RUN1D)
        write_file(os.path.join(root, RUN2D, pdir), fc, DRUN1D, off=DECOY, spplate=False)
        write_file(os.path.join(root, DRUN2D, pdir), fc, RUN1D, off=DECOY)
        write_file(os.path.join(droot, RUN2D, pdir), fc, RUN1D, off=DECOY)
    for plate, fc in latest.items():
        pdir = '%04d' % plate
        write_file(os.path.join(root, DRUN2D, pdir), fc, RUN1D, off=DECOY, mjd=fc['meta']['mjd'] + 3)
        write_file(os.path.join(droot, RUN2D, pdir), fc, RUN1D, off=DECOY, mjd=fc['meta']['mjd'] + 3)
    for top in (root, droot):
        cols = [fits.Column('PLATE', 'J', array=[fc['meta']['plate'] for fc in files]),
                fits.Column('MJD', 'J', array=[fc['meta']['mjd'] for fc in files]),
                fits.Column('RUN2D', '8A', array=[RUN2D] * len(files)),
                fits.Column('RUN1D', '8A', array=[RUN1D] * len(files)),
                fits.Column('N_TOTAL', 'J', array=[fc['meta']['nfib'] for fc in files])]
        fits.HDUList([fits.PrimaryHDU(), fits.BinTableHDU.from_columns(cols)]).writeto(
            os.path.join(top, 'platelist.fits'), overwrite=True)
    return {'root': root, 'droot': droot, 'nowhere': os.path.join(base, 'nowhere'),
            'photo': bool(files[0]['meta']['photo']),
            'meta': [dict(fc['meta'], file=fc['file']) for fc in sorted(files, key=lambda x: x['file'])]}


def build_tree(ctx, cfg, name):
    """Tree contents come from TLC (pc = "file" states of MC_ReadSpec under the given cfg)."""
    r = ctx.tlc('MC_ReadSpec.tla', cfg, dump=True, count=False, label=cfg)
    files = [plain(parse_state(text)['ret']) for _, text in scan_dump(r['dump'], {'file'})]
    os.remove(r['dump'])
    if not files:
        raise core.MachineryError('no file states in ' + cfg)
    for fc in files:
        for t in TABLES:
            for c, col in (fc[t] or {}).items():
                if col and isinstance(col[0], str):
                    STRING_COLS.add(c)
    return write_tree(os.path.join(ctx.scratch, name), files)


# --------------------------------------------------------------------------- spec call -> real call
@contextlib.contextmanager
def loc_env(tree, loc):
    saved = {k: os.environ.get(k) for k in ENVVARS}
    env = {'BOSS_SPECTRO_REDUX': tree['root'], 'RUN2D': RUN2D, 'RUN1D': RUN1D,
           'SPECTRO_MATCH': os.path.join(tree['nowhere'], 'match'), 'PHOTO_RESOLVE': os.path.join(tree['nowhere'], 'resolve')}
    if loc in ('topdir', 'path'):
        env['BOSS_SPECTRO_REDUX'] = tree['droot']
    if loc in ('run2d', 'path'):
        env['RUN2D'] = DRUN2D
    if loc == 'run1d':
        env['RUN1D'] = DRUN1D
    if loc == 'bare':              # only the variables the docstring names
        del env['SPECTRO_MATCH'], env['PHOTO_RESOLVE']
    try:
        for k in ENVVARS:
            os.environ.pop(k, None)
        os.environ.update(env)
        yield
    finally:
        for k, v in saved.items():
            if v is None:
                os.environ.pop(k, None)
            else:
                os.environ[k] = v


def loc_kwargs(tree, call):
    loc = call['loc']
    if loc == 'topdir':
        return {'topdir': tree['root']}
    if loc == 'run2d':
        return {'run2d': RUN2D}
    if loc == 'run1d':
        return {'run1d': RUN1D}
    if loc == 'path':
        return {'path': os.path.join(tree['root'], RUN2D, '%04d' % call['p'][0])}
    return {}


MEMS = ['plain', 'readonly', 'strided', 'swapped']
INT_TYPES = ['i1', 'u1', 'i2', 'u2', 'i4', 'u4', 'i8', 'u8']


def fitting(vals, types=INT_TYPES):
    """the integer types that hold every value"""
    lo, hi = min(vals), max(vals)
    return [t for t in types if np.iinfo(t).min <= lo and hi <= np.iinfo(t).max]


def concretise(call, seed):
    """Choose the Python form of the three arguments - container, numeric type (every signed / unsigned integer width
    that holds the values, Python ints, numpy scalars, 0-d arrays) and memory layout of the array ones -
    deterministically in the call and the seed.  Spec: the outcome depends on the values only (MemIndependent)."""
    rng = random.Random(zlib.crc32(('%d|%s' % (seed, json.dumps(call, sort_keys=True))).encode()))
    conv = call['conv']
    allfib = len(call['f']) == 0
    out = {}
    for a in 'pmf':
        if len(call[a]) == 0:
            out[a] = 'omit'
            continue
        types = fitting(call[a])
        if len(call[a]) == 1:
            types = [t for t in types if t != 'u8']      # see ctx.assumptions: a single uint64 value raises (loudly)
        if conv[a] == 's':
            form = rng.choice(['int', 'sc', 'zd'] if (allfib and a == 'p') else ['int', 'sc', 'sc', 'zd', 'zd', 'list', 'ar'])
        else:
            form = rng.choice(['ar'] if (allfib and a == 'p') else ['list', 'tuple', 'ar', 'ar', 'ar', 'ar'])
        out[a] = form if form in ('int', 'list', 'tuple') else form + ':' + rng.choice(types)
    out['mem'] = {a: rng.choice(MEMS) for a in 'pmf'}
    return out


def layout(a, mem):
    """The same values in another memory layout: read-only, non-contiguous view, byte-swapped."""
    if mem == 'readonly':
        a = a.copy()
        a.setflags(write=False)
    elif mem == 'strided':
        if a.ndim == 1:
            big = np.full(2 * a.size + 1, 99, dtype=a.dtype)
            big[::2][:a.size] = a
            a = big[::2][:a.size]
        else:
            big = np.full((2 * a.shape[0], 2 * a.shape[1]), 99, dtype=a.dtype)
            big[::2, ::2] = a
            a = big[::2, ::2]
    elif mem == 'fortran':
        a = np.asfortranarray(a)
    elif mem == 'swapped':
        a = a.astype(a.dtype.newbyteorder())
    return a


def _container(kind, vals, mem='plain'):
    vals = [int(v) for v in vals]
    if kind == 'int':
        return vals[0]
    if kind == 'list':
        return list(vals)
    if kind == 'tuple':
        return tuple(vals)
    form, _, dt = kind.partition(':')
    if form == 'npint':                     # names used by older replay files
        form, dt = 'sc', 'i4'
    elif form == 'zerod':
        form, dt = 'zd', 'i4'
    elif not dt:
        form, dt = 'ar', form
    if form == 'sc':
        return np.dtype(dt).type(vals[0])
    if form == 'zd':
        return layout(np.array(vals[0], dtype=dt), mem if mem in ('readonly', 'swapped') else 'plain')
    return layout(np.array(vals, dtype=dt), mem)


def ints(a, scale=1):
    """abstraction: numeric array -> nested lists of integers, -1 for anything that is not an integer < 2^31"""
    a = np.asarray(a)
    if a.dtype.kind not in 'iuf':
        return None
    x = a.astype('f8') * scale
    with np.errstate(invalid='ignore'):
        xi = np.rint(x)
        bad = ~np.isfinite(x) | (xi != x) | (np.abs(xi) >= 2**31 - 1)
    return np.where(bad, -1, xi).astype('i8').tolist()


def abstract(res, photo):
    if not isinstance(res, dict):
        return {'err': 'returned %s' % type(res).__name__, 'ret': {}}
    ret = {}
    for name in IMAGES + ['loglam']:
        if name not in res:
            return {'err': 'missing key ' + name, 'ret': {}}
        a = np.asarray(res[name])
        v = ints(a, 1024 if name == 'loglam' else 1)
        if a.ndim != 2 or v is None:
            return {'err': '%s is not a 2-d numeric array' % name, 'ret': {}}
        ret[name] = v
    for name in TABLES:
        if name == 'tsobj' and not photo:
            ret[name] = []
            continue
        if name not in res or not isinstance(res[name], dict):
            return {'err': 'missing table ' + name, 'ret': {}}
        ret[name] = {}
        for c, col in res[name].items():
            col = np.asarray(col)
            if col.ndim not in (1, 2):
                return {'err': 'column %s.%s has %d dimensions' % (name, c, col.ndim), 'ret': {}}
            if c in STRING_COLS:       # the spec's value is a string: anything else is reported as a (wrong) string
                v = [x.decode('latin1') if isinstance(x, bytes) else (x if isinstance(x, str) else '?' + repr(x))
                     for x in col.tolist()] if col.ndim == 1 else ['?2-d'] * len(col)
                v = [x.rstrip(' ') for x in v]
            else:
                v = ints(col)
                if v is None:
                    v = [-1] * len(col)
            ret[name][c] = v
    return {'err': '', 'ret': ret}


def run_readspec(tree, call, conc, hook=None):
    from pydl.pydlspec2d import spec1d
    mem = conc.get('mem', {})
    args = [_container(conc['p'], call['p'], mem.get('p', 'plain'))]
    kw = loc_kwargs(tree, call)
    if conc['m'] != 'omit':
        kw['mjd'] = _container(conc['m'], call['m'], mem.get('m', 'plain'))
    if conc['f'] != 'omit':
        kw['fiber'] = _container(conc['f'], call['f'], mem.get('f', 'plain'))
    orig = spec1d.spec_append
    with loc_env(tree, call['loc']):
        try:
            if hook is not None:
                def wrapped(s1, s2, pixshift=0):
                    r = orig(s1, s2, pixshift=pixshift)
                    hook(s1, s2, pixshift, r)
                    return r
                spec1d.spec_append = wrapped
            res = spec1d.readspec(*args, **kw)
        except Exception as ex:
            return {'err': '%s: %s' % (type(ex).__name__, str(ex)[:160]), 'ret': {}}
        finally:
            spec1d.spec_append = orig
    return abstract(res, tree['photo'])


def classify(call, tree, obs_err):
    """Name the known deviation (spec: Dev_* in ReadSpec.tla) that applies to this call, if any."""
    if call['loc'] == 'topdir':
        return 'D-C16-1'
    if call['loc'] == 'run1d' and len(call['m']) == 0 and obs_err.startswith('TypeError'):
        return 'D-C16-2'
    if len(call['f']) == 0 and obs_err.startswith('ValueError'):
        latest = {}
        for m in tree['meta']:
            latest[m['plate']] = max(latest.get(m['plate'], 0), m['mjd'])
        if any(latest[p] >= 55025 for p in call['p']):
            return 'D-C16-3'
    if call['loc'] == 'bare' and not tree['photo'] and obs_err.startswith('KeyError'):
        return 'D-C16-4'
    return None


def classify_append(s1, s2, dtype):
    """D-C16-5 (spec: Dev_AppendKeepsFirstType): the result is allocated with the first block's type, so values of the
    second block that this type cannot hold are wrapped / rounded."""
    if dtype[0] != dtype[1] and not holds(s2, dtype[0]):
        return 'D-C16-5'
    return None


def _decode(v):
    return 'file %d fibre %d hdu %d x %d' % (v // 1000000, v // 1000 % 1000, v // 100 % 10, v % 100) if v > 0 else str(v)


def compare(exp, obs):
    """exp: TLC's dictionary (plain); obs: abstracted result.  Returns '' or a description of the first difference."""
    if obs['err']:
        return 'raised ' + obs['err']
    got = obs['ret']
    for name in IMAGES + TABLES:
        if got[name] != exp[name]:
            e, g = exp[name], got[name]
            if isinstance(e, dict) and isinstance(g, dict):
                for c in e:
                    if g.get(c) != e[c]:
                        return '%s.%s expected %s got %s' % (name, c, str(e[c])[:80], str(g.get(c))[:80])
                return '%s has columns %s expected %s' % (name, sorted(g), sorted(e))
            if isinstance(e, list) and isinstance(g, list) and len(e) == len(g):
                for i, (er, gr) in enumerate(zip(e, g)):
                    if er != gr:
                        if len(er) != len(gr):
                            return '%s row %d has %d pixels, expected %d' % (name, i, len(gr), len(er))
                        q = [k for k in range(len(er)) if er[k] != gr[k]][0]
                        return '%s[%d][%d] expected %s got %s' % (name, i, q, _decode(er[q]), _decode(gr[q]))
            return '%s differs (shape): expected %d rows got %s' % (name, len(e), len(g) if isinstance(g, list) else g)
    if got['loglam'] != exp['loglam'] and got['loglam'] != exp['loglam_ext']:
        return 'loglam (units 2^-10) expected %s got %s' % (str(exp['loglam'])[:120], str(got['loglam'])[:120])
    return ''


APP_MEMS = ['plain', 'readonly', 'strided', 'fortran', 'swapped']


NUM_TYPES = INT_TYPES + ['f4', 'f8']


def holds(vals, t):
    a = np.array(vals)
    if t[0] == 'f':
        return np.array_equal(a.astype(t).astype('f8'), a.astype('f8'))
    return np.iinfo(t).min <= a.min() and a.max() <= np.iinfo(t).max


def append_forms(rng, s1, s2, shift):
    """numeric type of each block (any that holds its values) and the form of pixshift"""
    t1 = rng.choice([t for t in NUM_TYPES if holds(s1, t)])
    t2 = rng.choice([t for t in NUM_TYPES if holds(s2, t)])
    ps = rng.choice(['int', 'omit' if shift == 0 else 'int', 'sc:i8', 'sc:i2', 'sc:i1', 'zd:i4'] +
                    (['sc:u1', 'sc:u2', 'sc:u8', 'zd:u4'] if shift >= 0 else []))
    return [t1, t2], ps


def run_append(s1, s2, shift, dtype, ps='int', mem=('plain', 'plain')):
    from pydl.pydlspec2d.spec1d import spec_append
    if isinstance(dtype, str):
        dtype = [dtype, dtype]
    if ps is True or ps is False:            # older replay files: omit_kw flag
        ps = 'omit' if (ps and shift == 0) else 'int'
    a, b = layout(np.array(s1, dtype=dtype[0]), mem[0]), layout(np.array(s2, dtype=dtype[1]), mem[1])
    keep = (a.copy(), b.copy())
    try:
        r = spec_append(a, b) if ps == 'omit' else spec_append(a, b, pixshift=_container(ps, [shift]))
    except Exception as ex:
        return {'err': '%s: %s' % (type(ex).__name__, str(ex)[:160]), 'ret': []}
    v = ints(r)
    if v is None or np.asarray(r).ndim != 2:
        return {'err': 'result is not a 2-d numeric array', 'ret': []}
    if not (np.array_equal(a, keep[0]) and np.array_equal(b, keep[1])):
        return {'err': 'an input block was modified', 'ret': v}
    return {'err': '', 'ret': v}


# --------------------------------------------------------------------------- pool workers
def _mc_case(item):
    k, text = item
    st = parse_state(text)
    call = plain(st['call'])
    exp = plain(st['ret'])
    if st['pc'] == 'appended':
        bad = []
        rng = random.Random(zlib.crc32(('%d|%s' % (_W['seed'], json.dumps(call, sort_keys=True))).encode()))
        for _ in range(3):
            mem = (rng.choice(APP_MEMS), rng.choice(APP_MEMS))
            dtype, ps = append_forms(rng, call['s1'], call['s2'], call['shift'])
            obs = run_append(call['s1'], call['s2'], call['shift'], dtype, ps, mem)
            if obs['err'] or obs['ret'] != exp:
                bad.append(('%s+%s pixshift as %s layouts %s/%s' % (dtype[0], dtype[1], ps, mem[0], mem[1]), obs, mem, dtype, ps))
        out = {'k': k, 'kind': 'append-mc', 'ok': not bad, 'ncalls': 3, 'call': call,
               'nontriv': (len(call['s1'][0]) != len(call['s2'][0]) or call['shift'] != 0)}
        if bad:
            out.update(what='spec_append(%s, %s, pixshift=%d) dtype %s: expected %s observed %s' % (
                call['s1'], call['s2'], call['shift'], bad[0][0], exp, bad[0][1]), expected=exp, observed=bad[0][1],
                dtype=bad[0][3], ps=bad[0][4], mem=list(bad[0][2]), finding=classify_append(call['s1'], call['s2'], bad[0][3]))
        return out
    tree = _W['tree4']
    conc = concretise(call, _W['seed'])
    obs = run_readspec(tree, call, conc)
    why = compare(exp, obs)
    out = {'k': k, 'kind': 'readspec-mc', 'ok': why == '', 'ncalls': 1, 'call': call, 'concrete': conc,
           'nontriv': len(st['keys']) >= 2, 'nreq': len(st['req'])}
    if why:
        out.update(what='readspec(p=%s, m=%s, f=%s, loc=%s; %s): %s' % (call['p'][:6], call['m'][:6], call['f'][:6],
                                                                         call['loc'], conc, why),
                   expected=exp if len(st['req']) <= 40 else 'omitted (%d rows)' % len(st['req']),
                   observed=obs if len(st['req']) <= 40 else {'err': obs['err']},
                   finding=classify(call, tree, obs['err']))
    return out


def _recorded_case(item):
    k, call = item
    tree = _W['tree6']
    conc = concretise(call, _W['seed'])
    inner = []
    seen = [0]
    target = k % 7          # which of the seven appends per file (flux ... sky, loglam) is recorded

    def hook(s1, s2, shift, r):
        seen[0] += 1
        if (seen[0] - 1) % 7 == target and len(inner) < 2 and np.asarray(r).size <= 400:
            scale = 1024 if (seen[0] - 1) % 7 == 6 else 1     # the seventh append per file is loglam (units 2^-10)
            v = [ints(s1, scale), ints(s2, scale), ints(r, scale)]
            if None not in v and np.asarray(s1).ndim == 2 and np.asarray(s2).ndim == 2 and np.asarray(r).ndim == 2:
                inner.append({'kind': 'append', 's1': v[0], 's2': v[1], 'shift': int(shift), 'obs': {'err': '', 'ret': v[2]}})
    obs = run_readspec(tree, call, conc, hook=hook)
    return k, conc, {'kind': 'readspec', 'call': {'p': call['p'], 'm': call['m'], 'f': call['f']}, 'obs': obs}, inner


def _pool_map(fn, items, chunksize=8):
    n = max(2, min(core.NCPU, 16))
    ctxmp = multiprocessing.get_context('fork')
    with ctxmp.Pool(n) as pool:
        for r in pool.imap_unordered(fn, items, chunksize=chunksize):
            yield r


def validate_parallel(ctx, records, chunk=90, jobs=4):
    """core.validate_records with the chunks judged by several TLC processes at a time (Init of a Trace module is
    enumerated by one thread, so one TLC per chunk and a few chunks side by side).  Same contract: {index: why}."""
    from concurrent.futures import ThreadPoolExecutor

    def one(base):
        part = records[base:base + chunk]
        path = core.write_json(os.path.join(ctx.scratch, 'trace_rs_%d.json' % base), part)
        r = ctx.tlc('Trace_ReadSpec.tla', 'Trace_ReadSpec.cfg', dump=True, env={'VERIF_TRACE': path}, count=False,
                    workers=2, label='Trace_ReadSpec[%d:%d]' % (base, base + len(part)))
        bad, seen = {}, 0
        for st in core.iter_states(r):
            seen += 1
            if not st['ok']:
                bad[base + st['i'] - 1] = st.get('why', '')
        if seen != len(part):
            raise core.MachineryError('Trace_ReadSpec judged %d of %d records' % (seen, len(part)))
        os.remove(path)
        return bad
    out = {}
    with ThreadPoolExecutor(jobs) as ex:
        for bad in ex.map(one, range(0, len(records), chunk)):
            out.update(bad)
    return out


# --------------------------------------------------------------------------- random calls for the recorded direction
def gen_call(rng, meta):
    by_plate = {}
    for m in meta:
        by_plate.setdefault(m['plate'], []).append(m)
    latest = {p: max(v, key=lambda x: x['mjd']) for p, v in by_plate.items()}
    cp, cm, cf = rng.choice(CONVS)
    n = 1 if (cp == 's' and cf == 's') else rng.choice([1, 2, 3, 4, 5, 6, 8, 9, 10, 11, 12, 16, 17, 18, 20, 23, 27, 30, 34, 37, 40])
    if cp == 's':
        plate = rng.choice(sorted(by_plate))
        f = latest[plate] if cm == 'o' else rng.choice(by_plate[plate])
        rows = [f] * n
    else:
        pool = [latest[p] for p in sorted(latest)] if cm == 'o' else list(meta)
        style = rng.choice(['any', 'any', 'few', 'descending', 'interleave'])
        if style == 'few':
            pool = rng.sample(pool, min(len(pool), rng.choice([2, 3])))
        rows = [rng.choice(pool) for _ in range(n)]
        if style == 'descending':
            rows.sort(key=lambda x: (-x['plate'], -x['mjd']))
        elif style == 'interleave' and n >= 4:
            a, b = rng.sample(pool, 2) if len(pool) >= 2 else (pool[0], pool[0])
            rows = [a if i % 2 == 0 else b for i in range(n)]
    if cf == 's':
        fib = [rng.randint(1, min(r['nfib'] for r in rows))] * n
    else:
        style = rng.choice(['any', 'any', 'last', 'same', 'descending', 'block', 'block'])
        fib = [rng.randint(1, r['nfib']) for r in rows]
        if style == 'last':
            fib = [r['nfib'] if rng.random() < 0.5 else x for r, x in zip(rows, fib)]
        elif style == 'same':
            fib = [min(fib)] * n
        elif style == 'descending':
            fib = sorted(fib, reverse=True)
            fib = [min(x, r['nfib']) for r, x in zip(rows, fib)]
        elif style == 'block':
            # the requests on each file ask for a contiguous block of its fibres, in one of the orders of the "runs"
            # family of MC_ReadSpec (a file asked for more rows than it has fibres keeps its random fibres)
            where = {}
            for i, r in enumerate(rows):
                where.setdefault((r['plate'], r['mjd']), []).append(i)
            for pos in where.values():
                k, nf = len(pos), rows[pos[0]]['nfib']
                if k > nf:
                    continue
                a = rng.randint(1, nf - k + 1)
                blk = list(range(a, a + k))
                shape = rng.choice(['asc', 'desc', 'shuffle', 'rot', 'swap', 'dup', 'ends', 'ends'])
                if shape == 'desc':
                    blk.reverse()
                elif shape == 'shuffle':
                    rng.shuffle(blk)
                elif shape == 'rot':
                    c = rng.randrange(k)
                    blk = blk[c:] + blk[:c]
                elif shape == 'swap' and k >= 2:
                    c = rng.randrange(k - 1)
                    blk[c], blk[c + 1] = blk[c + 1], blk[c]
                elif shape == 'dup' and k >= 3:
                    c = rng.randrange(1, k - 1)
                    blk[c] = blk[c - 1]
                elif shape == 'ends' and k >= 4:
                    mid = blk[1:-1]
                    rng.shuffle(mid)
                    blk[1:-1] = mid
                for i, x in zip(pos, blk):
                    fib[i] = x
    loc = 'env' if rng.random() < 0.6 else rng.choice(['topdir', 'run2d', 'run1d', 'path', 'bare'])
    if loc == 'path' and len({r['plate'] for r in rows}) > 1:
        loc = 'env'
    return {'kind': 'readspec', 'conv': {'p': cp, 'm': cm, 'f': cf}, 'loc': loc,
            'p': [rows[0]['plate']] if cp == 's' else [r['plate'] for r in rows],
            'm': [] if cm == 'o' else ([rows[0]['mjd']] if cm == 's' else [r['mjd'] for r in rows]),
            'f': [fib[0]] if cf == 's' else fib}


def gen_append(rng):
    r1, r2 = rng.randint(1, 4), rng.randint(1, 4)
    p1, p2 = rng.randint(1, 6), rng.randint(1, 6)
    shift = rng.choice([0, 0, 0] + list(range(-8, 9)))
    pools = [[0, 0, 1, 2, 3, 5, 100, 255], [0, 1, -1, -7, 100, 127, -128], [0, 3, 300, 32000, -32768, 65535],
             [0, 2, 70000, -70000, 2**31 - 2], [0, 16777217, 16777219, 5, -16777217]]

    def block(r, p):
        pool = rng.choice(pools)
        return [[rng.choice(pool) for _ in range(p)] for _ in range(r)]
    s1, s2 = block(r1, p1), block(r2, p2)
    mem = (rng.choice(APP_MEMS), rng.choice(APP_MEMS))
    dtype, ps = append_forms(rng, s1, s2, shift)
    return {'kind': 'append', 's1': s1, 's2': s2, 'shift': shift,
            'obs': run_append(s1, s2, shift, dtype, ps, mem), 'dtype': dtype, 'ps': ps, 'mem': list(mem)}


# --------------------------------------------------------------------------- the check
def _quiet():
    try:
        from astropy import log
        log.setLevel('ERROR')
    except Exception:
        pass


def run(ctx):
    ctx.level = 'model_checking'
    ctx.rule = ('states = all states of MC_ReadSpec (request vectors built element by element, each carried through '
                'Normalise/Group/ReadFile/Append/Reorder/Return, plus file, location, all-fibre and spec_append families); '
                'impl cases = every pc="done"/"appended" state executed by the real readspec / spec_append on real FITS files '
                'plus every recorded call judged by Trace_ReadSpec; non-trivial = distinct calls whose requests span >= 2 '
                'plate-MJD files (readspec) or differ in width / are shifted (spec_append)')
    ctx.assumptions = [
        'synthetic survey tree: every cell encodes (file, fibre, hdu, pixel) as an integer < 2^24, so 0 is only ever padding',
        'wavelength coefficients are multiples of 2^-10, so COEFF0 + COEFF1*pixel is exact in binary floating point',
        'beyond a shorter plate\'s last pixel loglam may be 0 or the affine continuation (statement leaves it open)',
        'SPECTRO_MATCH / PHOTO_RESOLVE are set to non-existent directories except in the "bare" location mode',
        'fibre omitted is exercised only for scalar plates and ascending distinct plate arrays with the MJD omitted '
        '(request order is otherwise not defined); align= and znum= are outside the statement',
        'table columns of the same name differ in FITS format from file to file (string width = longest value on the file, '
        'int16/int32, float32/float64 as the file\'s values need); returned table values are compared after promotion, as values',
        'array arguments are handed over plain / read-only / strided (Fortran-ordered for 2-d) / byte-swapped and scalars also as 0-d arrays, '
        'rotated by seed; the specified outcome depends on the values only (MemIndependent)',
        'numeric type is a dimension of every case: plate / MJD / fibre go in as Python ints, numpy scalars, 0-d and n-d arrays of '
        'every signed / unsigned width that holds the values (rotated by seed); spec_append blocks get independent types '
        '(int8..uint64, float32/64: any that holds the block\'s values), pixshift goes in as Python int, signed / unsigned numpy '
        'scalar or 0-d array; image HDUs are float32 or float64 / int32 or unsigned-32 (BZERO) per file as the values need; '
        'results are compared as VALUES after promotion (result dtype itself is not asserted)',
        'NOT exercised: a single uint64 value for plate or fibre (scalar, 0-d or length-1): int32 + uint64 promotes to float64 and '
        'readspec raises IndexError / ValueError - a loud failure, reported, not a silent wrong value; integer BITPIX images '
        'with BSCALE/BZERO scaling other than the unsigned convention (astropy hands readspec float32 physical values)',
        'request vectors are exhaustive up to length 3 (quick) / 4 (thorough) over 4 files x 3 fibres; longer vectors '
        'of 17..40 elements with repeats come from the scrambled "long" family of MC_ReadSpec (both tiers) and from the recorded direction (<= 40, 9 files, all fibres)',
        'the "runs" family of MC_ReadSpec asks for contiguous blocks of 2..24 (thorough ..40) fibres of one file in ascending, descending, '
        'rotated, neighbour-swapped, end-points-fixed and one-fibre-repeated order, alone and interleaved with another file; the recorded '
        'direction draws such blocks at random per file',
        'wavelength solution vs pixel count is a dimension of both trees (SolutionRelationsCovered): files that follow one another in '
        '(plate, MJD) order share COEFF0/COEFF1 with a larger / smaller pixel count, or share the pixel count with another solution',
    ]
    _quiet()
    # the big TLC run works in the background while the recorded direction (which does not need it) is carried out
    from concurrent.futures import ThreadPoolExecutor
    bg = ThreadPoolExecutor(1)
    fut = bg.submit(ctx.tlc, 'MC_ReadSpec.tla', 'MC_ReadSpec_quick.cfg' if ctx.quick else 'MC_ReadSpec_thorough.cfg',
                    dump=True, timeout=1500)
    try:
        tree4 = build_tree(ctx, 'MC_ReadSpec_tree4.cfg', 'tree4')
        _W.update(tree4=tree4, seed=ctx.seed)
        recorded_direction(ctx)
        r = fut.result()
    finally:
        bg.shutdown(wait=True)
    mc_direction(ctx, r)
    ctx.exhaustive = not ctx.quick


def mc_direction(ctx, r):
    """spec -> code: every final state of the TLC run executed by the real code."""
    items = list(enumerate(scan_dump(r['dump'], {'done', 'appended'})))
    os.remove(r['dump'])
    items = [(k, text) for k, (_, text) in items]
    if len(items) < 100:
        raise core.MachineryError('only %d cases in the dump' % len(items))
    ntlc = len(items)
    if ctx.quick:
        # quick: every location / all-fibre / spec_append case and every request vector of length <= 2, plus a seeded
        # sample of the length-3 vectors located through the environment (thorough replays all)
        srng = random.Random(ctx.seed)
        # (the "runs" family - blocks of fibres of one file in every order - is replayed in full)
        big = [it for it in items if 'loc |-> "env"' in it[1] and 'f |-> <<>>' not in it[1] and 'fam |-> "runs"' not in it[1]
               and 3 <= it[1].count('plate |->') < 17]
        keep = set(k for k, _ in srng.sample(big, min(len(big), 600)))
        bigk = set(k for k, _ in big)
        items = [it for it in items if it[0] not in bigk or it[0] in keep]
    ctx.sample({'tlc_cases_total': ntlc, 'tlc_cases_replayed': len(items)})
    nviol = 0
    for out in _pool_map(_mc_case, items):
        ctx.evaluated(out['ncalls'], out['kind'] if out['kind'] == 'append-mc' else
                      'readspec-' + (out['call'].get('fam') or out['call']['loc']))
        ctx.validated(out['ncalls'])
        if out['nontriv']:
            ctx.nontriv(json.dumps(out['call'], sort_keys=True))
        if out['k'] % 997 == 0:
            ctx.sample({'call': out['call'], 'concrete': out.get('concrete'), 'ok': out['ok']})
        if not out['ok']:
            nviol += 1
            case = {'what': out['what'], 'kind': out['kind'], 'call': out['call'], 'concrete': out.get('concrete'),
                    'dtype': out.get('dtype'), 'ps': out.get('ps'), 'mem': out.get('mem'), 'expected': out['expected'], 'observed': out['observed']}
            ctx.violation(case, finding=out.get('finding'))
    del items


def recorded_direction(ctx):
    """code -> spec: recorded calls judged by the specification."""
    tree6 = build_tree(ctx, 'MC_ReadSpec_tree6.cfg', 'tree6')
    _W.update(tree6=tree6)
    rng = random.Random(ctx.seed)
    ncalls = 90 if ctx.quick else 1500
    calls = [gen_call(rng, tree6['meta']) for _ in range(ncalls)]
    results = sorted(_pool_map(_recorded_case, list(enumerate(calls)), chunksize=4), key=lambda x: x[0])
    recs, origin = [], []
    for k, conc, rec, inner in results:
        recs.append(rec)
        origin.append({'kind': 'recorded', 'call': calls[k], 'concrete': conc})
        if len({(a, b) for a, b in zip(calls[k]['p'], calls[k]['m'] or calls[k]['p'])}) >= 2:
            ctx.nontriv(json.dumps(calls[k], sort_keys=True))
        for a in inner[:1]:
            recs.append(a)
            origin.append({'kind': 'recorded-inner-append', 'from_call': calls[k]})
    for _ in range(250 if ctx.quick else 3000):
        a = gen_append(rng)
        origin.append({'kind': 'recorded-append', 'dtype': a.pop('dtype'), 'ps': a.pop('ps'), 'mem': a.pop('mem')})
        recs.append(a)
    bad = validate_parallel(ctx, recs)
    ctx.evaluated(len(recs), 'recorded')
    ctx.validated(len(recs))
    for k in sorted(bad):
        why = bad[k]
        if why.startswith('harness'):
            raise core.MachineryError('Trace_ReadSpec: %s for record %s' % (why, json.dumps(recs[k])[:400]))
        o, rec = origin[k], recs[k]
        finding = classify(o['call'], tree6, rec['obs']['err']) if o['kind'] == 'recorded' else (
            classify_append(rec['s1'], rec['s2'], o['dtype']) if o['kind'] == 'recorded-append' else None)
        brief = ('readspec(p=%s, m=%s, f=%s, loc=%s; %s)' % (o['call']['p'][:6], o['call']['m'][:6], o['call']['f'][:6],
                                                              o['call']['loc'], o['concrete'])
                 if o['kind'] == 'recorded' else 'spec_append(%s, %s, pixshift=%s)' % (rec['s1'], rec['s2'], rec['shift']))
        ctx.violation({'what': 'recorded %s rejected by Trace_ReadSpec: %s %s' % (brief, why, rec['obs']['err']),
                       'kind': o['kind'], 'origin': o, 'record': rec if len(json.dumps(rec)) < 60000 else 'omitted', 'why': why},
                      finding=finding)
    ctx.sample({'recorded_call': origin[0], 'verdict': bad.get(0, 'accepted')})
    selftest(ctx, [recs[k] for k in range(len(recs)) if k not in bad], rng)


def selftest(ctx, accepted, rng):
    """Binding self-test: accepted records with ONE observed field falsified must all be rejected by Trace_ReadSpec."""
    import copy
    reads = [r for r in accepted if r['kind'] == 'readspec' and 2 <= len(r['obs']['ret']['flux']) <= 24]
    apps = [r for r in accepted if r['kind'] == 'append']
    fals, kinds = [], {}
    for k, r in enumerate(rng.sample(reads, min(len(reads), 60)) + rng.sample(apps, min(len(apps), 90))):
        r2 = copy.deepcopy(r)
        d = r2['obs']['ret']
        if r['kind'] == 'append':
            m = ['cell', 'swaprows', 'shape'][k % 3]
            if m == 'cell':
                i, q = rng.randrange(len(d)), rng.randrange(len(d[0]))
                d[i][q] += 1
            elif m == 'swaprows':
                if d[0] == d[-1]:
                    d[0][0] += 1
                else:
                    d[0], d[-1] = d[-1], d[0]
            else:
                for row in d:
                    row.append(0)
        else:
            n, w = len(d['flux']), len(d['flux'][0])
            m = ['image-cell', 'pad-cell', 'swap-image-rows', 'swap-table-rows', 'table-number', 'table-string',
                 'loglam', 'drop-row'][k % 8]
            img = rng.choice(IMAGES)
            i = rng.randrange(n)
            own = [q for q in range(w) if d['flux'][i][q] != 0]
            pad = [(a, q) for a in range(n) for q in range(w) if d['flux'][a][q] == 0]
            if m == 'pad-cell' and not pad:
                m = 'image-cell'
            if m == 'image-cell':                  # one pixel of one image is the neighbouring pixel's value (a shift)
                q = rng.choice(own)
                d[img][i][q] = d[img][i][q - 1] if q > 0 else d[img][i][q] + 1
            elif m == 'pad-cell':
                a, q = rng.choice(pad)
                d[img][a][q] = 7
            elif m in ('swap-image-rows', 'swap-table-rows'):
                a, b = 0, n - 1
                tgt = d[img]
                if m == 'swap-table-rows':
                    t = rng.choice(['plugmap', 'zans'])
                    c = rng.choice(sorted(d[t]))
                    tgt = d[t][c]
                if tgt[a] == tgt[b]:
                    m = 'table-number'
                else:
                    tgt[a], tgt[b] = tgt[b], tgt[a]
            if m == 'table-number':
                t = rng.choice(['plugmap', 'zans'])
                c = rng.choice([c for c in sorted(d[t]) if isinstance(d[t][c][i], int)])
                d[t][c][i] += 1
            elif m == 'table-string':
                t, c = rng.choice([('plugmap', 'OBJTYPE'), ('zans', 'CLASS'), ('zans', 'SUBCLASS')])
                d[t][c][i] = d[t][c][i][:-1]
            elif m == 'loglam':
                d['loglam'][i][own[0]] += 1
            elif m == 'drop-row':
                d[img].pop()
        kinds[r['kind'] + ':' + m] = kinds.get(r['kind'] + ':' + m, 0) + 1
        fals.append(r2)
    core.binding_selftest(ctx, 'Trace_ReadSpec', fals, 'recorded_calls')
    ctx.cov['parts']['selftest_recorded_calls']['falsifications'] = kinds


def replay(ctx, case):
    """bin/check C16 --replay <file>: re-execute the single failing call of a replay file."""
    ctx.level = 'model_checking'
    ctx.rule = 'single replayed case'
    _quiet()
    ctx.nontriv('a'); ctx.nontriv('b')
    kind = case.get('kind')
    if kind == 'append-mc':
        c = case['call']
        obs = run_append(c['s1'], c['s2'], c['shift'], case.get('dtype') or 'f4', case.get('ps') or 'int', tuple(case.get('mem') or ('plain', 'plain')))
        print('replayed spec_append', c, '\nobserved:', obs, '\nexpected:', case['expected'])
        ctx.evaluated(1)
        if obs['err'] or obs['ret'] != case['expected']:
            ctx.violation(case)
        return
    if kind == 'readspec-mc':
        tree = build_tree(ctx, 'MC_ReadSpec_tree4.cfg', 'tree4')
        obs = run_readspec(tree, case['call'], case['concrete'])
        ctx.evaluated(1)
        exp = case['expected']
        if not isinstance(exp, dict):       # all-fibre expectation too large to store: ask TLC again
            r = ctx.tlc('MC_ReadSpec.tla', 'MC_ReadSpec_allfib.cfg', dump=True, count=False)
            for _, text in scan_dump(r['dump'], {'done'}):
                st = parse_state(text)
                if plain(st['call']) == case['call']:
                    exp = plain(st['ret'])
            if not isinstance(exp, dict):
                raise core.MachineryError('call of the replay file is not generated by MC_ReadSpec_allfib.cfg')
        why = compare(exp, obs)
        print('replayed readspec', case['call'], case['concrete'], '\nverdict:', why or 'as specified')
        if why:
            ctx.violation(case)
        return
    if kind in ('recorded', 'recorded-inner-append', 'recorded-append'):
        if kind == 'recorded':
            tree = build_tree(ctx, 'MC_ReadSpec_tree6.cfg', 'tree6')
            o = case['origin']
            obs = run_readspec(tree, o['call'], o['concrete'])
            rec = {'kind': 'readspec', 'call': {a: o['call'][a] for a in 'pmf'}, 'obs': obs}
        else:
            rec = case['record']
            if kind == 'recorded-append':
                rec = dict(rec, obs=run_append(rec['s1'], rec['s2'], rec['shift'], case['origin'].get('dtype', 'f4'), case['origin'].get('ps', 'int'),
                                           tuple(case['origin'].get('mem') or ('plain', 'plain'))))
        bad = core.validate_records(ctx, 'Trace_ReadSpec', [rec])
        ctx.evaluated(1)
        print('replayed recorded call; TLC verdict:', bad.get(0, 'accepted'))
        if bad:
            ctx.violation(case)
        return
    raise core.MachineryError('unknown replay case kind %r' % kind)
