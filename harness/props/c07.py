"""C07 - maskbits names <-> values.  Spec: spec/Maskbits.tla; MC: mc/MC_Maskbits (modes "laws" and "machine");
Trace: trace/Trace_Maskbits (a genuine trace spec reusing the machine's actions).

spec -> code: every TLC state is a behaviour prefix (hist = sequence of [call, ret]); each is executed on the real
              set_maskbits / sdss_flagval / sdss_flagname / sdss_flagexist through a real .par file and the outcome
              of every step plus the final module cache are compared with the values TLC computed.
code -> spec: seeded random files (up to 8 groups x 64 labels, aliases) and random call histories
              (load A, queries, load B, queries, ...) are recorded from the real code and validated event by event
              by TLC against the same actions.
Python only renders files, picks arguments and abstracts results (uint64 -> bit positions, dict -> triples).
"""
import os
import random
import re

import numpy as np

from .. import core, tlaval

M64 = 2**64 - 1


# ---------------------------------------------------------------------------------------------
# abstraction / concretisation
def nm(t):
    return ''.join(t)


def chars(s):
    return list(s)


def bits_to_int(bits):
    v = 0
    for b in bits:
        v |= 1 << b
    return v


def int_to_bits(v):
    return [b for b in range(64) if (v >> b) & 1]


def plain_file(f):
    return {'rows': [[nm(r[0]), nm(r[1]), r[2]] for r in f['rows']],
            'alias': [[nm(a[0]), nm(a[1])] for a in f['alias']], 'afirst': bool(f['afirst'])}


def plain_call(c):
    return {'op': c['op'], 'file': plain_file(c['file']), 'g': nm(c['g']), 'ls': [nm(x) for x in c['ls']],
            'v': sorted(c['v']), 'fe': bool(c['fe']), 'we': bool(c['we']), 'form': c['form']}


def plain_ret(r):
    return {'err': bool(r['err']), 'val': sorted(r['val']), 'names': [nm(x) for x in r['names']], 'l': bool(r['l']),
            'f': [bool(x) for x in r['f']], 'which': [bool(x) for x in r['which']]}


def plain_cache(c):
    if not c['loaded']:
        return None
    return sorted([nm(t[0]), nm(t[1]), t[2]] for t in c['m'])


NORET = {'err': False, 'val': [], 'names': [], 'l': False, 'f': [], 'which': []}

DESCRIPTIONS = ['', 'x', 'High-redshift (griz) QSO target', 'mu50>23 in r-band; bright, moderately blue, or both',
                "FIRST source, stellar colors", 'Set in primtarget if this is a special program target',
                '2MASS J<11: e.g. 1/2 of them [sic]']


def render(f, style=0):
    """Spec file -> text of a real parameter file.  `style` only varies things without meaning
    (keyword case, comments, spacing, an unrelated MASKTYPE table, description texts)."""
    up = style % 2 == 0
    kw = (lambda s: s.upper()) if up else (lambda s: s.lower())
    sp = (' ', '  ', '\t', ' \t ')[style % 4]       # column separators: blanks and tabs (the format allows both)
    s1 = '\t' if style % 4 == 2 else ' '
    out = ['#', '# maskbits file rendered by the C07 harness', '#']
    if style % 3 == 1:
        out += ['idlutils_version v5_5_33', '']
    out += ['typedef struct {', '    char flag[20]; # Flag name', '    short bit; # Bit number, 0-indexed',
            '    char label[30]; # Bit label', '    char description[100]; # text description', '} %s;' % kw('MASKBITS'), '']
    if style % 4 < 2:
        out += ['typedef struct {', '    char flag[20]; # Flag name', '    short datatype; # Data type {8, 16, 32, 64}',
                '    char description[100]; # text description', '} %s;' % kw('MASKTYPE'), '']
    if f['alias'] or style % 5 < 3:
        out += ['typedef struct {', '    char flag[20]; # Flag (real) name', '    char alias[20]; # Alias',
                '    char description[100]; # text description', '} %s;' % kw('MASKALIAS'), '']
    out += ['#', '#' + '-' * 78]
    rows = []
    seen = set()
    for k, (g, l, b) in enumerate(f['rows']):
        if style % 4 < 2 and g not in seen:
            seen.add(g)
            rows.append('%s %s 64 "%s"' % (kw('masktype') if k % 2 else 'masktype', g, DESCRIPTIONS[(k + 2) % 7] or 'type'))
        pre = 'maskbits' if (k + style) % 3 else 'MASKBITS'
        rows.append('%s%s%s%s%2d%s%s%s"%s"' % (pre, s1, g, sp, b, s1, l, sp, DESCRIPTIONS[(k + style) % 7]))
        if style % 3 == 2 and k % 4 == 3:
            rows.append('')
    al = ['%s%s%s%s%s%s"%s is a synonym for %s."' % ('maskalias' if (k + style) % 2 else 'MASKALIAS', s1, g, sp, a, s1, a, g)
          for k, (a, g) in enumerate(f['alias'])]
    out += (al + [''] + rows) if f['afirst'] else (rows + [''] + al)
    out += ['#', '']
    return '\n'.join(out)


def file_key(f):
    return (tuple(tuple(r) for r in f['rows']), tuple(tuple(a) for a in f['alias']), f['afirst'])


def style_of(f):
    return (len(f['rows']) * 7 + sum(r[2] for r in f['rows']) + 3 * len(f['alias'])) % 60


class Real:
    """The real code: module cache + the four functions."""

    def __init__(self, ctx):
        import pydl.pydlutils.sdss as sdss
        self.sdss = sdss
        self.dir = os.path.join(ctx.scratch, 'par')
        os.makedirs(self.dir, exist_ok=True)
        self.n = 0
        self.memo = {}

    def load(self, f, memo=False):
        """Load(f): render, write, set_maskbits(maskbits_file=...) into the module-level cache."""
        key = file_key(f)
        if memo and key in self.memo:
            self.sdss.maskbits = self.memo[key]
            return dict(NORET, exc=None)
        self.n += 1
        path = os.path.join(self.dir, 'maskbits_%d.par' % (self.n % 64))
        with open(path, 'w') as fh:
            fh.write(render(f, style_of(f)))
        try:
            self.sdss.maskbits = self.sdss.set_maskbits(maskbits_file=path)
        except Exception as ex:
            return dict(NORET, exc='%s: %s' % (type(ex).__name__, str(ex)[:120]))
        if memo:
            self.memo[key] = self.sdss.maskbits
        return dict(NORET, exc=None)

    def cache(self):
        m = self.sdss.maskbits
        if m is None:
            return None
        out = []
        for g, d in m.items():
            for l, b in d.items():
                out.append([str(g), str(l), int(b) if isinstance(b, (int, np.integer)) else repr(b)])
        return sorted(out, key=repr)

    def call(self, c, memo=False):
        op = c['op']
        if op == 'load':
            return self.load(c['file'], memo)
        try:
            if op == 'flagval':
                arg = c['ls'][0] if c['form'] == 'str' else (tuple(c['ls']) if c['form'] == 'tuple' else list(c['ls']))
                r = self.sdss.sdss_flagval(c['g'], arg)
                if isinstance(r, bool) or not isinstance(r, (int, np.integer)):
                    return dict(NORET, exc='flagval returned %r' % type(r))
                if not (0 <= int(r) <= M64):
                    return dict(NORET, val=int_to_bits(int(r) & M64), exc='flagval returned %r' % (r,))
                return dict(NORET, val=int_to_bits(int(r)), exc=None)
            if op == 'flagname':
                v = bits_to_int(c['v'])
                if c['form'] == 'uint64':
                    v = np.uint64(v)
                elif c['form'] == 'int64':
                    v = np.int64(v - 2**64 if v >= 2**63 else v)      # the same 64 bits, signed
                r = self.sdss.sdss_flagname(c['g'], v)
                if not isinstance(r, list) or not all(isinstance(x, str) for x in r):
                    return dict(NORET, exc='flagname returned %r' % (r,))
                return dict(NORET, names=[str(x) for x in r], exc=None)
            if op == 'flagexist':
                arg = c['ls'][0] if c['form'] == 'str' else list(c['ls'])
                r = self.sdss.sdss_flagexist(c['g'], arg, flagexist=c['fe'], whichexist=c['we'])
                want = 1 + int(c['fe']) + int(c['we'])
                parts = list(r) if isinstance(r, tuple) else [r]
                if len(parts) != want or (want == 1 and isinstance(r, tuple)):
                    return dict(NORET, exc='flagexist returned %r' % (r,))
                o = dict(NORET, exc=None)
                if not isinstance(parts[0], (bool, np.bool_)):
                    return dict(NORET, exc='flagexist returned %r' % (r,))
                o['l'] = bool(parts[0])
                k = 1
                if c['fe']:
                    if not isinstance(parts[k], (bool, np.bool_)):
                        return dict(NORET, exc='flagexist returned %r' % (r,))
                    o['f'] = [bool(parts[k])]
                    k += 1
                if c['we']:
                    if not isinstance(parts[k], (list, tuple)) or not all(isinstance(x, (bool, np.bool_)) for x in parts[k]):
                        return dict(NORET, exc='flagexist returned %r' % (r,))
                    o['which'] = [bool(x) for x in parts[k]]
                return o
        except KeyError as ex:
            return dict(NORET, err=True, exc=None, msg=str(ex)[:80])
        except Exception as ex:
            return dict(NORET, err=True, exc='%s: %s' % (type(ex).__name__, str(ex)[:120]))
        raise core.MachineryError('unknown op %r' % op)


RET_KEYS = ('err', 'val', 'names', 'l', 'f', 'which')


def same_ret(exp, obs):
    return obs.get('exc') is None and all(exp[k] == obs[k] for k in RET_KEYS)


# ---------------------------------------------------------------------------------------------
# reading the state dump (fast path for the large dumps of this module, cross-checked against tlaval)
_KEY = re.compile(r'([A-Za-z_][A-Za-z0-9_]*) \|->')
_EVSPLIT = re.compile(r',\n   (?=\[ ret \|->)')


def _conv(text):
    t = text.replace('<<>>', '()').replace('<<', '(').replace('>>', ',)').replace('{}', 'frozenset()')
    t = _KEY.sub(r'"\1":', t).replace('[', '{').replace(']', '}')
    return t.replace('TRUE', 'True').replace('FALSE', 'False')


class DumpReader:
    """TLC prints each state as TLA+ text.  The same cache / load event text recurs in hundreds of states, so parsed
    conjuncts and events are memoised by their text (an event together with its plain form).  Text -> value is a
    translation to a Python literal; every 499th state is parsed again in full by harness/tlaval and must agree."""

    def __init__(self):
        self.memo = {}
        self.nstates = 0

    def _val(self, text):
        v = self.memo.get(text)
        if v is None:
            v = eval(_conv(text), {'frozenset': frozenset, '__builtins__': {}})
            if len(self.memo) < 600000:
                self.memo[text] = v
        return v

    def _event(self, text):
        v = self.memo.get(text)
        if v is None:
            e = eval(_conv(text), {'frozenset': frozenset, '__builtins__': {}})
            if not (isinstance(e, dict) and set(e) == {'ret', 'call'}):
                return None
            v = (e, (plain_call(e['call']), plain_ret(e['ret'])))
            if len(self.memo) < 600000:
                self.memo[text] = v
        return v

    def _hist(self, text):
        """-> (tuple of raw events, list of plain (call, ret))"""
        t = text.strip()
        if t == '<<>>':
            return (), []
        if t.startswith('<< [ ret |->') and t.endswith(' >>'):
            evs = [self._event(p) for p in _EVSPLIT.split(t[3:-3])]
            if all(e is not None for e in evs):
                return tuple(e[0] for e in evs), [e[1] for e in evs]
        raw = _norm(tlaval.parse_value(text))
        return raw, [(plain_call(e['call']), plain_ret(e['ret'])) for e in raw]

    def _state(self, lines):
        self.nstates += 1
        blk = ''.join(lines)
        st = {}
        for p in re.split(r'^/\\ ', blk, flags=re.M)[1:]:
            name, _, val = p.partition(' = ')
            if name == 'hist':
                st['hist'], st['plain'] = self._hist(val)
            else:
                st[name] = self._val(val.strip())
        if self.nstates % 499 == 1:
            ref = {}
            for p in re.split(r'^/\\ ', blk, flags=re.M)[1:]:
                name, _, val = p.partition(' = ')
                ref[name] = tlaval.parse_value(val)
            if _norm(ref) != _norm({k: v for k, v in st.items() if k != 'plain'}):
                raise core.MachineryError('fast dump reader disagrees with tlaval on state %d' % self.nstates)
        return st

    def states(self, path):
        cur = None
        with open(path) as fh:
            for line in fh:
                if line.startswith('State ') and line.rstrip().endswith(':'):
                    if cur:
                        yield self._state(cur)
                    cur = []
                elif cur is not None:
                    cur.append(line)
        if cur:
            yield self._state(cur)


def _norm(v):
    if isinstance(v, (set, frozenset)):
        return frozenset(_norm(x) for x in v)
    if isinstance(v, dict):
        return {k: _norm(x) for k, x in v.items()}
    if isinstance(v, (tuple, list)):
        return tuple(_norm(x) for x in v)
    return v


# ---------------------------------------------------------------------------------------------
# spec -> code
def nontrivial(ret):
    return bool(ret['err'] or ret['val'] or ret['names'] or ret['l'] or any(ret['which']))


def replay_history(real, hist, cache, memo):
    """hist: [(plain call, plain expected ret)], cache: expected final cache (plain).  Returns None or a mismatch dict."""
    for k, (c, exp) in enumerate(hist):
        obs = real.call(c, memo=memo and k == 0)
        if not same_ret(exp, obs):
            return {'step': k, 'call': c, 'expected': exp, 'observed': obs}
    got = real.cache()
    if got != cache:
        return {'step': len(hist) - 1, 'call': hist[-1][0], 'expected_cache': cache, 'observed_cache': got}
    return None


def describe(c):
    if c['op'] == 'load':
        return 'load(rows=%s, alias=%s)' % (c['file']['rows'], c['file']['alias'])
    if c['op'] == 'flagval':
        return 'sdss_flagval(%r, %r as %s)' % (c['g'], c['ls'], c['form'])
    if c['op'] == 'flagname':
        return 'sdss_flagname(%r, bits %s as %s)' % (c['g'], c['v'], c['form'])
    return 'sdss_flagexist(%r, %r as %s, flagexist=%s, whichexist=%s)' % (c['g'], c['ls'], c['form'], c['fe'], c['we'])


def run_mc(ctx, real, cfg, memo):
    r = ctx.tlc('MC_Maskbits.tla', cfg, dump=True, timeout=1500)
    if not r.get('dump') or not os.path.exists(r['dump']):
        raise core.MachineryError('TLC wrote no dump')
    rd = DumpReader()
    n = 0
    nviol = 0
    kinds = {}
    for st in rd.states(r['dump']):
        hist = st['hist']
        if not hist:
            continue
        n += 1
        kk = (st['plain'][-1][0]['op'], st['plain'][-1][1]['err'], len(hist) > 2)
        kinds[kk] = kinds.get(kk, 0) + 1
        ph = st['plain']
        pc = plain_cache(st['cache'])
        if plain_ret(st['ret']) != ph[-1][1]:
            raise core.MachineryError('state variable ret differs from the last history entry')
        bad = replay_history(real, ph, pc, memo)
        last = ph[-1][0]
        ctx.evaluated(len(ph) if not memo else 1, last['op'])
        ctx.validated()
        if nontrivial(ph[-1][1]):
            ctx.nontriv(hash((file_key(ph[0][0]['file']), len(ph), repr(last))))
        if n % 20011 == 7:
            ctx.sample({'history': [{'call': describe(c), 'expected': e} for c, e in ph], 'cache': pc})
        if bad is not None:
            nviol += 1
            if nviol <= 40:
                if 'expected' in bad:
                    diff = [k for k in RET_KEYS if bad['expected'][k] != bad['observed'][k]]
                    what = '%s: specified %s, observed %s%s [after %s]' % (
                        describe(bad['call']), {k: bad['expected'][k] for k in (diff or ('err', 'val'))},
                        {k: bad['observed'][k] for k in diff}, (' exc=' + bad['observed']['exc']) if bad['observed'].get('exc') else '',
                        ' ; '.join(describe(c) for c, _ in ph[:bad['step']]) or 'nothing')
                else:
                    what = 'module cache is %s, specified %s [after %s]' % (
                        bad['observed_cache'], bad['expected_cache'], ' ; '.join(describe(c) for c, _ in ph))
                ctx.violation({'what': what, 'kind': 'history', 'history': [{'call': c, 'ret': e} for c, e in ph],
                               'cache': pc, 'mismatch': bad})
    try:
        os.remove(r['dump'])
    except OSError:
        pass
    if n + 1 != r['distinct']:
        raise core.MachineryError('replayed %d of %d states' % (n + 1, r['distinct']))
    # vacuity guard: every kind of step, failing and succeeding conversions, and (machine mode) reloads were explored
    need = [('load', False), ('flagval', False), ('flagval', True), ('flagname', False), ('flagname', True),
            ('flagexist', False)]
    for op, err in need:
        if not any(k[0] == op and k[1] == err for k in kinds):
            raise core.MachineryError('%s explored no %s step with err=%s' % (cfg, op, err))
    if not memo and not any(k[2] for k in kinds):
        raise core.MachineryError('%s explored no history longer than two steps' % cfg)
    return n


# ---------------------------------------------------------------------------------------------
# code -> spec
def rand_name(rng, maxlen=10):
    first = 'ABCDEFGHIJKLMNOPQRSTUVWXYZ'
    rest = first + '0123456789_'
    return rng.choice(first) + ''.join(rng.choice(rest) for _ in range(rng.randint(0, maxlen - 1)))


def rand_case(rng, s):
    mode = rng.randint(0, 3)
    if mode == 0:
        return s
    if mode == 1:
        return s.lower()
    if mode == 2:
        return s.capitalize()
    return ''.join(ch.lower() if rng.random() < 0.5 else ch for ch in s)


def rand_file(rng, big):
    ng = rng.choice([0, 1, 1, 2, 2, 3, 4, 8]) if not big else rng.randint(4, 8)
    groups = []
    pool = [rand_name(rng) for _ in range(12)]
    while len(groups) < ng:
        g = rand_name(rng, 12)
        if g not in groups:
            groups.append(g)
    rows = []
    for g in groups:
        nl = rng.randint(40, 64) if big else rng.choice([1, 2, 3, 5, 8, 13])
        bits = rng.sample(range(64), nl)
        for b in (63, 0, 31, 32):
            if rng.random() < 0.4 and b not in bits:
                bits[rng.randrange(nl)] = b
        bits = list(dict.fromkeys(bits))
        labels = []
        while len(labels) < len(bits):
            l = rng.choice(pool) if rng.random() < 0.4 else rand_name(rng)
            if l not in labels:
                labels.append(l)
        rows += [[g, l, b] for l, b in zip(labels, bits)]
    alias = []
    if groups:
        for _ in range(rng.choice([0, 0, 1, 1, 2, 3])):
            a = rand_name(rng, 12)
            if a not in groups and a not in [x[0] for x in alias]:
                alias.append([a, rng.choice(groups)])
    if rng.random() < 0.6:
        rng.shuffle(rows)
    return {'rows': rows, 'alias': alias, 'afirst': rng.random() < 0.3}


def rand_query(rng, f, prev):
    groups = sorted({r[0] for r in f['rows']})
    names = groups + [a[0] for a in f['alias']]
    p = rng.random()
    if names and p < 0.78:
        g = rng.choice(names)
    elif prev and p < 0.90:
        g = rng.choice(prev)                 # a group or alias of the previously loaded file (may be stale)
    else:
        g = rand_name(rng)
    target = dict((a[0], a[1]) for a in f['alias']).get(g, g)
    labs = [r[1] for r in f['rows'] if r[0] == target]
    others = sorted({r[1] for r in f['rows']} - set(labs)) or ['NOSUCHLABEL']
    op = rng.choice(['flagval', 'flagname', 'flagname', 'flagexist'])
    c = {'op': op, 'file': {'rows': [], 'alias': [], 'afirst': False}, 'g': rand_case(rng, g), 'ls': [], 'v': [],
         'fe': False, 'we': False, 'form': ''}
    if op in ('flagval', 'flagexist'):
        k = rng.choice([0, 1, 1, 2, 3, 5, len(labs)]) if op == 'flagval' else rng.choice([1, 1, 2, 3, 5])
        ls = rng.sample(labs, min(k, len(labs)))
        q = rng.random()
        if q < 0.15 or (op == 'flagexist' and not ls):
            ls.insert(rng.randint(0, len(ls)), rng.choice(others) if rng.random() < 0.5 else rand_name(rng))
        elif q < 0.18 and ls:
            ls.append(ls[0])                 # repeated label: outside the statement, any outcome is accepted
        c['ls'] = [rand_case(rng, l) for l in ls]
        c['form'] = 'str' if (len(ls) == 1 and rng.random() < 0.5) else ('tuple' if op == 'flagval' and rng.random() < 0.3 else 'list')
        if op == 'flagexist':
            c['fe'], c['we'] = rng.random() < 0.5, rng.random() < 0.5
    else:
        defined = [r[2] for r in f['rows'] if r[0] == target]
        q = rng.random()
        if q < 0.1:
            v = []
        elif q < 0.25:
            v = defined
        elif q < 0.35:
            v = [rng.choice([63, 0, 62, 31, 32])]
        else:
            dens = rng.choice([0.05, 0.3, 0.7, 1.0])
            v = [b for b in range(64) if rng.random() < dens]
        c['v'] = sorted(set(v))
        c['form'] = rng.choice(['pyint', 'uint64', 'int64'])
    return c


def to_event(c, obs, cache):
    e = {'op': c['op'],
         'file': {'rows': [[chars(g), chars(l), b] for g, l, b in c['file']['rows']],
                  'alias': [[chars(a), chars(g)] for a, g in c['file']['alias']], 'afirst': c['file']['afirst']},
         'g': chars(c['g']), 'ls': [chars(x) for x in c['ls']], 'v': list(c['v']), 'fe': c['fe'], 'we': c['we'],
         'ret': {'err': obs['err'], 'val': obs['val'], 'names': [chars(x) for x in obs['names']], 'l': obs['l'],
                 'f': obs['f'], 'which': obs['which']}}
    if cache is not None:
        e['cache'] = [[chars(g), chars(l), b] for g, l, b in cache]
    return e


def record_trace(real, calls):
    """Execute the calls on the real code; return (events for TLC, plain log, harness-side problem or None)."""
    events, log, problem = [], [], None
    for k, c in enumerate(calls):
        obs = real.call(c)
        cache = real.cache()
        if obs.get('exc') is not None and problem is None:
            problem = (k, 'unexpected exception or result type: %s' % obs['exc'])
        if cache is not None and any(not isinstance(t[2], int) for t in cache):
            if problem is None:
                problem = (k, 'cache holds a non-integer bit: %r' % [t for t in cache if not isinstance(t[2], int)][:2])
            cache = [t for t in cache if isinstance(t[2], int)]
        small = cache is not None and (len(cache) <= 48 or c['op'] == 'load' or k % 10 == 9 or k == len(calls) - 1)
        events.append(to_event(c, obs, cache if small else None))
        log.append({'call': c, 'observed': {kk: obs[kk] for kk in RET_KEYS + ('exc',)}})
    return events, log, problem


_TID = re.compile(r'^/\\ tid = (\d+)$', re.M)
_K = re.compile(r'^/\\ k = (\d+)$', re.M)


def validate_traces(ctx, traces, label):
    """Returns {trace index: first event index (0-based) the specification refuses}."""
    path = os.path.join(ctx.scratch, 'c07_traces.json')
    core.write_json(path, traces)
    r = ctx.tlc('Trace_Maskbits.tla', 'Trace_Maskbits.cfg', dump=True, env={'VERIF_TRACE': path}, count=False,
                label=label, timeout=1500, jvm_props=('-Xss64m',))
    with open(r['dump']) as fh:
        data = fh.read()
    os.remove(r['dump'])
    os.remove(path)
    far = {}
    for blk in re.split(r'^State \d+:\n', data, flags=re.M)[1:]:
        mt, mk = _TID.search(blk), _K.search(blk)
        if not mt or not mk:
            raise core.MachineryError('trace dump state without tid / k')
        t, k = int(mt.group(1)), int(mk.group(1))
        far[t] = max(far.get(t, 0), k)
    if sorted(far) != list(range(1, len(traces) + 1)):
        raise core.MachineryError('Trace_Maskbits judged %d of %d traces' % (len(far), len(traces)))
    return {t - 1: far[t] - 1 for t in far if far[t] != len(traces[t - 1]) + 1}


def make_calls(rng, big):
    calls, prev, f = [], [], None
    nload = rng.choice([2, 2, 3]) if not big else 2
    for j in range(nload):
        if j and rng.random() < 0.25 and not big:
            # a variation of the previous file: same names, other bits / dropped alias (a stale cache would show)
            g = dict(f)
            g = {'rows': [[r[0], r[1], 63 - r[2]] for r in f['rows']][: max(1, len(f['rows']) - 1)],
                 'alias': f['alias'][1:], 'afirst': not f['afirst']}
            known = {r[0] for r in g['rows']}
            g['alias'] = [a for a in g['alias'] if a[1] in known]
            nf = g
        else:
            nf = rand_file(rng, big and j == 0)
        if f is not None:
            prev = sorted({r[0] for r in f['rows']} | {a[0] for a in f['alias']})
        f = nf
        calls.append({'op': 'load', 'file': f, 'g': '', 'ls': [], 'v': [], 'fe': False, 'we': False, 'form': ''})
        for _ in range(rng.randint(6, 14) if big else rng.randint(8, 30)):
            calls.append(rand_query(rng, f, prev))
    return calls


def run_traces(ctx, real):
    rng = random.Random(ctx.seed)
    ntr = 40 if ctx.quick else 400
    batch = 40 if ctx.quick else 80
    done = 0
    while done < ntr:
        traces, logs, problems = [], [], []
        for t in range(min(batch, ntr - done)):
            big = (done + t) % 13 == 5
            real.sdss.maskbits = None
            calls = make_calls(rng, big)
            ev, log, problem = record_trace(real, calls)
            traces.append(ev)
            logs.append(log)
            problems.append(problem)
        bad = validate_traces(ctx, traces, 'Trace_Maskbits[%d:%d]' % (done, done + len(traces)))
        for t, log in enumerate(logs):
            ctx.validated()
            ctx.evaluated(len(log), 'recorded-events')
            for e in log:
                if e['call']['op'] != 'load' and nontrivial(e['observed']):
                    ctx.nontriv(hash(('rec', done + t, repr(e['call']))))
            k = bad.get(t)
            if k is None and problems[t] is not None:
                k = problems[t][0]
            if k is not None:
                e = log[k]
                why = 'refused by Trace_Maskbits' if t in bad else problems[t][1]
                ctx.violation({'what': 'recorded history %d, event %d %s observed %s: %s' % (
                    done + t, k, describe(e['call']), e['observed'], why),
                    'kind': 'trace', 'calls': [x['call'] for x in log], 'event': k, 'observed': e['observed']})
        if done == 0:
            ctx.sample({'recorded_history_head': [{'call': describe(x['call']), 'observed': x['observed']} for x in logs[0][:4]],
                        'events': len(logs[0])})
        done += len(traces)


def self_test(ctx, real):
    """The trace validation must bind: a corrupted outcome and a stale cache have to be refused."""
    rng = random.Random(1)
    f = {'rows': [['GRP', 'LOW', 0], ['GRP', 'TOP', 63]], 'alias': [['AKA', 'GRP']], 'afirst': False}
    q = {'op': 'flagname', 'file': {'rows': [], 'alias': [], 'afirst': False}, 'g': 'aka', 'ls': [], 'v': [0, 5, 63],
         'fe': False, 'we': False, 'form': 'pyint'}
    ld = {'op': 'load', 'file': f, 'g': '', 'ls': [], 'v': [], 'fe': False, 'we': False, 'form': ''}
    cache = [['AKA', 'LOW', 0], ['AKA', 'TOP', 63], ['GRP', 'LOW', 0], ['GRP', 'TOP', 63]]
    good = [to_event(ld, NORET, cache), to_event(q, dict(NORET, names=['LOW', 'TOP']), cache)]
    wrong_order = [good[0], to_event(q, dict(NORET, names=['TOP', 'LOW']), cache)]
    stale = [good[0], to_event(ld, NORET, cache + [['OLD', 'X', 1]])]
    no_err = [good[0], to_event(dict(q, g='nope'), dict(NORET), None)]
    bad = validate_traces(ctx, [good, wrong_order, stale, no_err], 'Trace_Maskbits[self-test]')
    if bad != {1: 1, 2: 1, 3: 1}:
        raise core.MachineryError('Trace_Maskbits self-test: expected exactly traces 1,2,3 refused at event 1, got %r' % bad)
    del rng


def run(ctx):
    ctx.level = 'model_checking'
    ctx.rule = ('every TLC state of MC_Maskbits is a behaviour prefix (load file, queries, reload, ...) replayed on the real '
                'code; non-trivial = distinct (file, history, query) whose specified outcome is a non-empty value, a '
                'non-empty name list, a KeyError or a positive existence answer; recorded = seeded random histories '
                'validated event by event by Trace_Maskbits')
    ctx.assumptions = ['abstraction: uint64 <-> set of bit positions; cache dict <-> set of (group, label, bit) triples; '
                       'names <-> sequences of characters',
                       'names are ASCII letters, digits and underscore (case folding of other alphabets is not examined)',
                       'file-side names are upper case; one label per bit and one bit per label within a group',
                       'Load = the documented idiom sdss.maskbits = set_maskbits(maskbits_file=path); the download path is not run',
                       'laws mode installs the dict produced by the one real set_maskbits call per file for each query of that file',
                       'state dumps are read by a memoising reader cross-checked against harness/tlaval on every 499th state']
    real = Real(ctx)
    self_test(ctx, real)
    run_mc(ctx, real, 'MC_Maskbits_quick.cfg' if ctx.quick else 'MC_Maskbits_thorough.cfg', True)
    real.memo.clear()
    run_mc(ctx, real, 'MC_Maskbits_machine_quick.cfg' if ctx.quick else 'MC_Maskbits_machine_thorough.cfg', False)
    run_traces(ctx, real)
    ctx.exhaustive = True


def replay(ctx, case):
    """bin/check C07 --replay <file>: re-execute one failing history (TLC-generated or recorded)."""
    ctx.level = 'model_checking'
    ctx.rule = 'single replayed case'
    real = Real(ctx)
    real.sdss.maskbits = None
    ctx.nontriv('a')
    ctx.nontriv('b')
    if case.get('kind') == 'history':
        ph = [(e['call'], e['ret']) for e in case['history']]
        bad = replay_history(real, ph, case['cache'], False)
        ctx.evaluated(len(ph))
        for c, e in ph:
            print('  %s -> specified %s' % (describe(c), e))
        print('mismatch now:', bad)
        if bad is not None:
            ctx.violation(dict(case, mismatch=bad))
        return
    calls = case['calls']
    ev, log, problem = record_trace(real, calls)
    bad = validate_traces(ctx, [ev], 'Trace_Maskbits[replay]')
    ctx.evaluated(len(calls))
    k = bad.get(0, problem[0] if problem else None)
    for i, e in enumerate(log[: (k + 1) if k is not None else 5]):
        print('  %d %s -> %s' % (i, describe(e['call']), e['observed']))
    print('refused at event:', k)
    if k is not None:
        ctx.violation(dict(case, event=k, observed=log[k]['observed']))
