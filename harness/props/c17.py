"""C17 - rejection, mask interpolation, aesthetics, reflecting median, sky masking.

Spec: spec/Reject.tla; MC: mc/MC_Reject (+ _quick/_thorough cfg); Trace: trace/Trace_Reject.

spec -> code : every state of MC_Reject is one call with the outcome the specification demands;
               each is concretised (trivially: rationals -> floats, position sets -> boolean /
               integer arrays) in every applicable calling convention and compared.
code -> spec : seeded random / adversarial calls of the real functions are recorded (arguments and
               abstracted results as exact rationals / position lists) and judged by TLC with the
               operators of Reject.tla (Trace_Reject).
"""
import os
import random
from fractions import Fraction

import numpy as np

from .. import core

TOL = 1e-12
ALL_FAMILIES = ['reject', 'rejnum', 'interp1', 'interpnd', 'aesth', 'median', 'median2', 'sky', 'skywide', 'skytop']


# ----------------------------------------------------------------------------------------------
# helpers: abstraction / concretisation
# ----------------------------------------------------------------------------------------------
def jsonable(v):
    if isinstance(v, dict):
        return {k: jsonable(x) for k, x in v.items()}
    if isinstance(v, (set, frozenset)):
        return sorted(jsonable(x) for x in v)
    if isinstance(v, (tuple, list)):
        return [jsonable(x) for x in v]
    return v


def fl(q):
    """spec rational [num, den] -> float (exact for the dyadic values used as inputs)."""
    return q[0] / q[1]


def num(q):
    """a limit: pass an int when it is one (as callers do), else a float."""
    return q[0] if q[1] == 1 else q[0] / q[1]


def close(v, q):
    f = q[0] / q[1]
    return bool(np.isfinite(v)) and abs(float(v) - f) <= TOL * (1.0 + abs(f))


def rat(v, maxden=5000):
    """float -> small rational [num, den] within 1e-9, or None (non-finite, huge, or not a small rational);
    bounds keep TLC's 32-bit products in range."""
    v = float(v)
    if not np.isfinite(v) or abs(v) > 1e4:
        return None
    f = Fraction(v).limit_denominator(maxden)
    if abs(float(f) - v) > 1e-9 * (1.0 + abs(v)):
        return None
    return [f.numerator, f.denominator]


def exact_rat(v):
    """float -> its exact value as [num, den] when that is a small dyadic rational, else None."""
    v = float(v)
    if not np.isfinite(v) or abs(v) > 1e4:
        return None
    f = Fraction(v)
    if f.denominator > 4096:
        return None
    return [f.numerator, f.denominator]


def posmask(n, positions):
    s = set(positions)
    return np.array([(i + 1) in s for i in range(n)], dtype=bool)


# Variants of HOW an argument is handed over (spec section 6: the outcome depends on the values only).
# A variant is a label 'LAYOUT.TYPE.MASKTYPE.SCALARFORM':
#   LAYOUT      'C' plain copy; 'ro' read-only; 'strided' every second element of a larger array along every axis;
#               'F' a transposed view of a C array (Fortran order; 1-D: strided); 'swap' non-native byte order
#   TYPE        numeric type of every numeric array argument whose values are all integral and fit: float64, int64,
#               int32, int16, uint16, uint8 (otherwise the argument stays float64)
#   MASKTYPE    dtype of mask arguments (0 / 1 values): bool and every integer width
#   SCALARFORM  scalar arguments: 'py' Python numbers, 'np' numpy scalars (int64 / float64), '0d' 0-d arrays,
#               'u1' numpy.uint8 for non-negative integers (else as 'np')
LAYOUTS = ['C', 'ro', 'strided', 'F', 'swap']
TYPES = ['f8', 'i8', 'i4', 'i2', 'u2', 'u1']
MASKTYPES = ['bool', 'i1', 'u1', 'i2', 'u2', 'i4', 'u4', 'i8', 'u8']
SFORMS = ['py', 'np', '0d', 'u1']       # ('i1': numpy.int8, used for the wide skymask windows only)
VARIANTS = LAYOUTS       # (kept: the layouts used for pairs of calls)


#   MASKVALUE   the non-zero value that marks a good point (djs_reject: "bad points are marked with a value that evaluates to
#               False") / a masked sample (djs_maskinterp: non-zero) in an integer mask: 'one' 1; 'two' 2; 'top' only the
#               top bit of the dtype (the most negative value of a signed type); 'neg1' all bits (-1); 'mix' rotating
MVALS = ['one', 'top', 'two', 'neg1', 'mix']


def vp(v):
    parts = (v or 'C').split('.')
    return parts + ['C', 'f8', 'bool', 'py', 'one'][len(parts):]


def lay(a, v):
    a = np.asarray(a)
    v = vp(v)[0]
    if v == 'ro':
        b = a.copy()
        b.setflags(write=False)
        return b
    if v == 'strided' or (v == 'F' and a.ndim < 2):
        big = np.zeros(tuple(2 * n for n in a.shape), dtype=a.dtype)
        sl = tuple(slice(None, None, 2) for _ in a.shape)
        big[sl] = a
        return big[sl]
    if v == 'F':
        return np.ascontiguousarray(a.T).T
    if v == 'swap':
        return a.astype(a.dtype.newbyteorder())
    return a.copy()


def typed(a, v):
    """the numeric array a (float64) in the variant's numeric type, when its values are integral and fit."""
    a = np.asarray(a)
    t = vp(v)[1]
    if t == 'f8' or a.size == 0 or a.dtype.kind != 'f' or not np.all(a == np.round(a)):
        return a
    info = np.iinfo(np.dtype(t))
    if a.min() < info.min or a.max() > info.max:
        return a
    return a.astype(t)


def arr(a, v):
    return lay(typed(a, v), v)


def marr(mask, v, base=None):
    """a boolean mask as the variant's mask dtype: 0 where False, the variant's non-zero value where True."""
    t, mv = vp(v)[2], vp(v)[4]
    m = np.asarray(mask)
    if t == 'bool':
        return lay(m, v)
    info = np.iinfo(np.dtype(t))
    top = info.min if info.min < 0 else (info.max // 2 + 1)
    neg1 = -1 if info.min < 0 else info.max
    vals = {'one': [1], 'two': [2], 'top': [top], 'neg1': [neg1], 'mix': [top, 1, 2, neg1, info.max, 6]}[mv]
    fill = np.array([vals[k % len(vals)] for k in range(m.size)], dtype=t).reshape(m.shape)
    return lay(np.where(m, fill, np.zeros((), dtype=t)).astype(t), v)


def sc0(x, v, kind=float):
    """a scalar argument in the variant's scalar form."""
    f = vp(v)[3]
    integral = isinstance(x, (int, np.integer)) and not isinstance(x, bool)
    if f == 'py' or isinstance(x, bool):
        return x
    if f == 'u1' and integral and 0 <= x <= 255:
        return np.uint8(x)
    if f == 'i1' and integral and -128 <= x <= 127:
        return np.int8(x)
    if f == '0d':
        return np.array(x)
    return np.int64(x) if integral else np.float64(x)


def variant_of(ctx_seed, c):
    """Rotate the variants over the cases, by seed (deterministic in the case's content)."""
    import zlib
    h = zlib.crc32(repr(sorted((k, repr(x)) for k, x in c.items())).encode()) + ctx_seed
    return '.'.join([LAYOUTS[h % 5], TYPES[(h // 5) % 6], MASKTYPES[(h // 30) % 9], SFORMS[(h // 270) % 4], MVALS[(h // 1080) % 5]])


def random_variant(rng):
    return '.'.join([rng.choice(LAYOUTS), rng.choice(TYPES), rng.choice(MASKTYPES), rng.choice(SFORMS), rng.choice(MVALS)])


def exc_name(ex):
    return '%s: %s' % (type(ex).__name__, str(ex)[:120])


# ----------------------------------------------------------------------------------------------
# djs_reject
# ----------------------------------------------------------------------------------------------
def reject_convs(c):
    """The calling conventions that mean the spec call: sigma mode -> sigma= array, scalar sigma when all are
    equal (sigma = 0 included), invvar= 1/sigma^2 when every sigma is positive; weight mode -> invvar= scale^2,
    sigma= 1/scale when every weight is positive."""
    sc = [Fraction(*q) for q in c['scale']]
    pos = all(x > 0 for x in sc)
    if c['mode'] == 'sigma':
        convs = ['sigma']
        if len(set(sc)) == 1:
            convs.append('sigma-scalar')
        if pos:
            convs.append('invvar')
    else:
        convs = ['invvar']
        if pos:
            convs.append('sigma')
            if len(set(sc)) == 1:
                convs.append('sigma-scalar')
    return convs


def reject_call(c, conv, use_none, v='C'):
    """Concretise a spec call: model is an arbitrary fixed ramp, data = model + diff."""
    from pydl.pydlutils.math import djs_reject
    n = c['n']
    model = 3.0 * np.arange(n, dtype='d') + 20.0          # keeps data = model + diff non-negative (unsigned types)
    data = model + np.array([fl(d) for d in c['diff']], dtype='d')
    sc = [Fraction(*q) for q in c['scale']]
    sig = sc if c['mode'] == 'sigma' else [1 / x if x else None for x in sc]
    wgt = sc if c['mode'] == 'weight' else [1 / x if x else None for x in sc]
    kw = {}
    if conv == 'sigma':
        kw['sigma'] = arr(np.array([float(x) for x in sig], dtype='d'), v)
    elif conv == 'sigma-scalar':
        kw['sigma'] = sc0(int(sig[0]) if sig[0].denominator == 1 else float(sig[0]), v)
    else:
        kw['invvar'] = arr(np.array([float(x * x) for x in wgt], dtype='d'), v)
    for name in ('lower', 'upper', 'maxdev'):
        if c[name]:
            kw[name] = sc0(num(c[name][0]), v)
    full = list(range(1, n + 1))
    if not (use_none and sorted(c['inmask']) == full):
        kw['inmask'] = marr(posmask(n, c['inmask']), v)
    if not (use_none and sorted(c['prev']) == full):
        kw['outmask'] = marr(posmask(n, c['prev']), v)
    data, model = arr(data, v), arr(model, v)
    return reject_observe(lambda: djs_reject(data, model, sticky=c['sticky'], grow=sc0(c['grow'], v, int), **kw), n)


def reject_observe(fn, n):
    try:
        out, qdone = fn()
    except Exception as ex:
        return {'err': True, 'exc': exc_name(ex), 'out': [], 'qdone': False}
    out = np.asarray(out)
    if out.shape != (n,):
        return {'err': True, 'exc': 'output mask shape %r' % (out.shape,), 'out': [], 'qdone': False}
    if not isinstance(qdone, (bool, np.bool_)):
        return {'err': True, 'exc': 'qdone is %r' % type(qdone).__name__, 'out': [], 'qdone': False}
    return {'err': False, 'exc': '', 'out': [i + 1 for i in range(n) if out[i]], 'qdone': bool(qdone)}


def reject_judge(c, exp, obs):
    """'' = conforms; 'defer' = inside the bounds but neither extreme (TLC decides); else reason."""
    if obs['err']:
        return 'raised ' + obs['exc']
    out = obs['out']
    if out == exp['gmax']:
        return '' if obs['qdone'] == exp['done'] else 'completion flag %r, specified %r' % (obs['qdone'], exp['done'])
    if out == exp['gmin']:
        return '' if obs['qdone'] == exp['donemin'] else 'completion flag %r, specified %r' % (obs['qdone'], exp['donemin'])
    if set(exp['gmin']) <= set(out) <= set(exp['gmax']):
        return 'defer'
    return 'kept (good) points %s; specified between %s and %s' % (out, exp['gmin'], exp['gmax'])


def reject_record(c, obs, conv):
    """The trace record of a spec-shaped call (used for deferred verdicts)."""
    n = c['n']
    return {'kind': 'reject', 'n': n, 'data': c['diff'], 'model': [[0, 1]] * n, 'mode': c['mode'], 'scale': c['scale'],
            'lower': c['lower'], 'upper': c['upper'], 'maxdev': c['maxdev'], 'inmask': sorted(c['inmask']),
            'prev': sorted(c['prev']), 'sticky': c['sticky'], 'grow': c['grow'], 'err': obs['err'],
            'exact': True, 'out': obs['out'], 'qdone': obs['qdone']}


def int_finding(how, obs_exc='', kind='reject'):
    """D-C17-3: djs_reject with integer-typed arguments (in-place float into an integer work array, unsigned differences /
    negated unsigned limits wrap).  D-C17-4: djs_maskinterp truncates interpolated values of integer N-d images."""
    parts = vp(how)
    if kind == 'reject' and parts[2] != 'bool' and parts[4] != 'one' and not obs_exc:
        return 'D-C17-6'       # a good point marked by a non-zero value other than 1 (tested bitwise)
    if kind == 'reject':
        if obs_exc.startswith('UFuncTypeError') or obs_exc.startswith('OverflowError'):
            return 'D-C17-3'
        if parts[1] in ('u1', 'u2') or parts[3] == 'u1':
            return 'D-C17-3'
    elif kind == 'interp' and parts[1] != 'f8':
        return 'D-C17-4'
    return None


def reject_classify(c, exp, obs, how='C'):
    """Name the known deviation that explains the mismatch (Dev_GrowIgnored; integer-typed arguments)."""
    f = int_finding(how, obs.get('exc', ''))
    if f:
        return f
    if c['grow'] >= 2 and obs['err'] and obs['exc'].startswith('IndexError'):
        return 'D-C17-1'
    if c['grow'] == 1 and not obs['err'] and obs['out'] == exp.get('dev'):
        return 'D-C17-1'
    return None


# ----------------------------------------------------------------------------------------------
# djs_maskinterp
# ----------------------------------------------------------------------------------------------
def interp_call(c, variant, v='C'):
    """c: y, bad, x, const [, shape, axis].  variant: 'interp1' (helper), 'nd' (djs_maskinterp),
    mask dtype alternates between bool and int32."""
    from pydl.pydlutils.image import djs_maskinterp, djs_maskinterp1
    shape = tuple(c.get('shape') or [len(c['y'])])
    size = int(np.prod(shape))
    y = np.array([fl(q) for q in c['y']], dtype='d').reshape(shape)
    m = posmask(size, c['bad'])
    mask = m.reshape(shape)
    x = arr(np.array([fl(q) for q in c['x']], dtype='d').reshape(shape), v) if c['x'] else None
    y = arr(y, v)
    mask = lay(mask, v) if variant.endswith('bool') else (marr(mask, v) if vp(v)[2] != 'bool' else lay(mask.astype(np.int32), v))
    y0 = y.copy()
    try:
        if variant.startswith('interp1'):
            out = djs_maskinterp1(y, mask, xval=x, const=c['const'])
        elif len(shape) == 1:
            out = djs_maskinterp(y, mask, xval=x, const=c['const'])
        else:
            out = djs_maskinterp(y, mask, xval=x, axis=c['axis'], const=c['const'])
    except Exception as ex:
        return {'err': True, 'exc': exc_name(ex), 'out': None}
    out = np.asarray(out)
    if out.shape != shape:
        return {'err': True, 'exc': 'output shape %r' % (out.shape,), 'out': None}
    if not np.array_equal(y, y0):
        return {'err': True, 'exc': 'input array modified in place', 'out': None}
    return {'err': False, 'exc': '', 'out': out.reshape(-1)}


def interp_judge(c, exp, obs):
    if obs['err']:
        return 'raised ' + obs['exc']
    out = obs['out']
    bad = set(c['bad'])
    for p, q in enumerate(exp['val']):
        if (p + 1) not in bad:
            if out[p] != fl(q):
                return 'unmasked sample %d changed: %r, specified %s' % (p + 1, float(out[p]), q)
        elif not close(out[p], q):
            return 'masked sample %d is %r, specified %s' % (p + 1, float(out[p]), q)
    return ''


# ----------------------------------------------------------------------------------------------
# aesthetics
# ----------------------------------------------------------------------------------------------
def aes_call(c, v='C'):
    from pydl.pydlspec2d.spec2d import aesthetics
    flux = arr(np.array([fl(q) for q in c['flux']], dtype='d'), v)
    ivar = arr(np.array(c['ivar'], dtype='d'), v)
    f0 = flux.copy()
    try:
        with np.errstate(all='ignore'):
            out = aesthetics(flux, ivar, c['method'])
    except Exception as ex:
        return {'err': True, 'exc': exc_name(ex), 'out': None}
    out = np.asarray(out)
    if out.shape != flux.shape:
        return {'err': True, 'exc': 'output shape %r' % (out.shape,), 'out': None}
    if not np.array_equal(flux, f0):
        return {'err': True, 'exc': 'input array modified in place', 'out': None}
    return {'err': False, 'exc': '', 'out': out, 'intflux': flux.dtype.kind in 'iu'}


def aes_judge(c, exp, obs):
    if obs['err']:
        return 'raised ' + obs['exc']
    out = obs['out']
    free = set(exp['free'])
    if obs.get('intflux') and c['method'] == 'mean':
        free = set(range(1, len(out) + 1))   # integer flux: 'mean' keeps the flux dtype; the statement fixes only WHERE flux changes
    for p, q in enumerate(exp['val']):
        if c['ivar'][p] != 0:
            if out[p] != fl(q):
                return 'flux changed at %d where invvar is nonzero: %r, specified %s' % (p + 1, float(out[p]), q)
        elif (p + 1) not in free and not close(out[p], q):
            return 'fill value at %d is %r, specified %s' % (p + 1, float(out[p]), q)
    return ''


# ----------------------------------------------------------------------------------------------
# djs_median(boundary='reflect')
# ----------------------------------------------------------------------------------------------
def median_call(arr, w, dtype, v='C'):
    from pydl.pydlutils.math import djs_median
    a = np.array(arr, dtype=dtype)
    a = lay(a, v)
    a0 = a.copy()
    try:
        out = djs_median(a, width=sc0(w, v, int), boundary='reflect')
    except Exception as ex:
        return {'err': True, 'exc': exc_name(ex), 'out': None}
    out = np.asarray(out)
    if out.shape != a.shape:
        return {'err': True, 'exc': 'output shape %r' % (out.shape,), 'out': None}
    if not np.array_equal(a, a0):
        return {'err': True, 'exc': 'input array modified in place', 'out': None}
    return {'err': False, 'exc': '', 'out': out}


def median_judge(exp, obs):
    if obs['err']:
        return 'raised ' + obs['exc']
    want = np.array(exp['val'], dtype='d')
    if not np.array_equal(np.asarray(obs['out'], dtype='d'), want):
        return 'result %s, specified %s' % (np.asarray(obs['out']).tolist(), exp['val'])
    return ''


# ----------------------------------------------------------------------------------------------
# skymask
# ----------------------------------------------------------------------------------------------
# (dtype, highest bit it holds): the sign bit of the signed types included (negative mask values)
SKY_DTYPES = [('int16', 15), ('int32', 31), ('int64', 63), ('uint64', 63)]
_PAR_HEAD = '''#
# SPPIXMASK table generated by the C17 check
#
typedef struct {
    char flag[20]; # Flag name
    short bit; # Bit number, 0-indexed
    char label[30]; # Bit label
    char description[100]; # text description
} maskbits;

typedef struct {
    char flag[20]; # Flag name
    short datatype; # Data type {8, 16, 32, 64}
    char description[100]; # text description
} masktype;

masktype SPPIXMASK 32 "Mask bits for an SDSS spectrum"
'''
_tables = {}


def sky_table(ctx, tbl):
    """Load (once) an SPPIXMASK table with the given bit numbers through pydl's own reader."""
    from pydl.pydlutils.sdss import set_maskbits
    key = tuple(sorted(tbl.items()))
    if key not in _tables:
        path = os.path.join(ctx.scratch, 'sppixmask_%d.par' % len(_tables))
        with open(path, 'w') as fh:
            fh.write(_PAR_HEAD)
            for name, bit in sorted(tbl.items(), key=lambda kv: kv[1]):
                fh.write('maskbits SPPIXMASK %2d %s "generated"\n' % (bit, name))
        _tables[key] = set_maskbits(maskbits_file=path)
    return _tables[key]


SKY_EXTRA = {'i1': ('int8', 7), 'u1': ('uint8', 7), 'u2': ('uint16', 15), 'u4': ('uint32', 31)}


def sky_dtypes(flags, v=None):
    """the four mask types of the statement, plus (rotated with the variant) one more integer width that holds the bits."""
    top = max([b for row in flags for px in row for b in px] or [0])
    out = [d for d, mx in SKY_DTYPES if top <= mx]
    extra = SKY_EXTRA.get(vp(v)[2]) if v else None
    if extra and top <= extra[1]:
        out.append(extra[0])
    return out


def int_dtype(values, v):
    """the variant's integer type if the (integral) values fit, else int64."""
    t = vp(v)[1]
    if t == 'f8':
        return 'int64'
    info = np.iinfo(np.dtype(t))
    flat = np.asarray(values).reshape(-1)
    return np.dtype(t).name if (flat.min() >= info.min and flat.max() <= info.max) else 'int64'


def sky_call(ctx, c, dtype, v='C'):
    import pydl.pydlutils.sdss as sdss
    from pydl.pydlspec2d.spec1d import skymask
    sdss.maskbits = sky_table(ctx, c['tbl'])
    ivar = np.array(c['ivar'], dtype='d')
    vals = [[sum(1 << b for b in px) for px in row] for row in c['flags']]
    ormask = np.array(vals, dtype=np.uint64).astype(dtype)
    andmask = lay(np.zeros(ormask.shape, dtype=dtype), v)
    ivar, ormask = arr(ivar, v), lay(ormask, v)
    iv0, om0 = ivar.copy(), ormask.copy()
    try:
        out = skymask(ivar, andmask, ormask, ngrow=sc0(c['ngrow'], v, int))
    except Exception as ex:
        return {'err': True, 'exc': exc_name(ex), 'out': None}
    out = np.asarray(out)
    if out.shape != ivar.shape:
        return {'err': True, 'exc': 'output shape %r' % (out.shape,), 'out': None}
    if not (np.array_equal(ivar, iv0) and np.array_equal(ormask, om0)):
        return {'err': True, 'exc': 'input array modified in place', 'out': None}
    return {'err': False, 'exc': '', 'out': out}


def sky_judge(exp, obs):
    if obs['err']:
        return 'raised ' + obs['exc']
    want = np.array(exp['val'], dtype='d')
    got = np.asarray(obs['out'], dtype='d')
    if not np.array_equal(got, want):
        where = np.argwhere(got != want)
        r, p = (int(v) for v in where[0])
        return 'result differs at %d pixel(s), first (row %d, pixel %d): %r, specified %r' % (
            len(where), r + 1, p + 1, float(got[r, p]), float(want[r, p]))
    return ''


def sky_classify(dtype, obs, c=None, how='C'):
    if c is not None and not obs['err'] and ((vp(how)[3] == 'u1' and c['ngrow'] >= 128) or (vp(how)[3] == 'i1' and c['ngrow'] >= 64)):
        return 'D-C17-5'      # width = 2*ngrow + 1 overflows a numpy.uint8 ngrow
    if dtype in ('int16', 'int32', 'int64') and obs['err'] and obs['exc'].startswith('TypeError'):
        return 'D-C17-2'
    return None


# ----------------------------------------------------------------------------------------------
# one spec case -> all conventions; returns list of (conv, why, obs, finding)
# ----------------------------------------------------------------------------------------------
def run_case(ctx, c, exp, idx=0, deferred=None, lv=None):
    kind = c['kind']
    res = []
    lv = lv or variant_of(ctx.seed, c)
    if kind in ('reject', 'rejnum'):
        for conv in reject_convs(c):
            for use_none in ((False, True) if ((sum(c['inmask']) + sum(c['prev']) + c['grow'] + c['n']) % 2 == 0) else (True,)):
                obs = reject_call(c, conv, use_none, lv)
                why = reject_judge(c, exp, obs)
                if why == 'defer':
                    if deferred is not None:
                        deferred.append((c, exp, conv + ('/None-masks' if use_none else '') + '@' + lv, reject_record(c, obs, conv)))
                    why = ''
                finding = reject_classify(c, exp, obs, lv) if why else None
                if finding in ('D-C17-3', 'D-C17-6') and reject_judge(c, exp, reject_call(c, conv, use_none, 'C')) not in ('', 'defer'):
                    finding = None      # the plain float64 / bool hand-over fails too: not explained by the variant
                res.append((conv + ('/None-masks' if use_none else '') + '@' + lv, why, obs, finding))
    elif kind in ('interp1', 'interpnd'):
        variants = ['nd-bool', 'nd-int'] if kind == 'interpnd' else ['interp1-int', 'interp1-bool', 'nd-int']
        for v in variants:
            obs = interp_call(c, v, lv)
            why = interp_judge(c, exp, obs)
            finding = int_finding(lv, kind='interp') if (why and kind == 'interpnd') else None
            if finding and interp_judge(c, exp, interp_call(c, v, 'C')):
                finding = None
            res.append((v + '@' + lv, why, obs, finding))
    elif kind == 'aesth':
        obs = aes_call(c, lv)
        res.append(('float64@' + lv, aes_judge(c, exp, obs), obs, None))
    elif kind == 'median':
        for dt in ('float64', int_dtype(c['a'], lv), 'float32'):
            obs = median_call(c['a'], c['w'], dt, lv)
            res.append((dt + '@' + lv, median_judge(exp, obs), obs, None))
    elif kind == 'median2':
        for dt in ('float64', int_dtype(c['A'], lv), 'float32'):
            obs = median_call(c['A'], c['w'], dt, lv)
            res.append((dt + '@' + lv, median_judge(exp, obs), obs, None))
    elif kind == 'sky':
        todo = [(dt, lv) for dt in sky_dtypes(c['flags'], lv)]
        if c['ngrow'] >= 63:      # 2*ngrow+1 leaves the range of the 8-bit integer that may carry ngrow
            parts = vp(lv)
            todo += [('int32', '.'.join(parts[:3] + [f])) for f in ('u1', 'i1') if c['ngrow'] <= (255 if f == 'u1' else 127)]
        for dt, how in todo:
            obs = sky_call(ctx, c, dt, how)
            why = sky_judge(exp, obs)
            res.append((dt + '@' + how, why, obs, sky_classify(dt, obs, c, how) if why else None))
    else:
        raise core.MachineryError('unknown case kind %r' % kind)
    return res


def nontrivial(c, exp):
    k = c['kind']
    if k in ('reject', 'rejnum'):
        return len(exp['gmax']) < c['n']
    if k in ('interp1', 'interpnd'):
        return 0 < len(c['bad']) < len(c['y'])
    if k == 'aesth':
        return 0 < sum(1 for v in c['ivar'] if v == 0) < len(c['ivar'])
    if k == 'median':
        return c['w'] > 1 and len(set(c['a'])) > 1
    if k == 'median2':
        return len({v for row in c['A'] for v in row}) > 1
    if k == 'sky':
        return exp['val'] != c['ivar']
    return False


def obs_json(obs):
    o = dict(obs)
    if isinstance(o.get('out'), np.ndarray):
        o['out'] = [float(v) if np.isfinite(v) else repr(float(v)) for v in o['out'].reshape(-1)]
    return o


class Reporter:
    """At most `per_class` VIOLATION lines / replay files per failure class (a defect such as an
    ignored option fails tens of thousands of enumerated cases)."""

    def __init__(self, ctx, per_class=3):
        self.ctx = ctx
        self.per = per_class
        self.count = {}

    def report(self, cls, case, finding=None):
        n = self.count.get(cls, 0) + 1
        self.count[cls] = n
        if n <= self.per:
            self.ctx.violation(case, finding=finding)

    def summary(self):
        for cls, n in sorted(self.count.items()):
            print('C17 failure class %-60s %d case(s)' % (cls, n), flush=True)


def fail_class(kind, conv, why, finding):
    if finding:
        return '%s %s' % (kind, finding)
    head = why.split(':')[0] if why.startswith('raised') else why.split(' ')[0]
    return '%s %s %s' % (kind, conv.split('@')[0].split('/')[0], head)


# ----------------------------------------------------------------------------------------------
# code -> spec: recorded calls
# ----------------------------------------------------------------------------------------------
def fr(fraction):
    return [fraction.numerator, fraction.denominator]


def rec_reject(rng, n_chain=3):
    """A short chain of real djs_reject calls on one data set, the output mask fed back in."""
    from pydl.pydlutils.math import djs_reject
    n = rng.randint(1, 12)
    sig_choices = [Fraction(1, 2), Fraction(1), Fraction(2), Fraction(4), Fraction(1, 4)]
    mode = rng.choice(['sigma', 'sigma', 'invvar', 'sigma-scalar'])
    if mode == 'sigma-scalar':
        sig = [rng.choice(sig_choices + [Fraction(0)])] * n
    else:
        sig = [rng.choice(sig_choices) for _ in range(n)]
        if mode == 'sigma' and rng.random() < 0.5:          # exactly known points: sigma = 0
            sig = [Fraction(0) if rng.random() < 0.3 else v for v in sig]
    zero_w = [mode == 'invvar' and rng.random() < 0.1 for _ in range(n)]
    grid = rng.random() < 0.45          # everything on an integer grid, so that integer-typed arrays can carry it
    if grid:
        sig = [s if s.denominator == 1 else Fraction(2) for s in sig]
        if mode == 'invvar':
            sig = [Fraction(1) for _ in sig] if rng.random() < 0.5 else [rng.choice([Fraction(1), Fraction(1, 2)]) for _ in sig]
    lims = {}
    for name, choices in (('lower', [None, 0, 1, Fraction(5, 2), 5]), ('upper', [None, 0, 2, Fraction(7, 2), 5]),
                          ('maxdev', [None, 3, Fraction(15, 2), 12])):
        lims[name] = rng.choice([x for x in choices if not grid or x is None or Fraction(x).denominator == 1])
    den = 1 if grid else 4
    off = 40 if (grid and rng.random() < 0.7) else 0          # non-negative data and model: unsigned types apply
    model = [Fraction(rng.randint(-20, 20), den) + off for _ in range(n)]
    diff = []
    for k in range(n):
        p = rng.random()
        if p < 0.15:
            d = Fraction(0)
        elif p < 0.45:
            d = Fraction(rng.randint(-12, 12), den)
        elif p < 0.75:
            d = Fraction(rng.randint(-100, 100), 4) if not grid else Fraction(rng.randint(-20, 25))
        else:     # exactly on / one step beyond a threshold
            lim = rng.choice([v for v in lims.values() if v is not None] or [1])
            d = Fraction(lim) * (sig[k] if rng.random() < 0.7 else 1) * rng.choice([-1, 1]) + Fraction(rng.choice([-1, 0, 0, 1]), den)
            if grid:
                d = Fraction(max(-20, min(25, int(d))))
        diff.append(d)
    data = [m + d for m, d in zip(model, diff)]
    inmask = [k + 1 for k in range(n) if rng.random() < 0.8]
    prev = [k + 1 for k in range(n) if rng.random() < 0.8] if rng.random() < 0.6 else list(range(1, n + 1))
    sticky = rng.random() < 0.5
    grow = rng.choice([0, 0, 1, 1, 2, 3, 4])
    pass_inmask = rng.random() < 0.8 or len(inmask) < n
    v = random_variant(rng)       # layout, numeric type, mask dtype ("a value that evaluates to False" marks bad points), scalars
    recs = []
    for _ in range(n_chain):
        kw = {}
        if mode == 'invvar':
            scale = [Fraction(0) if z else 1 / s for s, z in zip(sig, zero_w)]
            kw['invvar'] = arr(np.array([float(s * s) for s in scale], dtype='d'), v)
            recmode = 'weight'
        else:
            scale = sig
            kw['sigma'] = (sc0(int(sig[0]) if sig[0].denominator == 1 else float(sig[0]), v) if mode == 'sigma-scalar'
                           else arr(np.array([float(s) for s in sig], dtype='d'), v))
            recmode = 'sigma'
        for name, lim in lims.items():
            if lim is not None:
                kw[name] = sc0(float(lim) if Fraction(lim).denominator != 1 else int(lim), v)
        if pass_inmask:
            kw['inmask'] = marr(posmask(n, inmask), v)
        if len(prev) < n or rng.random() < 0.7:
            kw['outmask'] = marr(posmask(n, prev), v)
        d_arr = arr(np.array([float(x) for x in data], dtype='d'), v)
        m_arr = arr(np.array([float(x) for x in model], dtype='d'), v)
        obs = reject_observe(lambda: djs_reject(d_arr, m_arr, sticky=sticky, grow=sc0(grow, v, int), **kw), n)
        recs.append({'kind': 'reject', 'n': n, 'data': [fr(v) for v in data], 'model': [fr(v) for v in model],
                     'mode': recmode, 'scale': [fr(v) for v in scale],
                     'lower': [fr(Fraction(lims['lower']))] if lims['lower'] is not None else [],
                     'upper': [fr(Fraction(lims['upper']))] if lims['upper'] is not None else [],
                     'maxdev': [fr(Fraction(lims['maxdev']))] if lims['maxdev'] is not None else [],
                     'inmask': inmask if pass_inmask else list(range(1, n + 1)), 'prev': list(prev),
                     'sticky': sticky, 'grow': grow, 'err': obs['err'], 'exact': True, 'out': obs['out'],
                     'qdone': obs['qdone'], 'exc': obs['exc'], 'how': v})
        if obs['err'] or obs['qdone']:
            break
        prev = obs['out']
    return recs


def rec_interp(rng):
    nd = rng.choice([1, 1, 2, 2, 3])
    shape = [rng.randint(1, 10)] if nd == 1 else [rng.randint(1, 4) for _ in range(nd)]
    size = int(np.prod(shape))
    axis = rng.randint(0, nd - 1)
    grid = rng.random() < 0.5
    y = [Fraction(rng.randint(0 if grid else -8, 8), 1 if grid else rng.choice([1, 1, 2, 4])) for _ in range(size)]
    dens = rng.choice([0.0, 0.2, 0.5, 0.8, 1.0])
    bad = [p + 1 for p in range(size) if rng.random() < dens]
    if rng.random() < 0.5:
        xs = rng.sample(range(-40, 60), size)
        if rng.random() < 0.4:
            xs.sort()
        x = [Fraction(v) for v in xs]
        if rng.random() < 0.3:
            x = [v / 2 for v in x]
    else:
        x = []
    const = rng.random() < 0.5
    variant = rng.choice(['interp1-int', 'interp1-bool']) if (nd == 1 and rng.random() < 0.5) else rng.choice(['nd-int', 'nd-bool'])
    c = {'y': [fr(v) for v in y], 'bad': bad, 'x': [fr(v) for v in x], 'const': const, 'shape': shape, 'axis': axis}
    how = random_variant(rng)
    obs = interp_call(c, variant, how)
    out, exact = [], True
    if not obs['err']:
        for p, v in enumerate(obs['out']):
            q = exact_rat(v) if (p + 1) not in set(bad) else rat(v)
            if q is None:
                exact = False
                q = [0, 1]
            out.append(q)
    return {'kind': 'interp', 'shape': shape, 'axis': axis, 'y': c['y'], 'bad': bad, 'x': c['x'], 'const': const,
            'variant': variant, 'err': obs['err'], 'exact': exact, 'out': out, 'exc': obs['exc'], 'how': how}


def rec_aes(rng):
    n = rng.randint(1, 10)
    grid = rng.random() < 0.5
    flux = [Fraction(rng.randint(-8, 8), 1 if grid else rng.choice([1, 2])) for _ in range(n)]
    dens = rng.choice([0.0, 0.3, 0.6, 1.0])
    ivar = [0 if rng.random() < dens else rng.randint(1, 3) for _ in range(n)]
    method = rng.choice(['traditional', 'noconst', 'mean', 'nothing'])
    c = {'flux': [fr(v) for v in flux], 'ivar': ivar, 'method': method}
    how = random_variant(rng)
    obs = aes_call(c, how)
    out, exact = [], True
    allbad_mean = method == 'mean' and (all(v == 0 for v in ivar) or obs.get('intflux'))
    if not obs['err']:
        for p, v in enumerate(obs['out']):
            q = exact_rat(v) if ivar[p] != 0 else rat(v)
            if q is None:
                if not allbad_mean:        # the value there is left open by the specification
                    exact = False
                q = [0, 1]
            out.append(q)
    return {'kind': 'aesth', 'flux': c['flux'], 'ivar': ivar, 'method': method, 'err': obs['err'], 'exact': exact,
            'out': out, 'exc': obs['exc'], 'how': how, 'fillopen': bool(method == 'mean' and obs.get('intflux'))}


def rec_median(rng):
    if rng.random() < 0.7:
        n = rng.randint(1, 12)
        w = rng.choice([v for v in (1, 3, 5, 7, 9) if v <= n])
        a = [rng.randint(-5, 5) for _ in range(n)]
        how = random_variant(rng)
        obs = median_call(a, w, rng.choice(['float64', int_dtype(a, how)]), how)
        rec = {'kind': 'median', 'a': a, 'w': w}
    else:
        nr, nc = rng.randint(3, 5), rng.randint(3, 5)
        w = 3
        a = [[rng.randint(-3, 3) for _ in range(nc)] for _ in range(nr)]
        how = random_variant(rng)
        obs = median_call(a, w, rng.choice(['float64', int_dtype(a, how)]), how)
        rec = {'kind': 'median2', 'A': a, 'w': w}
    exact = True
    out = []
    if not obs['err']:
        o = np.asarray(obs['out'], dtype='d')
        if not np.all(np.isfinite(o)) or not np.all(o == np.round(o)):
            exact = False
        else:
            out = o.astype(int).tolist()
    rec.update({'err': obs['err'], 'exact': exact, 'out': out, 'exc': obs['exc'], 'how': how})
    return rec


def rec_sky(ctx, rng):
    tbl = rng.choice([{'BADSKYCHI': 27, 'REDMONSTER': 28, 'O1': 26, 'O2': 29, 'O3': 0, 'O4': 23},
                      {'BADSKYCHI': 3, 'REDMONSTER': 13, 'O1': 14, 'O2': 4, 'O3': 2, 'O4': 12},
                      {'BADSKYCHI': 30, 'REDMONSTER': 0, 'O1': 1, 'O2': 29, 'O3': 16, 'O4': 15}])
    names = sorted(tbl)
    wide = rng.random() < 0.35
    if wide:      # wide windows, a few isolated flagged pixels (anywhere, row ends included)
        ngrow = rng.randint(0, 60 if ctx.quick else 130)
        nr, L = rng.randint(1, 2), 2 * ngrow + 3 + rng.randint(0, 12)
        flags = []
        for _ in range(nr):
            row = [[] for _ in range(L)]
            for pos in rng.sample(range(L), min(L, rng.choice([1, 1, 2]))) + rng.sample([0, L - 1], rng.choice([0, 0, 1])):
                row[pos] = sorted({tbl[rng.choice(['BADSKYCHI', 'REDMONSTER'])]} | ({tbl['O1']} if rng.random() < 0.3 else set()))
            for pos in rng.sample(range(L), min(L, 3)):
                if not row[pos]:
                    row[pos] = [tbl[rng.choice(['O1', 'O2', 'O3', 'O4'])]]
            flags.append(row)
    else:
        nr, L = rng.randint(1, 3), rng.randint(1, 12)
        ngrow = rng.choice([0, 1, 2, 2, 3, 5])
        dens = rng.choice([0.0, 0.1, 0.3])
        flags = []
        for _ in range(nr):
            row = []
            for _ in range(L):
                bits = set()
                if rng.random() < dens:
                    bits.add(tbl[rng.choice(['BADSKYCHI', 'REDMONSTER'])])
                for nm in names:
                    if nm.startswith('O') and rng.random() < 0.25:
                        bits.add(tbl[nm])
                row.append(sorted(bits))
            flags.append(row)
    ivar = [[rng.choice([0, 1, 2, 3, 7]) for _ in range(L)] for _ in range(nr)]
    c = {'tbl': tbl, 'ngrow': ngrow, 'ivar': ivar, 'flags': flags}
    how = random_variant(rng)
    dtype = rng.choice(sky_dtypes(flags, how))
    obs = sky_call(ctx, c, dtype, how)
    out, exact = [], True
    if not obs['err']:
        o = np.asarray(obs['out'], dtype='d')
        if not np.all(np.isfinite(o)) or not np.all(o == np.round(o)):
            exact = False
        else:
            out = o.astype(int).tolist()
    return {'kind': 'sky', 'tbl': {'BADSKYCHI': tbl['BADSKYCHI'], 'REDMONSTER': tbl['REDMONSTER']}, 'fulltbl': tbl,
            'ngrow': ngrow, 'ivar': ivar, 'flags': flags, 'dtype': dtype, 'how': how, 'err': obs['err'], 'exact': exact,
            'out': out, 'exc': obs['exc']}


# ---- pairs of calls on the same values in two memory layouts (spec section 6) -------------------
def _vals(obs):
    """abstracted outcome of an array-valued call: exact textual image of every output value."""
    if obs['err']:
        return {'err': True, 'out': [], 'exc': obs['exc']}
    return {'err': False, 'out': [repr(float(x)) for x in np.asarray(obs['out'], dtype='d').reshape(-1)], 'exc': ''}


def layout_exec(ctx, fn, args, v):
    if fn == 'interp':
        return _vals(interp_call(args, args['variant'], v))
    if fn == 'aesth':
        if args['method'] == 'mean':      # integer flux: the 'mean' fill keeps the flux dtype (not asserted)
            parts = vp(v)
            v = '.'.join([parts[0], 'f8'] + parts[2:])
        return _vals(aes_call(args, v))
    if fn == 'median':
        return _vals(median_call(args['a'], args['w'], args['dtype'], v))
    if fn == 'sky':
        return _vals(sky_call(ctx, args, args['dtype'], v))
    raise core.MachineryError('layout_exec: ' + fn)


def rec_layout(ctx, rng):
    fn = rng.choice(['interp', 'interp', 'aesth', 'median', 'median', 'sky'])
    if fn == 'interp':
        nd = rng.choice([1, 2, 2, 3, 3])
        shape = [rng.randint(2, 8)] if nd == 1 else [rng.randint(2, 4) for _ in range(nd)]
        size = int(np.prod(shape))
        x = [[v, 1] for v in rng.sample(range(-30, 60), size)] if rng.random() < 0.5 else []
        args = {'shape': shape, 'axis': rng.randint(0, nd - 1), 'y': [[rng.randint(-8, 8), 1] for _ in range(size)],
                'bad': [p + 1 for p in range(size) if rng.random() < 0.4], 'x': x, 'const': rng.random() < 0.5,
                'variant': rng.choice(['nd-int', 'nd-bool'])}
        rank = nd
    elif fn == 'aesth':
        n = rng.randint(2, 9)
        args = {'flux': [[rng.randint(-8, 8), 1] for _ in range(n)], 'ivar': [0 if rng.random() < 0.4 else 2 for _ in range(n)],
                'method': rng.choice(['traditional', 'noconst', 'mean', 'nothing'])}
        rank = 1
    elif fn == 'median':
        if rng.random() < 0.5:
            n = rng.randint(3, 11)
            args = {'a': [rng.randint(-5, 5) for _ in range(n)], 'w': rng.choice([w for w in (3, 5, 7) if w <= n]),
                    'dtype': rng.choice(['float64', 'int64', 'float32'])}
            rank = 1
        else:
            nr, nc = rng.randint(3, 5), rng.randint(3, 5)
            args = {'a': [[rng.randint(-3, 3) for _ in range(nc)] for _ in range(nr)], 'w': 3, 'dtype': 'float64'}
            rank = 2
    else:
        tbl = {'BADSKYCHI': 27, 'REDMONSTER': 28, 'O1': 26, 'O2': 29}
        nr, L = rng.randint(2, 4), rng.randint(3, 14)
        flags = [[sorted({tbl[rng.choice(sorted(tbl))]}) if rng.random() < 0.2 else [] for _ in range(L)] for _ in range(nr)]
        args = {'tbl': tbl, 'ngrow': rng.choice([0, 1, 2, 3, 24]), 'ivar': [[rng.randint(0, 7) for _ in range(L)] for _ in range(nr)],
                'flags': flags, 'dtype': rng.choice(['int32', 'int64', 'uint64'])}
        rank = 2
    choices = ['F', 'F', 'strided', 'ro', 'swap'] if rank >= 2 else ['strided', 'ro', 'swap']
    if fn == 'median' and rank == 1:
        choices = ['strided', 'ro']
    la, lb = 'C', '.'.join([rng.choice(choices), rng.choice(TYPES), rng.choice(MASKTYPES), rng.choice(SFORMS), rng.choice(MVALS)])
    return {'kind': 'layout', 'fn': fn, 'la': la, 'lb': lb, 'args': args,
            'a': layout_exec(ctx, fn, args, la), 'b': layout_exec(ctx, fn, args, lb)}


def rejnd_exec(args, grow, v):
    from pydl.pydlutils.math import djs_reject
    shape = tuple(args['shape'])
    data = np.array([fl(q) for q in args['data']], dtype='d').reshape(shape)
    model = np.array([fl(q) for q in args['model']], dtype='d').reshape(shape)
    scale = np.array([float(x) for x in args['scale']], dtype='d').reshape(shape)
    kw = {args['mode']: arr(scale, v), 'lower': sc0(args['lower'], v), 'upper': sc0(args['upper'], v), 'grow': sc0(grow, v, int)}
    if args['inmask']:
        kw['inmask'] = marr(np.ones(shape, dtype=bool), v)
    try:
        out, qdone = djs_reject(arr(data, v), arr(model, v), **kw)
    except Exception as ex:
        return {'err': True, 'exc': exc_name(ex), 'out': [], 'qdone': False}
    out = np.asarray(out)
    if out.shape != shape or not isinstance(qdone, (bool, np.bool_)):
        return {'err': True, 'exc': 'output shape %r / qdone %r' % (out.shape, type(qdone).__name__), 'out': [], 'qdone': False}
    flat = np.ascontiguousarray(out).reshape(-1)
    return {'err': False, 'exc': '', 'out': [p + 1 for p in range(flat.size) if not flat[p]], 'qdone': bool(qdone)}


def rec_rejnd(rng):
    """djs_reject on rank 2 / 3 data, every point eligible, no previous mask: grow = 0 (plain layout) and
    grow = g in two layouts.  Nothing is asserted about which neighbourhood is grown."""
    nd = rng.choice([2, 2, 3])
    shape = [rng.randint(3, 5), rng.randint(3, 7)] if nd == 2 else [3, rng.randint(3, 4), rng.randint(3, 4)]
    size = int(np.prod(shape))
    grid = rng.random() < 0.5            # integer grid, non-negative: every numeric type can carry it
    model = [Fraction(rng.randint(-8, 8), 1 if grid else 4) + (40 if grid else 0) for _ in range(size)]
    diff = [Fraction(rng.randint(-4, 4), 1 if grid else 4) for _ in range(size)]
    interior = [p for p in range(size) if all(0 < c < n - 1 for c, n in zip(np.unravel_index(p, shape), shape))]
    outliers = [rng.choice(interior)] + ([rng.randrange(size)] if rng.random() < 0.4 else [])
    if rng.random() < 0.15:
        outliers = []
    for p in outliers:
        diff[p] = Fraction(rng.choice([-30, 30]))
    args = {'shape': shape, 'data': [fr(m + d) for m, d in zip(model, diff)], 'model': [fr(m) for m in model],
            'mode': rng.choice(['sigma', 'invvar']), 'scale': [rng.choice([1, 1, 4]) for _ in range(size)], 'lower': 5, 'upper': 5,
            'inmask': rng.random() < 0.5}
    grow = rng.randint(0, 3)
    la = rng.choice(['C', 'ro'])
    lb = '.'.join([rng.choice(['F', 'F', 'F', 'strided', 'swap']), rng.choice(TYPES), rng.choice(MASKTYPES), rng.choice(SFORMS), rng.choice(MVALS)])
    r0 = rejnd_exec(args, 0, 'C')
    return {'kind': 'rejnd', 'shape': shape, 'grow': grow, 'rej0': r0['out'], 'err0': r0['err'], 'la': la, 'lb': lb, 'args': args,
            'a': rejnd_exec(args, grow, la), 'b': rejnd_exec(args, grow, lb)}


def falsify(accepted, rng, per_kind):
    """Copies of accepted records with one observed field changed beyond tolerance (a mask bit, a completion flag, a
    value, an outcome of one of two layouts)."""
    import copy
    out, count = [], {}
    order = list(range(len(accepted)))
    rng.shuffle(order)
    for k in order:
        r = copy.deepcopy(accepted[k])
        kind = r['kind']
        if count.get(kind, 0) >= per_kind or r.get('err') or not r.get('exact', True):
            continue
        if kind == 'reject':
            if r['grow'] == 0 and rng.random() < 0.5:        # grow = 0: the mask is determined; flip one bit, keep qdone coherent
                p = rng.randint(1, r['n'])
                r['out'] = sorted(set(r['out']) ^ {p})
                r['qdone'] = r['out'] == sorted(r['prev'])
            else:
                r['qdone'] = not r['qdone']
        elif kind == 'interp':
            if not r['out']:
                continue
            p = rng.randrange(len(r['out']))
            r['out'][p] = [r['out'][p][0] + r['out'][p][1], r['out'][p][1]]      # value + 1
        elif kind == 'aesth':
            cand = [p for p in range(len(r['out'])) if r['ivar'][p] != 0 or not (r['fillopen'] or all(v == 0 for v in r['ivar']))]
            if not cand:
                continue
            p = rng.choice(cand)
            r['out'][p] = [r['out'][p][0] + r['out'][p][1], r['out'][p][1]]
        elif kind == 'median':
            r['out'][rng.randrange(len(r['out']))] += 1
        elif kind == 'median2':
            r['out'][rng.randrange(len(r['out']))][rng.randrange(len(r['out'][0]))] += 1
        elif kind == 'sky':
            q, p = rng.randrange(len(r['out'])), rng.randrange(len(r['out'][0]))
            r['out'][q][p] = r['ivar'][q][p] + 1           # neither 0 nor the input value
        elif kind == 'layout':
            if not r['b']['out']:
                continue
            r['b']['out'][rng.randrange(len(r['b']['out']))] = 'falsified'
        elif kind == 'rejnd':
            if rng.random() < 0.5:
                r['b']['qdone'] = not r['b']['qdone']
            else:
                size = int(np.prod(r['shape']))
                r['b']['out'] = sorted(set(r['b']['out']) ^ {rng.randint(1, size)})
        count[kind] = count.get(kind, 0) + 1
        out.append(r)
    return out


def rec_nontrivial(r):
    k = r['kind']
    if k == 'layout':
        return r['a']['out'] != [] and r['la'] != r['lb']
    if k == 'rejnd':
        return r['grow'] > 0 and len(r['rej0']) > 0
    if k == 'reject':
        return len(r['out']) < r['n'] or r['err']
    if k == 'interp':
        return 0 < len(r['bad']) < len(r['y'])
    if k == 'aesth':
        return 0 < sum(1 for v in r['ivar'] if v == 0) < len(r['ivar'])
    if k == 'median':
        return r['w'] > 1
    if k == 'median2':
        return True
    if k == 'sky':
        return any(set(px) & {r['tbl']['BADSKYCHI'], r['tbl']['REDMONSTER']} for row in r['flags'] for px in row)
    return False


def rec_classify(r, why=''):
    if r['kind'] == 'reject' and int_finding(r.get('how'), r.get('exc', '')):
        return int_finding(r.get('how'), r.get('exc', ''))
    if r['kind'] == 'interp' and len(r['shape']) > 1 and int_finding(r.get('how'), kind='interp') and 'masked sample' in why:
        return 'D-C17-4'
    if r['kind'] == 'rejnd' and int_finding(r['lb'], r['b'].get('exc', '')):
        return int_finding(r['lb'], r['b'].get('exc', ''))
    if r['kind'] == 'layout' and r['fn'] == 'interp' and len(r['args']['shape']) > 1 and int_finding(r['lb'], kind='interp'):
        return 'D-C17-4'
    if r['kind'] == 'reject' and r['err'] and r['grow'] >= 2 and r['exc'].startswith('IndexError'):
        return 'D-C17-1'
    if r['kind'] == 'reject' and 'Dev_GrowIgnored' in why:
        return 'D-C17-1'
    if r['kind'] == 'sky' and not r['err'] and vp(r.get('how'))[3] == 'u1' and r['ngrow'] >= 128:
        return 'D-C17-5'
    if r['kind'] == 'sky' and r['err'] and r['dtype'] in ('int16', 'int32', 'int64') and r['exc'].startswith('TypeError'):
        return 'D-C17-2'
    return None


def strip(r):
    """The part of a record that goes to TLC (JSON: no floats, no free text needed there)."""
    if r['kind'] in ('layout', 'rejnd'):
        ab = {k: {f: x for f, x in r[k].items() if f != 'exc'} for k in ('a', 'b')}
        return dict({k: v for k, v in r.items() if k in ('kind', 'shape', 'grow', 'rej0')}, **ab)
    return {k: v for k, v in r.items() if k not in ('exc', 'variant', 'fulltbl', 'const', 'how')}


# ----------------------------------------------------------------------------------------------
def run(ctx):
    ctx.level = 'model_checking'
    ctx.rule = ('every state of MC_Reject with a call is one case (function, arguments) replayed in every applicable '
                'calling convention; non-trivial = the specified result differs from the input (a point rejected, a sample '
                'interpolated, a pixel zeroed, a non-constant window); recorded calls = seeded random/adversarial calls of '
                'the real functions judged by Trace_Reject')
    ctx.assumptions = [
        'djs_reject: 1-D data; maxrej/group* options and the internally estimated sigma are outside the statement',
        'djs_reject units: beyond lower iff diff < -lower*sigma (IDL), so sigma = 0 rejects every non-zero residual of that '
        'sign and keeps a zero residual; invvar = 0 is never beyond lower/upper',
        'grow: any mask between "neighbours of points rejected by the residual tests of this call" (IDL) and '
        '"neighbours of every rejected point" is accepted (statement does not choose)',
        'djs_maskinterp axis k counts from the fastest-varying dimension (numpy axis ndim-1-k) as IDL and filter_thru do; '
        'x values pairwise distinct along a line; float64 samples',
        'reflect median: odd width <= array length (IDL MEDIAN domain); 2-D: width 3',
        'skymask: mask values whose set bits fit the dtype below its sign bit; two generated SPPIXMASK tables; '
        'every ngrow 0..60 (quick) / 0..130 (thorough) on rows holding the whole window with isolated flagged pixels',
        'abstraction: floats <-> rationals with 1e-12 relative tolerance on interpolated / mean values, exact elsewhere',
        'layout independence (spec section 6): every case is handed over in one of the variants plain / read-only / strided view / '
        'Fortran-ordered transposed view / byte-swapped / 0-d scalars, rotated by seed, expected values unchanged; pairs of calls '
        'in two layouts are judged equal by TLC; djs_reject on rank 2-3 data: only layout independence, grow superset and the '
        'completion flag are asserted (the N-d neighbourhood is left open)',
        'numeric type (spec section 6): every numeric array argument with integral values is also handed over as int64 / int32 / '
        'int16 / uint16 / uint8 (as the values fit), masks as bool and every integer width (0/1 values), scalar arguments as '
        'Python numbers, numpy scalars (incl. uint8) and 0-d arrays, rotated by seed; expected values unchanged',
        'aesthetics with integer-typed flux and method mean: only WHERE flux changes is asserted (the result keeps the flux dtype, '
        'the fill is the truncated mean; the statement does not fix the fill value)',
        'mask values: a good point of djs_reject (a masked sample of djs_maskinterp) is any non-zero value - 1, 2, only the top '
        '(sign) bit of the dtype, -1 - in every integer width; skymask mask values with the top bit of their own dtype set '
        '(negative values of int8/int16/int32/int64), alone, with other bits, with the flag bits, and -1',
        'not in the statement: maxrej / groupsize / groupdim of djs_reject (maxrej is silently without effect when groupdim is not given)']
    rep = Reporter(ctx)
    groups = [['rejnum', 'interp1', 'interpnd', 'aesth', 'median', 'median2', 'sky', 'skywide', 'skytop'], ['reject']]
    if ctx.quick:
        groups = [ALL_FAMILIES]
    idx = 0
    deferred = []
    for fams in groups:
        cfg = os.path.join(ctx.scratch, 'MC_Reject_%s_%s.cfg' % (ctx.tier, fams[0]))
        with open(ctx._find('MC_Reject_%s.cfg' % ctx.tier)) as fh:
            text = fh.read()
        if not ctx.quick:
            lines = [ln for ln in text.splitlines() if not ln.startswith('CONSTANT Families')]
            text = 'CONSTANT Families = {%s}\n' % ', '.join('"%s"' % f for f in fams) + '\n'.join(lines) + '\n'
        with open(cfg, 'w') as fh:
            fh.write(text)
        r = ctx.tlc('MC_Reject.tla', cfg, dump=True, timeout=2400,
                    label='MC_Reject_%s.cfg[%s]' % (ctx.tier, ','.join(fams)))
        for st in core.iter_states(r):
            c = st['c']
            if c['kind'] == 'root' or c['kind'].startswith('seed'):
                continue
            c, exp = jsonable(c), jsonable(st['exp'])
            idx += 1
            if nontrivial(c, exp):
                ctx.nontriv((c['kind'], idx))
            results = run_case(ctx, c, exp, idx, deferred)
            ctx.validated()
            ctx.evaluated(len(results), c['kind'])
            if idx % 997 == 1:
                ctx.sample({'call': c, 'expected': exp, 'convention': results[0][0], 'observed': obs_json(results[0][2])})
            for conv, why, obs, finding in results:
                if why:
                    rep.report(fail_class(c['kind'], conv, why, finding),
                               {'what': '%s [%s] %s; call %s' % (c['kind'], conv, why, brief(c)),
                                'kind': c['kind'], 'call': c, 'conv': conv, 'expected': exp, 'observed': obs_json(obs)},
                               finding=finding)
    # deferred djs_reject verdicts (result strictly between the two accepted readings): TLC decides
    if deferred:
        recs = [d[3] for d in deferred]
        bad = core.validate_records(ctx, 'Trace_Reject', recs, label='Trace_Reject(deferred)')
        for k in sorted(bad):
            c, exp, conv, rec = deferred[k]
            base, how = conv.split('@')[0], conv.split('@')[1]
            finding = int_finding(how)
            if finding and reject_judge(c, exp, reject_call(c, base.split('/')[0], base.endswith('None-masks'), 'C')) not in ('', 'defer'):
                finding = None
            rep.report('reject deferred ' + (finding or bad[k]), {'what': 'reject [%s] %s; call %s' % (conv, bad[k], brief(c)),
                                                                  'kind': c['kind'], 'call': c, 'conv': conv, 'expected': exp,
                                                                  'record': rec}, finding=finding)
    # ---- code -> spec ------------------------------------------------------------------------
    rng = random.Random(ctx.seed)
    scale = 1 if ctx.quick else 8
    recs = []
    for _ in range(220 * scale):
        recs.extend(rec_reject(rng))
    for _ in range(350 * scale):
        recs.append(rec_interp(rng))
    for _ in range(150 * scale):
        recs.append(rec_aes(rng))
    for _ in range(200 * scale):
        recs.append(rec_median(rng))
    for _ in range(200 * scale):
        recs.append(rec_sky(ctx, rng))
    for _ in range(250 * scale):
        recs.append(rec_rejnd(rng))
    for _ in range(250 * scale):
        recs.append(rec_layout(ctx, rng))
    bad = core.validate_records(ctx, 'Trace_Reject', [strip(r) for r in recs])
    ctx.evaluated(len(recs), 'recorded')
    ctx.validated(len(recs))
    for k, r in enumerate(recs):
        if rec_nontrivial(r):
            ctx.nontriv(('rec', k))
    for k in sorted(bad):
        r = recs[k]
        finding = rec_classify(r, bad[k])
        exc = r.get('exc') or ' / '.join(x for x in (r.get('a', {}).get('exc'), r.get('b', {}).get('exc')) if x)
        why = bad[k] + ((' (' + exc + ')') if exc else '')
        rep.report('recorded %s %s' % (r['kind'], finding or bad[k]),
                   {'what': 'recorded %s call rejected by Trace_Reject: %s; %s' % (r['kind'], why, brief(r)),
                    'kind': 'recorded', 'record': r}, finding=finding)
    # ---- binding self-test: accepted records with ONE observed field falsified must all be rejected ----
    fals = falsify([strip(r) for k, r in enumerate(recs) if k not in bad], random.Random(ctx.seed + 1), 40 if ctx.quick else 120)
    core.binding_selftest(ctx, 'Trace_Reject', fals, 'recorded_calls')
    ctx.sample({'recorded_call': recs[0]})
    ctx.sample({'recorded_call': next(r for r in recs if r['kind'] == 'sky')})
    rep.summary()
    ctx.exhaustive = not ctx.quick


def brief(c):
    keys = ('n', 'diff', 'data', 'mode', 'scale', 'lower', 'upper', 'maxdev', 'inmask', 'prev', 'sticky', 'grow', 'shape',
            'axis', 'method', 'w', 'pat', 'tbl', 'ngrow', 'dtype', 'y', 'bad', 'x', 'const', 'flux', 'ivar', 'a', 'A', 'flags',
            'out', 'qdone')
    if 'args' in c:      # a pair of calls in two layouts
        head = ', '.join('%s=%s' % (k, c[k]) for k in ('fn', 'la', 'lb', 'grow', 'rej0') if k in c)
        outs = 'a=%s, b=%s' % (c['a'].get('out'), c['b'].get('out'))
        return (head + ', ' + outs + ', ' + brief(c['args'])).replace(' ', '')[:330]
    s = ', '.join('%s=%s' % (k, c[k]) for k in keys if k in c)
    return s.replace(' ', '')[:230]


# ----------------------------------------------------------------------------------------------
def replay_record(ctx, r):
    """Re-execute a recorded call from its arguments and let TLC judge the fresh observation."""
    from pydl.pydlutils.math import djs_reject
    k = r['kind']
    r = dict(r)
    if k == 'layout':
        r['a'], r['b'] = layout_exec(ctx, r['fn'], r['args'], r['la']), layout_exec(ctx, r['fn'], r['args'], r['lb'])
    elif k == 'rejnd':
        r['rej0'] = rejnd_exec(r['args'], 0, 'C')['out']
        r['a'], r['b'] = rejnd_exec(r['args'], r['grow'], r['la']), rejnd_exec(r['args'], r['grow'], r['lb'])
    elif k == 'reject':
        n = r['n']
        kw = {}
        sc = [Fraction(*q) for q in r['scale']]
        if r['mode'] in ('invvar', 'weight'):
            kw['invvar'] = np.array([float(s * s) for s in sc], dtype='d')
        else:
            kw['sigma'] = np.array([float(s) for s in sc], dtype='d')
        for name in ('lower', 'upper', 'maxdev'):
            if r[name]:
                kw[name] = num(r[name][0])
        how = r.get('how', 'C')
        for name in ('sigma', 'invvar'):
            if name in kw:
                kw[name] = arr(kw[name], how)
        kw['inmask'] = marr(posmask(n, r['inmask']), how)
        kw['outmask'] = marr(posmask(n, r['prev']), how)
        data = arr(np.array([fl(q) for q in r['data']], dtype='d'), how)
        model = arr(np.array([fl(q) for q in r['model']], dtype='d'), how)
        obs = reject_observe(lambda: djs_reject(data, model, sticky=r['sticky'], grow=r['grow'], **kw), n)
        r.update({'err': obs['err'], 'out': obs['out'], 'qdone': obs['qdone'], 'exc': obs['exc']})
    elif k == 'interp':
        obs = interp_call(r, r.get('variant', 'nd-int'), r.get('how', 'C'))
        r.update({'err': obs['err'], 'exc': obs['exc']})
        if not obs['err']:
            out = [rat(v) for v in obs['out']]
            r['exact'] = all(q is not None for q in out)
            r['out'] = [q or [0, 1] for q in out]
    elif k == 'aesth':
        obs = aes_call(r, r.get('how', 'C'))
        r.update({'err': obs['err'], 'exc': obs['exc']})
        if not obs['err']:
            out = [rat(v) for v in obs['out']]
            r['exact'] = all(q is not None for q in out)
            r['out'] = [q or [0, 1] for q in out]
    elif k in ('median', 'median2'):
        obs = median_call(r['a'] if k == 'median' else r['A'], r['w'], 'float64', r.get('how', 'C'))
        r.update({'err': obs['err'], 'exc': obs['exc']})
        if not obs['err']:
            r['out'] = np.asarray(obs['out']).astype(int).tolist()
    elif k == 'sky':
        obs = sky_call(ctx, {'tbl': r.get('fulltbl', r['tbl']), 'ngrow': r['ngrow'], 'ivar': r['ivar'], 'flags': r['flags']},
                       r['dtype'], r.get('how', 'C'))
        r.update({'err': obs['err'], 'exc': obs['exc']})
        if not obs['err']:
            r['out'] = np.asarray(obs['out']).astype(int).tolist()
    bad = core.validate_records(ctx, 'Trace_Reject', [strip(r)])
    return r, bad.get(0)


def replay(ctx, case):
    """bin/check C17 --replay <file>: re-execute the single failing call of a replay file."""
    ctx.level = 'model_checking'
    ctx.rule = 'single replayed case'
    ctx.nontriv('a')
    ctx.nontriv('b')
    ctx.evaluated(1)
    if case.get('kind') == 'recorded' or ('call' not in case and 'record' in case):
        r, why = replay_record(ctx, case['record'])
        print('replayed recorded call:', brief(r), '\nobserved err=%s %s\nTLC verdict: %s' % (r.get('err'), r.get('exc', ''), why or 'ok'))
        if why is not None:
            ctx.violation(dict(case, what='replay: ' + str(why)))
        return
    c, exp, conv = case['call'], case['expected'], case['conv']
    failed = []
    deferred = []
    base = conv.split('@')[0].split('/')[0]
    for cv, why, obs, finding in run_case(ctx, c, exp, 0, deferred, lv=conv.split('@')[1] if '@' in conv else 'C'):
        print('replayed %s [%s]: observed %s -> %s' % (c['kind'], cv, obs_json(obs), why or 'conforms'))
        if why and cv.split('@')[0].split('/')[0] == base:
            failed.append(why)
    if deferred:
        bad = core.validate_records(ctx, 'Trace_Reject', [d[3] for d in deferred])
        failed.extend(bad.values())
    print('expected (from TLC):', exp)
    if failed:
        ctx.violation(dict(case, what='replay: ' + failed[0]))
