"""X07 (growth unit) - sdss_sweep_circle: index-driven circle search of the SDSS data-sweep files, the module-level
index cache, inclusive row ranges, SURVEY_PRIMARY selection through sdss_flagval.

Spec: spec/SweepCircle.tla (statements S1..S8 in its header); MC: mc/MC_SweepCircle; Trace: trace/Trace_SweepCircle.

Everything the real function is given is a *history*: a list of trees (abstract sweep trees of the spec) and a list of
events, setenv(k) (PHOTO_SWEEP := a freshly materialised copy of tree k, or unset) and call(c).  A history starts in a
new process state (sweep_cache all None, PHOTO_SWEEP unset).

spec -> code: TLC enumerates (a) one state per tree of the bounded family with the sampled calls and their documented
  outcome, replayed as a cold history per third call and one warm history for the rest, (b) every history of the
  small cache machine with the specified outcome of each call ("open" where the documentation leaves it open).
  The observed outcome (exception kind / set of returned row ids, duplicates, row content) is compared with TLC's.
code -> spec: seeded random trees and histories (environment switches, invalid stypes, boundary-hugging searches) are
  executed first and judged event by event by Trace_SweepCircle, including the observed content of sweep_cache.
Every mismatch of either direction is judged by Trace_SweepCircle, which names the known deviation set (Dev_*) that
reproduces the observation exactly, or "unexplained".  Python only concretises (positions -> RA/Dec on one great
circle, trees -> FITS files) and abstracts (rows -> ids, exceptions -> kind, cache -> which tree's index it equals).
"""
import gzip
import hashlib
import json
import multiprocessing
import os
import random
import re
import shutil
import time

import numpy as np

from .. import core

STYPES = ('star', 'gal', 'sky')
FINDINGS = {
    'D-X07-1': 'the last index entry of every run/camcol group is dropped (isort[istart:iend]); a group of one raises IndexError',
    'D-X07-2': 'the last row of the row range is not read (data[ist:ind] although IEND is inclusive)',
    'D-X07-3': 'spherematch refuses a single point in its first set: an index with one entry, or one row read, raises PydlutilsException',
    'D-X07-4': 'RESOLVE_STATUS (signed integer column) & uint64 flag raises TypeError: the default allobj=False fails as soon as a row is in the circle',
}
MAX_LISTED = 12

# ---------------------------------------------------------------------------------------------- concretisation
GEOM = {'eq0': ('eq', 0), 'eq180': ('eq', 180300), 'mer0': ('mer', 210250, 0), 'mer60': ('mer', 33000, 60000)}


def radec(geom, pos):
    g = GEOM[geom]
    if g[0] == 'eq':
        return ((g[1] + pos) % 360000) / 1000.0, 0.0
    return g[1] / 1000.0, (g[2] + pos) / 1000.0


LAY = {
    'model': {'idx': [('RA', 'f8'), ('DEC', 'f8'), ('RUN', 'i4'), ('RERUN', 'S3'), ('CAMCOL', 'i4'), ('FIELD', 'i4'),
                      ('ISTART', 'i4'), ('IEND', 'i4'), ('NPRIMARY', 'i4'), ('NSTARS', 'i4')],
              'obj': [('RUN', 'i4'), ('RERUN', 'S3'), ('CAMCOL', 'i4'), ('FIELD', 'i4'), ('ID', 'i4'), ('RA', 'f8'),
                      ('DEC', 'f8'), ('RESOLVE_STATUS', 'i4'), ('PSFFLUX', 'f4', (5,)), ('OBJC_FLAGS', 'i4')]},
    'wide': {'idx': [('RUN', 'i8'), ('CAMCOL', 'i8'), ('RERUN', 'S5'), ('FIELD', 'i8'), ('NPRIMARY', 'i8'),
                     ('ISTART', 'i8'), ('IEND', 'i8'), ('DEC', 'f8'), ('RA', 'f8')],
             'obj': [('ID', 'i8'), ('RESOLVE_STATUS', 'i8'), ('DEC', 'f8'), ('RA', 'f8'), ('PSFFLUX', 'f8', (5,)),
                     ('NAME', 'S8')]},
    'short': {'idx': [('RA', 'f8'), ('DEC', 'f8'), ('RUN', 'i2'), ('CAMCOL', 'u1'), ('RERUN', 'S3'), ('ISTART', 'i4'),
                      ('IEND', 'i4'), ('NPRIMARY', 'i2')],
              'obj': [('RA', 'f8'), ('DEC', 'f8'), ('ID', 'i4'), ('RESOLVE_STATUS', 'i2'), ('PSFFLUX', 'f4', (5,))]},
}

MASKBITS = '''typedef struct {
 char flag[20]; # Flag name
 short bit; # Bit number, 0-indexed
 char label[30]; # Bit label
 char description[100]; # text description
} maskbits;

maskbits RESOLVE_STATUS 0 RUN_PRIMARY "primary within the objects own run"
maskbits RESOLVE_STATUS 1 RUN_RAMP "in what would be the overlap area of a field"
maskbits RESOLVE_STATUS %d %s "replaced"
maskbits RESOLVE_STATUS %d %s "replaced"
maskbits RESOLVE_STATUS 9 SURVEY_BEST "Best observation within the full survey"
maskbits RESOLVE_STATUS 10 SURVEY_SECONDARY "Repeat (independent) observation"
maskbits OBJECT1 0 CANONICAL_CENTER "used canonical, not local, centre"
'''


def J(v):
    """TLC value (as parsed by tlaval) -> JSON-able; sets become sorted lists."""
    if isinstance(v, (tuple, list)):
        return [J(x) for x in v]
    if isinstance(v, (set, frozenset)):
        return sorted(J(x) for x in v)
    if isinstance(v, dict):
        return {str(k): J(x) for k, x in v.items()}
    return v


def rs_value(rs):
    v = 0
    for b in rs:
        v |= 1 << b
    return v


def same_val(a, b):
    """Equality of two column values / columns; character data compared as stripped text."""
    a, b = np.asarray(a), np.asarray(b)
    if a.dtype.kind in 'SU' or b.dtype.kind in 'SU':
        if a.shape != b.shape:
            return False
        norm = lambda z: [(x.decode('latin1') if isinstance(x, bytes) else str(x)).rstrip(' \x00') for x in z.reshape(-1).tolist()]
        return norm(a) == norm(b)
    return a.shape == b.shape and bool(np.array_equal(a, b))


class World:
    """Materialises abstract trees as FITS files and executes histories on the real function."""

    def __init__(self, root):
        import pydl.pydlutils.sdss as sdss
        from astropy.io import fits
        self.sdss = sdss
        self.fits = fits
        self.root = root
        os.makedirs(root, exist_ok=True)
        self.n = 0
        self.pool = {}
        self.mb = {}
        for pbit in (8, 4):
            path = os.path.join(root, 'maskbits_%d.par' % pbit)
            other = 4 if pbit == 8 else 8
            with open(path, 'w') as fh:
                fh.write(MASKBITS % (pbit, 'SURVEY_PRIMARY', other, 'RUN_EDGE'))
            self.mb[pbit] = sdss.set_maskbits(maskbits_file=path)

    # -- files
    def _index_array(self, sub, lay, geom):
        dt = LAY[lay]['idx']
        a = np.zeros(len(sub['idx']), dtype=dt)
        names = a.dtype.names
        for i, e in enumerate(sub['idx']):
            ra, dec = radec(geom, e['pos'])
            a['RA'][i], a['DEC'][i] = ra, dec
            a['RUN'][i], a['CAMCOL'][i], a['RERUN'][i] = e['run'], e['camcol'], e['rerun']
            a['ISTART'][i], a['IEND'][i], a['NPRIMARY'][i] = e['ist'], e['iend'], e['npri']
            if 'FIELD' in names:
                a['FIELD'][i] = 11 + i
            if 'NSTARS' in names:
                a['NSTARS'][i] = e['iend'] - e['ist'] + 1
        return a

    def _obj_array(self, f, lay, geom):
        dt = LAY[lay]['obj']
        a = np.zeros(len(f['objs']), dtype=dt)
        names = a.dtype.names
        for i, o in enumerate(f['objs']):
            ra, dec = radec(geom, o['pos'])
            a['RA'][i], a['DEC'][i] = ra, dec
            a['ID'][i] = o['id']
            a['RESOLVE_STATUS'][i] = rs_value(o['rs'])
            a['PSFFLUX'][i] = o['id'] + 0.25 * np.arange(5)
            if 'RUN' in names:
                a['RUN'][i], a['CAMCOL'][i], a['RERUN'][i], a['FIELD'][i] = f['run'], f['camcol'], f['rerun'], 11 + i
            if 'OBJC_FLAGS' in names:
                a['OBJC_FLAGS'][i] = 268435456 + o['id']
            if 'NAME' in names:
                a['NAME'][i] = 'o%d' % o['id']
        return a

    def _sub_files(self, sub, st, lay, geom):
        """The files of one stype of a tree, written once into a pool directory and hard-linked into tree directories."""
        key = hashlib.md5(json.dumps([sub, st, lay, geom], sort_keys=True).encode()).hexdigest()
        ent = self.pool.get(key)
        if ent is not None:
            ent['hits'] += 1
            return ent
        self.n += 1
        d = os.path.join(self.root, 'p%d' % self.n)
        os.makedirs(d)
        ia = self._index_array(sub, lay, geom)
        self.fits.BinTableHDU(ia).writeto(os.path.join(d, 'datasweep-index-%s.fits' % st))
        rel = ['datasweep-index-%s.fits' % st]
        rows = {}
        for f in sub['files']:
            oa = self._obj_array(f, lay, geom)
            os.makedirs(os.path.join(d, f['rerun']), exist_ok=True)
            name = os.path.join(f['rerun'], 'calibObj-%06d-%d-%s.fits' % (f['run'], f['camcol'], st))
            path = os.path.join(d, name)
            self.fits.BinTableHDU(oa).writeto(path)
            with open(path, 'rb') as src, gzip.open(path + '.gz', 'wb', compresslevel=1) as dst:
                shutil.copyfileobj(src, dst)
            os.remove(path)
            rel.append(name + '.gz')
            for i in range(len(oa)):
                rows[int(oa['ID'][i])] = oa[i]
        ent = {'dir': d, 'rel': rel, 'idx': ia, 'rows': rows, 'hits': 1, 'key': key}
        self.pool[key] = ent
        return ent

    def materialise(self, tree, trailing_slash=False):
        """-> record of a new directory holding this tree."""
        self.n += 1
        d = os.path.join(self.root, 't%d' % self.n)
        os.makedirs(d)
        rec = {'dir': d + ('/' if trailing_slash else ''), 'idx': {}, 'rows': {}, 'pbit': tree['pbit'], 'geom': tree['geom']}
        for st in STYPES:
            ent = self._sub_files(tree['sub'][st], st, tree['lay'], tree['geom'])
            for name in ent['rel']:
                os.makedirs(os.path.dirname(os.path.join(d, name)), exist_ok=True)
                os.link(os.path.join(ent['dir'], name), os.path.join(d, name))
            rec['idx'][st] = ent['idx']
            rec['rows'][st] = ent['rows']
        return rec

    def forget_unshared(self):
        """Drop the pool entries that only one tree used so far (the shared decoys and machine trees stay)."""
        for key in [k for k, e in self.pool.items() if e['hits'] <= 1]:
            shutil.rmtree(self.pool.pop(key)['dir'], ignore_errors=True)

    # -- abstraction
    def _abstract(self, r, rows):
        if r is None:
            return {'err': False, 'exc': '', 'ids': [], 'none': True}
        if not isinstance(r, np.ndarray) or r.dtype.names is None or r.ndim != 1:
            return {'err': False, 'exc': 'returned %s' % type(r).__name__, 'ids': [-2], 'none': False}
        ids = []
        for k in range(len(r)):
            i = int(r['ID'][k]) if 'ID' in r.dtype.names else -1
            ref = rows.get(i)
            same = ref is not None and all(n in r.dtype.names and same_val(r[n][k], ref[n]) for n in ref.dtype.names)
            ids.append(i if same else -1)                 # a row that is not a row of the file: id -1
        return {'err': False, 'exc': '', 'ids': ids, 'none': False}

    def _cache(self, mats):
        c = self.sdss.sweep_cache
        out = {}
        if not isinstance(c, dict) or set(c) != set(STYPES):
            return {st: {'none': False, 'eq': []} for st in STYPES}
        for st in STYPES:
            v = c[st]
            if v is None:
                out[st] = {'none': True, 'eq': []}
                continue
            eq = []
            for n, m in sorted(mats.items()):
                ia = m['idx'][st]
                try:
                    same = len(v) == len(ia) and all(same_val(v[nm], ia[nm]) for nm in ia.dtype.names)
                except Exception:
                    same = False
                if same:
                    eq.append(n)
            out[st] = {'none': False, 'eq': eq}
        return out

    # -- execution
    def call(self, c, geom, rows):
        ra, dec = radec(geom, c['pos'])
        radius = c['radius'] / 1000.0
        form = c['form']
        allobj = bool(c['allobj'])
        if form == 'np64':
            a = (np.float64(ra), np.float64(dec), np.float64(radius))
            kw = {'stype': c['stype'], 'allobj': np.bool_(allobj)}
        elif form == 'np32':
            a = (np.float32(ra), np.float32(dec), np.float32(radius))
            kw = {'stype': c['stype'], 'allobj': allobj}
        elif form == 'zerod':
            a = (np.array(ra), np.array(dec), np.array(radius))
            kw = {'stype': c['stype'], 'allobj': allobj}
        elif form == 'pymix':
            a = (ra, int(dec) if float(dec).is_integer() else dec,
                 int(radius) if float(radius).is_integer() else radius, c['stype'], int(allobj))
            kw = {}
        else:
            a = (ra, dec, radius)
            kw = {'stype': c['stype']}
            if allobj or c['pos'] % 20 == 5:
                kw['allobj'] = allobj
        keep = [np.array(x, copy=True) for x in a[:3]]
        try:
            r = self.sdss.sdss_sweep_circle(*a, **kw)
        except Exception as ex:
            return {'err': True, 'exc': type(ex).__name__, 'ids': [], 'none': False, 'msg': str(ex)[:120]}
        out = self._abstract(r, rows)
        if not all(np.array_equal(np.asarray(x), y) for x, y in zip(a[:3], keep)):
            out['exc'] = 'caller arguments changed'
            out['ids'] = [-3]
        return out

    def run_history(self, h, shared=None):
        """Execute the events of h from a fresh process state; returns the events with ret / cache filled in.
        shared: {tree number: materialisation} kept by the caller for several histories over the same trees."""
        import importlib
        sdss = importlib.reload(self.sdss)              # module-level state as in a new process
        if sdss.sweep_cache != {'star': None, 'gal': None, 'sky': None}:
            raise core.MachineryError('sweep_cache of a freshly loaded module is %r' % (sdss.sweep_cache,))
        os.environ.pop('PHOTO_SWEEP', None)
        sdss.maskbits = self.mb[8]
        mats = {}
        cur = None
        made = []
        out = []
        own = shared is None
        shared = {} if own else shared
        try:
            for n, e in enumerate(h['events']):
                if e['op'] == 'setenv':
                    if e['k'] == 0:
                        os.environ.pop('PHOTO_SWEEP', None)
                        cur = None
                    else:
                        tree = h['trees'][e['k'] - 1]
                        m = shared.get(e['k'])
                        if m is None:
                            m = self.materialise(tree, trailing_slash=(e['k'] % 3 == 2))
                            made.append(m['dir'])
                            shared[e['k']] = m
                        mats[e['k']] = m
                        cur = m
                        os.environ['PHOTO_SWEEP'] = m['dir']
                        sdss.maskbits = self.mb[tree['pbit']]
                    out.append(dict(e))
                else:
                    c = e['c']
                    geom = cur['geom'] if cur else h['trees'][0]['geom'] if h['trees'] else 'eq0'
                    rows = cur['rows'].get(c['stype'], {}) if cur else {}
                    ret = self.call(c, geom, rows)
                    out.append({'op': 'call', 'c': c, 'ret': ret, 'cache': self._cache(mats)})
        finally:
            os.environ.pop('PHOTO_SWEEP', None)
            if own:
                for d in made:
                    shutil.rmtree(d, ignore_errors=True)
        return out


# ---------------------------------------------------------------------------------------------- parallel execution
_W = {}


def _init_worker(root):
    _W['world'] = World(os.path.join(root, 'w%d' % os.getpid()))


def _do_task(task):
    """task: [(tid, history), ...] over one list of trees; the trees are materialised once for the whole task."""
    w = _W['world']
    shared = {}
    out = []
    try:
        for tid, h in task:
            out.append((tid, w.run_history(h, shared=shared)))
        return out, None
    except Exception as ex:                                  # harness failure, reported as such by the parent
        import traceback
        return None, '%s: %s\n%s' % (type(ex).__name__, ex, traceback.format_exc()[-1500:])
    finally:
        for m in shared.values():
            shutil.rmtree(m['dir'], ignore_errors=True)
        w.forget_unshared()


def execute_all(ctx, histories, groups=None):
    """histories: list of history dicts; groups: lists of indices of histories over the same trees (default: one
    history per group) -> list of executed event lists (same order as histories)."""
    out = [None] * len(histories)
    if groups is None:
        groups = [[i] for i in range(len(histories))]
    tasks = [[(i, histories[i]) for i in g] for g in groups]
    n = max(2, min(core.NCPU, 16))
    mp = multiprocessing.get_context('fork')
    with mp.Pool(n, initializer=_init_worker, initargs=(os.path.join(ctx.scratch, 'exec'),)) as pool:
        for res, err in pool.imap_unordered(_do_task, tasks, chunksize=2):
            if err:
                raise core.MachineryError('a history could not be executed: %s' % err)
            for tid, evs in res:
                out[tid] = evs
    shutil.rmtree(os.path.join(ctx.scratch, 'exec'), ignore_errors=True)
    return out


# ---------------------------------------------------------------------------------------------- judging
def matches(obs, exp):
    """Python mirror of SweepCircle!Matches plus S3's no-duplicates; only used to select what TLC must explain."""
    if exp['exc'] == 'open':
        return True
    if obs['err'] != exp['err']:
        return False
    if exp['err']:
        return exp['exc'] == 'any' or obs['exc'] == exp['exc']
    return obs['exc'] == '' and len(set(obs['ids'])) == len(obs['ids']) and set(obs['ids']) == set(exp['ids'])


_CONJ = re.compile(r'^/\\ ([A-Za-z_][A-Za-z0-9_]*) = (.*)$', re.S)


def final_verdicts(path, lengths):
    """Read a Trace_SweepCircle dump: {tid: verd} of the states k = Len(events) + 1.  Only the variables tid, k and
    verd are parsed (the tree in env makes the other conjuncts long)."""
    from .. import tlaval
    out = {}

    def flush(buf):
        conj = {}
        cur = None
        for line in buf:
            if line.startswith('/\\ '):
                m = _CONJ.match(line)
                cur = m.group(1) if m else None
                if cur in ('tid', 'k', 'verd'):
                    conj[cur] = m.group(2)
                else:
                    cur = None
            elif cur is not None:
                conj[cur] += '\n' + line
        if 'tid' not in conj or 'k' not in conj or 'verd' not in conj:
            raise core.MachineryError('unexpected state in the dump of Trace_SweepCircle')
        tid, k = int(conj['tid']), int(conj['k'])
        if k == lengths[tid - 1] + 1:
            out[tid] = tlaval.parse_value(conj['verd'])

    buf = None
    with open(path) as fh:
        for line in fh:
            if line.startswith('State '):
                if buf:
                    flush(buf)
                buf = []
            elif buf is not None and line.strip():
                buf.append(line.rstrip('\n'))
    if buf:
        flush(buf)
    return out


def judge(ctx, histories, executed, label, chunk=1200, jobs=3):
    """Trace_SweepCircle on executed histories -> list (per history) of verdict lists (per event)."""
    from concurrent.futures import ThreadPoolExecutor
    verdicts = [None] * len(histories)

    def one(base):
        part = []
        for h, evs in zip(histories[base:base + chunk], executed[base:base + chunk]):
            events = []
            for e in evs:
                if e['op'] == 'setenv':
                    events.append({'op': 'setenv', 'k': e['k']})
                else:
                    events.append({'op': 'call', 'c': e['c'],
                                   'ret': {'err': e['ret']['err'], 'exc': e['ret']['exc'], 'ids': e['ret']['ids']},
                                   'cache': e['cache']})
            part.append({'trees': h['trees'], 'events': events})
        path = core.write_json(os.path.join(ctx.scratch, 'trace_x07_%s_%d.json' % (label, base)), part)
        r = ctx.tlc('Trace_SweepCircle.tla', 'Trace_SweepCircle.cfg', dump=True, env={'VERIF_TRACE': path}, count=False,
                    workers=max(2, core.NCPU // jobs) if len(histories) > chunk else None,
                    label='Trace_SweepCircle[%s %d:%d]' % (label, base, base + len(part)), timeout=1500)
        if not r.get('dump') or not os.path.exists(r['dump']):
            raise core.MachineryError('Trace_SweepCircle wrote no dump')
        best = final_verdicts(r['dump'], [len(p['events']) for p in part])
        os.remove(r['dump'])
        os.remove(path)
        for t in range(1, len(part) + 1):
            if t not in best:
                raise core.MachineryError('Trace_SweepCircle did not consume history %d of %s' % (base + t - 1, label))
            verdicts[base + t - 1] = [J(v) for v in best[t]]

    with ThreadPoolExecutor(jobs) as ex:
        list(ex.map(one, range(0, len(histories), chunk)))
    return verdicts


def describe(h, n):
    e = h['events'][n]
    c = e['c']
    before = [('setenv(%d)' % x['k']) if x['op'] == 'setenv' else
              ('call(%s,%d,%d,%s)' % (x['c']['stype'], x['c']['pos'], x['c']['radius'], x['c']['allobj']))
              for x in h['events'][:n]]
    cur = 0
    for x in h['events'][:n]:
        if x['op'] == 'setenv':
            cur = x['k']
    s = 'sdss_sweep_circle(pos=%d mdeg, radius=%d mdeg, stype=%r, allobj=%s, form=%s)' % (
        c['pos'], c['radius'], c['stype'], c['allobj'], c['form'])
    if cur:
        t = h['trees'][cur - 1]
        if c['stype'] in STYPES:
            sub = t['sub'][c['stype']]
            s += ' on tree %d [%s %s pbit=%d] index %s rows %s' % (
                cur, t['lay'], t['geom'], t['pbit'],
                [(e2['run'], e2['camcol'], e2['pos'], e2['ist'], e2['iend'], e2['npri']) for e2 in sub['idx']],
                [[(o['id'], o['pos'], o['rs']) for o in f['objs']] for f in sub['files']])
    else:
        s += ' with PHOTO_SWEEP unset'
    if len(before) > 1 or (before and not before[0].startswith('setenv')):
        s += ' after ' + ' '.join(before)
    return s


class Reporter:
    def __init__(self, ctx):
        self.ctx = ctx
        self.listed = {}
        self.count = {}

    def report(self, h, n, obs, exp, why, direction):
        fid = why.split()[0] if why.startswith('D-X07-') else None
        key = fid or why
        self.count[key] = self.count.get(key, 0) + 1
        if self.listed.get(key, 0) >= MAX_LISTED:
            return
        self.listed[key] = self.listed.get(key, 0) + 1
        what = '%s: %s: specified %s, observed %s [%s]' % (
            direction, describe(h, n)[:700], brief(exp), brief(obs), why)
        self.ctx.violation({'what': what, 'history': h, 'event': n, 'expected': exp, 'observed': obs, 'why': why},
                           finding=fid)


def brief(o):
    if o.get('exc') == 'open':
        return 'open'
    if o['err']:
        return 'raises %s' % o['exc']
    return 'rows %s%s' % (sorted(o['ids']) if len(set(o['ids'])) == len(o['ids']) else list(o['ids']),
                          (' (' + o['exc'] + ')') if o.get('exc') else '')


# ---------------------------------------------------------------------------------------------- random histories
def rand_sub(rng, idbase, pbit, lay):
    groups = [(94, 6, '301'), (95, 1, '301'), (1000, 3, '157'), (94, 1, '301'), (5, 2, '137'), (8162, 6, '301'),
              (99, 1, '301'), (1000, 4, '157')]
    if lay == 'short':
        # RUN is a 16-bit column there: run*6 must stay below 2^15 (beyond, the order in which the groups are visited
        # changes, which only matters for WHICH of several failing groups raises first under the known deviations)
        groups = [(5000, g[1], g[2]) if g[0] > 5400 else g for g in groups]
    rng.shuffle(groups)
    ng = rng.randint(1, 4)
    nf = rng.randint(1, 7)
    fields = []
    base = rng.choice([0, 0, 500, -700])
    for j in range(nf):
        g = rng.randrange(ng)
        ctr = base + 10 * rng.randint(-10, 120) if rng.random() < 0.3 else base + rng.choice([150, 200, 230]) * j
        nobj = rng.choice([0, 1, 1, 2, 3, 5])
        objs = []
        for k in range(nobj):
            off = rng.choice([-350, 350, 0]) if rng.random() < 0.25 else 10 * rng.randint(-35, 35)
            pri = rng.random() < 0.55
            if pri:
                rs = {pbit} | set(rng.sample([0, 1, 9, 12], rng.randint(0, 2)))
            else:
                rs = set(rng.sample([0, 1, 9, 10, 12] + ([8] if pbit != 8 else [4]), rng.randint(0, 3)))
            objs.append({'id': idbase + 10 * j + k + 1, 'pos': ctr + off, 'rs': sorted(rs)})
        fields.append({'g': g, 'ctr': ctr, 'objs': objs})
    files = []
    entries = [None] * nf
    for g in sorted({f['g'] for f in fields}):
        mine = [j for j in range(nf) if fields[j]['g'] == g]
        rng.shuffle(mine)
        rows = []
        for j in mine:
            f = fields[j]
            entries[j] = {'run': groups[g][0], 'camcol': groups[g][1], 'rerun': groups[g][2], 'pos': f['ctr'],
                          'ist': len(rows), 'iend': len(rows) + len(f['objs']) - 1,
                          'npri': sum(1 for o in f['objs'] if pbit in o['rs'])}
            rows.extend(f['objs'])
        files.append({'run': groups[g][0], 'camcol': groups[g][1], 'rerun': groups[g][2], 'objs': rows})
    rng.shuffle(entries)
    rng.shuffle(files)
    return {'idx': entries, 'files': files}


def rand_tree(rng, idbase):
    pbit = 4 if rng.random() < 0.15 else 8
    lay = rng.choice(['model', 'model', 'wide', 'short'])
    return {'sub': {st: rand_sub(rng, idbase + 1000 * (i + 1), pbit, lay) for i, st in enumerate(STYPES)},
            'pbit': pbit, 'lay': lay, 'geom': rng.choice(sorted(GEOM))}


def rand_call(rng, tree):
    st = rng.choice(STYPES) if rng.random() < 0.93 else rng.choice(['qso', 'stars', ''])
    radius = rng.choice([0, 10, 50, 100, 260, 700, 1000, 1500, 10 * rng.randint(0, 200)])
    pos = None
    if tree is not None and st in STYPES and rng.random() < 0.8:
        sub = tree['sub'][st]
        objs = [o for f in sub['files'] for o in f['objs']]
        if objs and rng.random() < 0.7:
            pos = rng.choice(objs)['pos'] + rng.choice([-1, 1]) * (radius + rng.choice([-5, 5, -15, 25]))
        else:
            pos = rng.choice(sub['idx'])['pos'] + rng.choice([-1, 1]) * (radius + 360 + rng.choice([-5, 5]))
    if pos is None or pos % 10 != 5:
        pos = 10 * rng.randint(-150, 250) + 5
    return {'pos': pos, 'radius': radius, 'stype': st, 'allobj': rng.random() < 0.5,
            'form': rng.choice(['py', 'py', 'np64', 'np32', 'zerod', 'pymix'])}


def rand_history(rng):
    nt = rng.choice([1, 1, 2, 2, 3])
    trees = [rand_tree(rng, 10000 * (i + 1)) for i in range(nt)]
    if nt >= 2 and rng.random() < 0.5:
        # a tree with the same indexes as tree 1 but other rows behind them, and an identical copy
        t = json.loads(json.dumps(trees[0]))
        for st in STYPES:
            for f in t['sub'][st]['files']:
                for o in f['objs']:
                    o['id'] += 500
        trees[1] = t
    events = []
    cur = 0
    for _ in range(rng.randint(3, 9)):
        p = rng.random()
        if p < 0.3 or (not events and p < 0.85):
            k = rng.choice([0] + list(range(1, nt + 1)) * 3)
            events.append({'op': 'setenv', 'k': k})
            cur = k
        else:
            events.append({'op': 'call', 'c': rand_call(rng, trees[cur - 1] if cur else None)})
    if not any(e['op'] == 'call' for e in events):
        events.append({'op': 'call', 'c': rand_call(rng, trees[cur - 1] if cur else None)})
    return {'trees': trees, 'events': events}


# ---------------------------------------------------------------------------------------------- the check
def histories_from_dump(ctx, r):
    """-> (histories, expectations) from the states of MC_SweepCircle."""
    hs, exps, groups = [], [], []
    world = None
    maxlen = 0
    mstates = []
    ntree = 0
    for st in core.iter_states(r):
        if st['tag'] == 'tree':
            ntree += 1
            tree = J(st['env'])
            cases = [J(x) for x in st['cases']]
            cold = [x for i, x in enumerate(cases) if i % 3 == 0]
            warm = [x for i, x in enumerate(cases) if i % 3 != 0]
            first = len(hs)
            for x in cold:
                hs.append({'trees': [tree], 'events': [{'op': 'setenv', 'k': 1}, {'op': 'call', 'c': x['c']}]})
                exps.append([None, x['exp']])
            if warm:
                hs.append({'trees': [tree], 'events': [{'op': 'setenv', 'k': 1}] + [{'op': 'call', 'c': x['c']} for x in warm]})
                exps.append([None] + [x['exp'] for x in warm])
            if len(hs) > first:
                groups.append(list(range(first, len(hs))))
        elif st['tag'] == 'm':
            if st['world']:
                world = [J(t) for t in st['world']]
            maxlen = max(maxlen, len(st['hist']))
            mstates.append(st['hist'])
    for hist in mstates:
        if len(hist) != maxlen:
            continue                                     # every shorter history is a prefix of a maximal one
        events, ex = [], []
        for e in hist:
            if e['op'] == 'setenv':
                events.append({'op': 'setenv', 'k': e['k']})
                ex.append(None)
            else:
                events.append({'op': 'call', 'c': J(e['c'])})
                ex.append(J(e['exp']))
        hs.append({'trees': world, 'events': events})
        exps.append(ex)
        if not groups or len(groups[-1]) >= 12 or len(hs[groups[-1][0]]['trees']) == 1:
            groups.append([])
        groups[-1].append(len(hs) - 1)
    if mstates and world is None:
        raise core.MachineryError('the machine part of the dump has no world state')
    return hs, exps, groups, ntree


def run(ctx):
    ctx.level = 'model_checking'
    ctx.rule = ('one evaluation = one call of sdss_sweep_circle inside a history (fresh process state, PHOTO_SWEEP '
                'switches, calls); TLC states = trees of the bounded family (each with its sampled calls) and prefixes '
                'of the cache-machine histories; non-trivial = distinct (tree, call) whose specified outcome is an '
                'exception or a non-empty row set; recorded = seeded random histories judged by Trace_SweepCircle')
    ctx.assumptions = [
        'positions lie on one great circle (equator incl. RA 0/360, or a meridian) on a 0.005 deg grid: distances are exact '
        'integers in the spec and 5 mdeg away from every selection boundary in floating point',
        'trees are well formed: the index was made from these files (disjoint covering row ranges, NPRIMARY = number of '
        'primary rows, every object within 0.36 deg of its field position); inconsistent indexes are not exercised',
        'outcome after a change of PHOTO_SWEEP for a stype whose index was cached before: open (executed, cache checked, '
        'result not judged)',
        'empty result: None and a zero-length array are both accepted; row order is not judged',
        'sdss.maskbits is loaded from a maskbits file that defines RESOLVE_STATUS (SURVEY_PRIMARY at bit 8, or 4)',
        'FITS column widths: three layouts (data-model int32, all int64, int16/uint8); unsigned RESOLVE_STATUS is not exercised']
    cfg = 'MC_SweepCircle_quick.cfg' if ctx.quick else 'MC_SweepCircle_thorough.cfg'
    tm = {}
    t0 = time.time()
    r = ctx.tlc('MC_SweepCircle.tla', cfg, dump=True, timeout=1500)
    hs, exps, groups, ntree = histories_from_dump(ctx, r)
    rep = Reporter(ctx)
    tm['tlc+dump'] = round(time.time() - t0, 1)

    # ---- spec -> code
    t0 = time.time()
    executed = execute_all(ctx, hs, groups)
    tm['execute_mc'] = round(time.time() - t0, 1)
    bad = []
    nopen = 0
    ncall = 0
    for i, (h, evs, ex) in enumerate(zip(hs, executed, exps)):
        wrong = False
        for n, (e, x) in enumerate(zip(evs, ex)):
            if e['op'] != 'call':
                continue
            ncall += 1
            if x['exc'] == 'open':
                nopen += 1
            elif x['err'] or x['ids']:
                ctx.nontriv((hashlib.md5(json.dumps(h['trees'], sort_keys=True).encode()).hexdigest()[:12],
                             tuple(ev['k'] for ev in evs[:n] if ev['op'] == 'setenv'),
                             e['c']['pos'], e['c']['radius'], e['c']['stype'], e['c']['allobj']))
            if not matches(e['ret'], x):
                wrong = True
        if i % 601 == 0:
            ctx.sample({'history': [ev if ev['op'] == 'setenv' else {'call': ev['c'], 'observed': brief(ev['ret']), 'specified': brief(x)}
                                    for ev, x in zip(evs, ex)]})
        if wrong:
            bad.append(i)
    ctx.evaluated(ncall, 'mc_calls')
    ctx.validated(ncall)
    ctx.cov['parts']['mc_trees'] = ntree
    ctx.cov['parts']['mc_histories'] = len(hs)
    ctx.cov['parts']['open_outcomes_not_judged'] = nopen
    # the cache of every executed history and every mismatch are judged by TLC
    badset = set(bad)
    check = bad + [i for i in range(len(hs)) if len(hs[i]['trees']) > 1 and i not in badset][:(300 if ctx.quick else 3000)]
    t0 = time.time()
    verd = judge(ctx, [hs[i] for i in check], [executed[i] for i in check], 'mc')
    tm['judge_mc'] = round(time.time() - t0, 1)
    for i, vs in zip(check, verd):
        for n, v in enumerate(vs):
            e = executed[i][n]
            if e['op'] != 'call':
                continue
            if not v['wf']:
                raise core.MachineryError('TLC-generated tree judged ill-formed: ' + describe(hs[i], n)[:500])
            x = exps[i][n]
            if (x['exc'] == 'open') != bool(v['open']) or (not v['open'] and J(v['exp']) != x):
                raise core.MachineryError('MC_SweepCircle and Trace_SweepCircle disagree on %s: %s vs %s' % (
                    describe(hs[i], n)[:300], x, v['exp']))
            if v['why']:
                rep.report(hs[i], n, e['ret'], x, v['why'], 'spec->code')
            elif not matches(e['ret'], x):
                raise core.MachineryError('Python and TLC disagree on a mismatch: ' + describe(hs[i], n)[:300])

    # ---- code -> spec
    rng = random.Random(ctx.seed)
    nrec = 250 if ctx.quick else 4000
    rh = [rand_history(rng) for _ in range(nrec)]
    t0 = time.time()
    rexec = execute_all(ctx, rh)
    tm['execute_recorded'] = round(time.time() - t0, 1)
    t0 = time.time()
    rverd = judge(ctx, rh, rexec, 'recorded')
    tm['judge_recorded'] = round(time.time() - t0, 1)
    ctx.cov['parts']['wall_s_by_phase'] = tm
    nrc = 0
    nro = 0
    for h, evs, vs in zip(rh, rexec, rverd):
        for n, (e, v) in enumerate(zip(evs, vs)):
            if e['op'] != 'call':
                continue
            nrc += 1
            if not v['wf']:
                raise core.MachineryError('random tree generator produced an ill-formed tree: ' + describe(h, n)[:500])
            if v['open']:
                nro += 1
            elif v['exp']['err'] or v['exp']['ids']:
                ctx.nontriv(('rec', nrc))
            if v['why']:
                rep.report(h, n, e['ret'], J(v['exp']), v['why'], 'code->spec')
    ctx.evaluated(nrc, 'recorded_calls')
    ctx.validated(nrc)
    ctx.cov['parts']['recorded_histories'] = nrec
    ctx.cov['parts']['recorded_open_not_judged'] = nro
    ctx.cov['parts']['mismatches_by_verdict'] = dict(rep.count)
    ctx.sample({'recorded_history': [ev if ev['op'] == 'setenv' else {'call': ev['c'], 'observed': brief(ev['ret']), 'verdict': v}
                                     for ev, v in zip(rexec[0], rverd[0])]})
    ctx.exhaustive = not ctx.quick


def replay(ctx, case):
    """bin/check X07 --replay <file>: re-execute the history of a failing case and judge it again."""
    ctx.level = 'model_checking'
    ctx.rule = 'single replayed history'
    h = case['history']
    world = World(os.path.join(ctx.scratch, 'replay'))
    evs = world.run_history(h)
    vs = judge(ctx, [h], [evs], 'replay')[0]
    ctx.nontriv('a')
    ctx.nontriv('b')
    for n, (e, v) in enumerate(zip(evs, vs)):
        if e['op'] == 'setenv':
            print('  %d setenv(%d)' % (n, e['k']))
            continue
        ctx.evaluated(1)
        ctx.validated(1)
        print('  %d %s\n     observed %s, specified %s, verdict %r' % (n, describe(h, n)[:600], brief(e['ret']), brief(J(v['exp'])), v['why']))
        if v['why']:
            ctx.violation(dict(case, event=n, observed=e['ret'], why=v['why']),
                          finding=v['why'].split()[0] if v['why'].startswith('D-X07-') else None)
