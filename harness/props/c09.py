"""C09 - the B-spline fit is the weighted least-squares optimum; failure is a status code.
Spec: spec/BSplineFit.tla; MC: mc/MC_BSplineFit (modes "cases" and "machine"); Trace: trace/Trace_BSplineFit
(modes "records" and "runs"; the runs mode reuses the machine's actions).

spec -> code
  (a) every banded Cholesky call TLC enumerates (integer factor L0, signature, non-finite entry, mininf) goes
      through the real cholesky_band / cholesky_solve; the factor and the solution are TLC's (exact, unique).
  (b) every tiny fit TLC enumerates goes through the real bspline.fit; coefficients and fitted values are the
      exact rational optimum computed by TLC (Cramer); polynomial data of every order 1..6 computed by TLC must be
      reproduced; fits with too few good breakpoints must answer -2.
  (c) from every state of the status machine in which a fit is due, ONE real fit is executed on data laid out as
      the state's support pattern with the state's breakpoint mask; the answer must be a transition of the machine
      (admissible statuses and droppable breakpoints are TLC's).
code -> spec
  runs:    histories of real fit calls (harness-driven loops on larger patterns; the real iterfit with a recorder
           around bspline.fit, on data with gaps, empty cells, too few points, all weights zero) are validated event
           by event against the machine by TLC (Trace_BSplineFit, runs mode).
  records: real cholesky_band / cholesky_solve calls on random integer and float band matrices (definiteness is
           decided by TLC by exact elimination), and law instances on realistic float fits - agreement with an
           independent dense weighted least squares (numpy lstsq on a Cox-de Boor design matrix), zero-weight
           invariance, linearity, polynomial reproduction - with harness-measured discrepancies, judged by TLC.
Python only concretises (spec value -> arrays), abstracts (arrays -> integers / support counts) and measures.
"""
import copy
import math
import random
import re
import traceback
import warnings
from fractions import Fraction

import numpy as np

from .. import core

RTOL = 1e-9               # exact expectations: |observed - TLC value| <= RTOL * scale
CAP = 2000000000
LAWTOL = 2000              # law instances: units of 1e-9 of the coefficient scale (2e-6; measured <= 1e-9)
MAXREPORT = 10


def _mod():
    from pydl.pydlutils import bspline as m
    return m


def frac(q):
    return Fraction(q[0], q[1])


def is_success(first):
    """cholesky_band signals success by the integer -1 as first item."""
    return isinstance(first, (int, np.integer)) and not isinstance(first, (bool, np.bool_)) and int(first) == -1


def short_exc(ex):
    return '%s: %s' % (type(ex).__name__, str(ex)[:120])


# ---------------------------------------------------------------------------------------------
# (a) Cholesky: spec -> code
def chol_input(c, exp):
    ab = np.array(exp['ab'], dtype='d')
    if c['bad']:
        k, j, cls = c['bad']
        ab[k - 1, j - 1] = {'inf': np.inf, 'ninf': -np.inf, 'nan': np.nan}[cls]
    return ab


def run_chol_case(c, exp):
    """Returns None if the real pair behaves as specified (global state preserved included), else a description."""
    with Guard() as g:
        bad = _run_chol_case(c, exp, g)
    if not bad and g.a != g.b:
        bad = GS_MSG % (g.b, g.a)
    return bad


def _run_chol_case(c, exp, g):
    m = _mod()
    ab = chol_input(c, exp)
    keep = ab.copy()
    b = np.array(exp['b'], dtype='d')
    try:
        ret = m.cholesky_band(ab, mininf=c['minf2'] / 2.0) if c['minf2'] else m.cholesky_band(ab)
    except Exception as ex:
        return 'cholesky_band raised ' + short_exc(ex)
    finally:
        g.mark()
    if not (isinstance(ret, tuple) and len(ret) == 2):
        return 'cholesky_band did not return a 2-tuple'
    if not exp['ok']:
        if is_success(ret[0]):
            return 'not positive definite / non-finite / below-mininf matrix reported as factored (first item -1)'
        if not (isinstance(ret[1], np.ndarray) and ret[1].shape == keep.shape and np.array_equal(ret[1], keep, equal_nan=True)):
            return 'problem signalled but the second item is not the input matrix'
        return None
    if not is_success(ret[0]):
        return 'positive definite matrix refused: first item %r' % (ret[0],)
    L = np.asarray(ret[1])
    want = np.array(exp['L'], dtype='d')
    if L.shape != want.shape:
        return 'factor has shape %r, expected the padded %r' % (L.shape, want.shape)
    if not np.all(np.abs(L - want) <= RTOL * (1 + np.abs(want).max())):
        return 'factor differs from the unique Cholesky factor by %.3g' % np.nanmax(np.abs(L - want))
    wx = np.array(exp['x'], dtype='d')
    for name, fac in (('returned factor', L), ('exact factor', want)):
        try:
            x = m.cholesky_solve(fac.copy(), b.copy())
        except Exception as ex:
            return 'cholesky_solve (%s) raised %s' % (name, short_exc(ex))
        finally:
            g.mark()
        x = np.asarray(x)
        if x.shape != wx.shape:
            return 'solution has shape %r, expected %r' % (x.shape, wx.shape)
        if not np.all(np.abs(x - wx) <= RTOL * (1 + np.abs(wx).max())):
            return 'solution (%s) differs from x0 by %.3g' % (name, np.nanmax(np.abs(x - wx)))
    return None


# ---------------------------------------------------------------------------------------------
# bspline objects on given knots
def make_sset(k, t, notes=None):
    """bspline object of order k whose full knot vector is t (integers, uniform padding)."""
    m = _mod()
    t = np.array([float(v) for v in t], dtype='d')
    bk = t[k - 1:len(t) - k + 1].copy()
    s = m.bspline(np.array([bk[0], bk[-1]]), nord=k, bkpt=bk.copy())
    if s.breakpoints.shape != t.shape or s.mask.shape != t.shape or s.coeff.shape != (len(t) - k,):
        raise core.MachineryError('constructor gave %d knots for %d breakpoints of order %d' % (s.breakpoints.size, bk.size, k))
    if not np.array_equal(np.asarray(s.breakpoints, dtype='d'), t):
        if notes is not None:
            notes['knots_overridden'] = notes.get('knots_overridden', 0) + 1
        s.breakpoints = t.copy()          # knot construction is C08's subject; C09 fits on the specified knots
    return s


def gstate():
    """The process-wide state a call could leave changed: numpy's floating-point error handling.  (The list of warning
    filters is not observed: pydl never edits it, and lazy imports inside numpy / scipy may append to it.)"""
    e = np.geterr()
    return [str(e['divide']), str(e['over']), str(e['under']), str(e['invalid'])]


GS_MSG = 'the call changed the process-wide floating-point error handling (divide, over, under, invalid): %s -> %s'
RESTORE = [True]          # False inside a process history: nothing is restored between its calls


class Guard(object):
    """Observes the global state around one real call; unless a process history is being recorded the state found
    before the call is put back afterwards, so that one leak is reported once and the harness's own numerics are safe."""
    def __enter__(self):
        self.b = gstate()
        self.err = np.geterr()
        self.filters = list(warnings.filters)
        self.a = self.b
        return self

    def mark(self):
        """Observe now (right after a real call): keep the first state that differs from the one found, then restore."""
        cur = gstate()
        if cur != self.b and self.a == self.b:
            self.a = cur
        if RESTORE[0]:
            np.seterr(**self.err)
            warnings.filters[:] = self.filters

    def __exit__(self, *exc):
        self.mark()
        return False


def call_fit(s, x, y, w):
    """One real fit.  Returns dict(st, after (good knots 1-based), finite, exc, yfit, gsb, gsa)."""
    before = np.array(s.mask, dtype=bool).copy()
    g = Guard()
    try:
        with g:
            ret = s.fit(x, y, w)
    except Exception as ex:
        return {'st': None, 'exc': short_exc(ex), 'tb': traceback.format_exc()[-600:], 'before': before,
                'after': np.array(s.mask, dtype=bool).copy(), 'finite': False, 'yfit': None, 'gsb': g.b, 'gsa': g.a}
    st, yfit = ret
    okst = isinstance(st, (int, np.integer)) and not isinstance(st, (bool, np.bool_))
    with np.errstate(all='ignore'):
        fin = bool(np.all(np.isfinite(np.asarray(s.coeff, dtype='d'))) and np.all(np.isfinite(np.asarray(yfit, dtype='d'))))
    return {'st': int(st) if okst else repr(st), 'exc': None, 'before': before, 'gsb': g.b, 'gsa': g.a,
            'after': np.array(s.mask, dtype=bool).copy(), 'finite': fin, 'yfit': np.asarray(yfit, dtype='d')}


def good(maskarr):
    return [int(g) + 1 for g in np.nonzero(maskarr)[0]]


def judge_fit(obs, allowed, droppable):
    """Is the observed answer of one fit a transition the specification admits?  (allowed/droppable are TLC's)"""
    if obs['exc']:
        return 'fit raised ' + obs['exc']
    if obs.get('gsb') != obs.get('gsa'):
        return GS_MSG % (obs.get('gsb'), obs.get('gsa'))
    if obs['st'] not in (0, -1, -2):
        return 'undocumented status %r' % (obs['st'],)
    if not obs['finite']:
        return 'non-finite coefficients or fitted values (status %d)' % obs['st']
    if obs['st'] not in allowed:
        return 'status %d, admissible %s' % (obs['st'], sorted(allowed))
    b, a = set(good(obs['before'])), set(good(obs['after']))
    if obs['st'] == -1:
        if not (a < b):
            return 'status -1 but the breakpoint mask did not shrink (%s -> %s)' % (sorted(b), sorted(a))
        if not (b - a) <= set(droppable):
            return 'status -1 dropped knots %s, droppable %s' % (sorted(b - a), sorted(droppable))
    elif a != b:
        return 'status %d but the breakpoint mask changed (%s -> %s)' % (obs['st'], sorted(b), sorted(a))
    return None


# ---------------------------------------------------------------------------------------------
# (b) tiny exact fits and polynomial reproduction: spec -> code
WSCALES = [-70, -50, -30, -10, 10, 30, 50, 70]     # invvar * 2^a
YSCALES = [-40, -20, 0, 20, 40]                    # y * 2^b


def scale_pair(n):
    """Deterministic (a, b) for the n-th rescaled replay: all 40 combinations in turn."""
    return WSCALES[n % len(WSCALES)], YSCALES[(n // len(WSCALES)) % len(YSCALES)]


INT_DTYPES = ['int64', 'int32', 'int16', 'uint8']
# per-dtype allowance for the exact replays (none: the dtype of the abscissae is a representation)
DT_RTOL = {}           # every integer type is evaluated in double precision: no allowance


def int_grid(fracs_lists, n):
    """The grid law: (L, dtype) such that every abscissa times L is an integer representable in dtype."""
    L = 1
    for q in fracs_lists:
        L = L * q[1] // math.gcd(L, q[1])
    vals = [q[0] * (L // q[1]) for q in fracs_lists]
    dt = INT_DTYPES[n % len(INT_DTYPES)]
    if dt == 'uint8' and (min(vals) < 0 or max(vals) > 255):
        dt = 'int16'
    return L, dt


def run_fit_case(c, exp, notes, a=0, b=0, intx=None):
    """a, b: the case is replayed with invvar * 2^a and y * 2^b; by the scale laws of the specification the status
    and the mask are the same and the optimum is TLC's times 2^b (powers of two: the rescaling itself is exact).
    intx = n: the case is replayed on the integer grid of the grid law (knots and abscissae times L) with the abscissae
    handed over as an integer-typed array; same status, mask, coefficients and fitted values."""
    k, t = c['k'], c['t']
    ys, ws = 2.0 ** b, 2.0 ** a
    rtol = RTOL
    if intx is not None:
        L, dt = int_grid(c['x'], intx)
        s = make_sset(k, [v * L for v in t], notes)
        x = np.array([q[0] * (L // q[1]) for q in c['x']], dtype=dt)
        rtol = DT_RTOL.get(dt, RTOL)
    else:
        s = make_sset(k, t, notes)
        x = np.array([float(frac(q)) for q in c['x']], dtype='d')
    y = np.array(c['y'], dtype='d') * ys
    w = np.array(c['w'], dtype='d') * ws
    obs = call_fit(s, x, y, w)
    inter = set(range(k + 1, len(t) - k + 1))
    tag = ' [replayed with invvar*2^%d, y*2^%d]' % (a, b) if (a or b) else ''
    if intx is not None:
        tag = ' [replayed on the integer grid: knots and x times %d, x as %s]' % (L, dt)
    bad = judge_fit(obs, exp['allowed'], inter)
    if bad:
        return bad + tag
    if obs['st'] == 0 and exp['wellposed']:
        want = np.array([float(frac(q)) for q in exp['coeff']], dtype='d')
        got = np.asarray(s.coeff, dtype='d') / ys
        scale = 1 + np.abs(want).max()
        if got.shape != want.shape or not np.all(np.abs(got - want) <= rtol * scale):
            return 'coefficients %s differ from the exact optimum %s%s' % (got.tolist(), [str(frac(q)) for q in exp['coeff']], tag)
        wy = np.array([float(frac(q)) for q in exp['yfit']], dtype='d')
        if obs['yfit'].shape != wy.shape or not np.all(np.abs(obs['yfit'] / ys - wy) <= rtol * scale):
            return 'fitted values %s differ from the optimum\'s %s%s' % ((obs['yfit'] / ys).tolist(), wy.tolist(), tag)
    return None


def run_poly_case(c, exp, notes, a=0, b=0, intx=None):
    k, t = c['k'], c['t']
    ys, ws = 2.0 ** b, 2.0 ** a
    rtol = RTOL
    if intx is not None:
        L, dt = int_grid(list(c['x']) + list(c['probes']), intx)
        s = make_sset(k, [v * L for v in t], notes)
        x = np.array([q[0] * (L // q[1]) for q in c['x']], dtype=dt)
        rtol = DT_RTOL.get(dt, RTOL)
    else:
        s = make_sset(k, t, notes)
        x = np.array([float(frac(q)) for q in c['x']], dtype='d')
    y0 = np.array(exp['y'], dtype='d')
    w = np.array(c['w'], dtype='d') * ws
    obs = call_fit(s, x, y0 * ys, w)
    tag = ' [replayed with invvar*2^%d, y*2^%d]' % (a, b) if (a or b) else ''
    if intx is not None:
        tag = ' [replayed on the integer grid: knots, x and evaluation points times %d, as %s]' % (L, dt)
    bad = judge_fit(obs, exp['allowed'], set(range(k + 1, len(t) - k + 1)))
    if bad:
        return bad + tag
    if obs['st'] == 0 and exp['allowed'] == frozenset([0]):
        scale = 1 + np.abs(y0).max()
        if not np.all(np.abs(obs['yfit'] / ys - y0) <= rtol * scale):
            return 'polynomial of degree %d not reproduced at the data: max error %.3g%s' % (k - 1, np.abs(obs['yfit'] / ys - y0).max(), tag)
        if intx is not None:
            px = np.array([q[0] * (L // q[1]) for q in c['probes']], dtype=dt)
        else:
            px = np.array([float(frac(q)) for q in c['probes']], dtype='d')
        pv = np.array([float(frac(q)) for q in exp['pv']], dtype='d')
        try:
            val, vm = s.value(px)
        except Exception as ex:
            return 'value() raised ' + short_exc(ex) + tag
        if not np.all(vm):
            return 'value() flags probe points inside the breakpoint range as bad'
        if not np.all(np.abs(val / ys - pv) <= rtol * scale):
            return 'polynomial of degree %d not reproduced at probe points: max error %.3g%s' % (k - 1, np.abs(val / ys - pv).max(), tag)
    return None


def cell_data(nord, S, pc, rng, sprinkle=True):
    """Data laid out as the support pattern pc on breakpoints 0..S: positively weighted distinct abscissae
    at the given positions, plus zero-weight points everywhere (also in cells without support)."""
    pts = []
    for q, cnt in enumerate(pc, start=1):
        if q % 2 == 1:
            if cnt:
                pts.append(((q - 1) // 2 * 1.0, 1))
        else:
            s0 = q // 2 - 1
            for j in range(cnt):
                pts.append((s0 + (j + 1.0) / (cnt + 1.0), 1))
    if sprinkle:
        for s0 in range(S):
            for u in (0.37, 0.81):
                if rng.random() < 0.5:
                    pts.append((s0 + u, 0))
    if not pts:
        pts.append((0.5, 0))
    pts.sort()
    x = np.array([p[0] for p in pts], dtype='d')
    w = np.array([rng.uniform(0.5, 2.0) if p[1] else 0.0 for p in pts], dtype='d')
    y = np.array([math.sin(1.3 * v) + 0.1 * v + rng.uniform(-0.2, 0.2) for v in x], dtype='d')
    y[w == 0] += 50.0
    return x, y, w


def knots_for(nord, S):
    return list(range(-(nord - 1), S + nord))


def run_state_fit(nord, S, pc, mask, rng, notes, data=None, a=0, b=0, grid=None):
    s = make_sset(nord, knots_for(nord, S), notes)
    mk = np.zeros(s.mask.shape, dtype=bool)
    for g in mask:
        mk[g - 1] = True
    s.mask = mk
    x, y, w = data if data is not None else cell_data(nord, S, pc, rng)
    y, w = y * 2.0 ** b, w * 2.0 ** a
    if grid is not None:            # (L, dtype): knots and abscissae times L, abscissae integer-typed
        xi = np.rint(x * grid[0])
        if np.abs(xi - x * grid[0]).max() > 1e-6:
            raise core.MachineryError('abscissae are not on the 1/%d grid' % grid[0])
        x = xi.astype(grid[1])
        s = make_sset(nord, [v * grid[0] for v in knots_for(nord, S)], notes)
        s.mask = mk.copy()
    ill = illcond(s, x, w)
    return dict(call_fit(s, x, y, w), ill=ill), (x, y, w), s


def poly_for(nord, rng, lo, hi, amp=1.0):
    """A polynomial of degree nord - 1 (callable) with coefficients of order amp in the variable (x-lo)/(hi-lo)."""
    cs = [amp * rng.uniform(-1, 1) for _ in range(nord)]
    cs[-1] = amp * rng.choice([-1, 1]) * rng.uniform(0.3, 1.0)
    return lambda xx: sum(cv * ((np.asarray(xx, dtype='d') - lo) / (hi - lo)) ** e for e, cv in enumerate(cs))


# ---------------------------------------------------------------------------------------------
# independent dense least squares (for the float law instances)
def design_matrix(knots, k, x):
    """Cox-de Boor from the definition: (len(x), K-k) matrix of B_{i,k}(x) on the knot vector `knots`;
    x inside [t[k-1], t[K-k]]; a point on a knot is attributed to the cell on its left (the lowest to the first)."""
    t = np.asarray(knots, dtype='d')
    x = np.asarray(x, dtype='d')
    K = t.size
    cell = np.searchsorted(t, x, side='left') - 1
    cell = np.clip(cell, k - 1, K - k - 1)
    Bm = np.zeros((x.size, K - 1), dtype='d')
    Bm[np.arange(x.size), cell] = 1.0
    for kk in range(2, k + 1):
        nb = K - kk
        new = np.zeros((x.size, nb), dtype='d')
        for i in range(nb):
            d1 = t[i + kk - 1] - t[i]
            d2 = t[i + kk] - t[i + 1]
            if d1 > 0:
                new[:, i] += (x - t[i]) / d1 * Bm[:, i]
            if d2 > 0:
                new[:, i] += (t[i + kk] - x) / d2 * Bm[:, i + 1]
        Bm = new
    return Bm[:, :K - k]


def dense_wls(knots, k, x, y, w):
    A = design_matrix(knots, k, x)
    sw = np.sqrt(w)
    sol, res, rank, sv = np.linalg.lstsq(A * sw[:, None], y * sw, rcond=None)
    return sol, rank, A


def support_counts(knots, k, x, w):
    """Abstraction: distinct positively weighted abscissae per position (on breakpoint g / inside cell g).
    Returns (S, pc) or None when a good point lies outside the breakpoint range."""
    t = np.asarray(knots, dtype='d')
    K = t.size
    S = K - 2 * k + 1
    bk = t[k - 1:K - k + 1]
    sets = [set() for _ in range(2 * S + 1)]
    for xv, wv in zip(x, w):
        if not wv > 0:
            continue
        if xv < bk[0] or xv > bk[-1]:
            return None
        j = int(np.searchsorted(bk, xv, side='left'))
        if bk[j] == xv:
            sets[2 * j].add(float(xv))
        else:
            sets[2 * (j - 1) + 1].add(float(xv))
    return S, [len(v) for v in sets]


def units(v, scale):
    if not np.isfinite(v):
        return CAP
    return int(min(CAP, math.ceil(v / (1e-9 * scale))))


def masked_measure(s, x, y, w, yfit, rng, poly=None):
    """Measurements on an object some of whose breakpoints are masked, against the spline space of the MASKED
    knot vector breakpoints[mask] built independently (design_matrix): coefficients / fitted values vs the dense
    weighted least squares, action() / bsplvn() rows vs the Cox-de Boor basis (partition of unity), value() vs the
    basis applied to the stored coefficients, and for polynomial data (poly = callable) reproduction by yfit / value().
    Returns dict(disc, bdisc, parts) in units of 1e-9 of the scale, or dict(exc=...)."""
    k = int(s.nord)
    mk = np.array(s.mask, dtype=bool)
    tm = np.asarray(s.breakpoints, dtype='d')[mk]
    lo, hi = tm[k - 1], tm[tm.size - k]
    inr = (x >= lo) & (x <= hi)
    xin = x[inr]            # in the caller's dtype (integer-typed abscissae stay integer-typed)
    parts = {}
    if xin.size == 0:
        return {'disc': 0, 'bdisc': 0, 'parts': parts, 'exc': '', 'condok': False}
    with Guard() as g:
        out = _masked_measure(s, x, y, w, yfit, rng, poly, k, mk, tm, lo, hi, inr, xin, parts)
    if g.a != g.b and not out['exc']:
        out['exc'] = GS_MSG % (g.b, g.a) + ' (action / bsplvn / value)'
    return out


def _masked_measure(s, x, y, w, yfit, rng, poly, k, mk, tm, lo, hi, inr, xin, parts):
    try:
        A = design_matrix(tm, k, np.asarray(xin, dtype='d'))
        n = tm.size - k
        cm = np.asarray(s.coeff, dtype='d')[mk[k:]]
        # basis consistency (whatever the status)
        indx = np.asarray(s.intrv(xin))
        act, lw, up = s.action(xin)
        act = np.asarray(act, dtype='d')
        bsv = np.asarray(s.bsplvn(xin, indx), dtype='d')
        full = np.zeros((xin.size, n))
        for i in range(xin.size):
            full[i, indx[i] - k + 1:indx[i] + 1] = act[i]
        parts['action'] = units(np.abs(full - A).max() if xin.size else 0.0, 1.0)
        parts['unity'] = units(np.abs(act.sum(axis=1) - 1.0).max() if xin.size else 0.0, 1.0)
        parts['bsplvn'] = units(np.abs(bsv - act).max() if xin.size else 0.0, 1.0)
        px = np.array(sorted([rng.uniform(lo, hi) for _ in range(12)] + [lo, hi]), dtype='d')
        val, vm = s.value(px)
        vm = np.asarray(vm, dtype=bool)
        ref = design_matrix(tm, k, px).dot(cm)
        cs = max(1.0, np.abs(cm).max()) if np.all(np.isfinite(cm)) else 1.0
        parts['value'] = units(np.abs(np.asarray(val)[vm] - ref[vm]).max() if vm.any() else 0.0, cs)
        bdisc = max(parts.values())
        # optimality (judged by TLC only for status 0 on a determined system)
        disc = 0
        sw = np.sqrt(w[inr])
        sol, res, rank, sv = np.linalg.lstsq(A * sw[:, None], y[inr] * sw, rcond=None)
        condok = False
        if rank == n:
            # the code solves the normal equations: forward error ~ cond^2 * eps; the unit grows accordingly and
            # numerically singular (though formally determined) systems are not compared
            kappa = sv[0] / sv[-1] if sv[-1] > 0 else np.inf
            parts['log10cond_x10'] = int(10 * np.log10(kappa)) if np.isfinite(kappa) and kappa > 0 else CAP
            condok = bool(kappa <= 1e5)
        if condok and yfit is not None:
            scale = max(np.abs(sol).max(), np.abs(y[inr]).max() * 1e-3, 1e-300) * max(1.0, kappa ** 2 * 1.1e-8)
            parts['coeff'] = units(np.abs(cm - sol).max(), scale)
            parts['yfit'] = units(np.abs(np.asarray(yfit)[inr] - A.dot(sol)).max(), scale)
            disc = max(parts['coeff'], parts['yfit'])
            if poly is not None:
                ps = max(np.abs(poly(np.asarray(xin, dtype='d'))).max(), 1e-300) * max(1.0, kappa ** 2 * 1.1e-8)
                parts['polyfit'] = units(np.abs(np.asarray(yfit)[inr] - poly(np.asarray(xin, dtype='d'))).max(), ps)
                parts['polyval'] = units(np.abs(np.asarray(val)[vm] - poly(px)[vm]).max() if vm.any() else 0.0, ps)
                disc = max(disc, parts['polyfit'], parts['polyval'])
        return {'disc': disc, 'bdisc': bdisc, 'parts': parts, 'exc': '', 'condok': condok}
    except Exception as ex:
        return {'disc': 0, 'bdisc': 0, 'parts': parts, 'exc': 'measuring a masked object: ' + short_exc(ex), 'condok': False}


def illcond(s, x, w):
    """Measured: is the weighted design matrix on the object's current (masked) knot vector numerically singular?"""
    try:
        k = int(s.nord)
        mk = np.array(s.mask, dtype=bool)
        tm = np.asarray(s.breakpoints, dtype='d')[mk]
        if tm.size < 2 * k or np.any(np.diff(tm) <= 0):
            return False
        inr = (x >= tm[k - 1]) & (x <= tm[tm.size - k]) & (w > 0)
        if not inr.any():
            return False
        A = design_matrix(tm, k, x[inr]) * np.sqrt(w[inr])[:, None]
        sv = np.linalg.svd(A, compute_uv=False)
        return bool(sv.size < tm.size - k or not sv[-1] > 0 or sv[0] / sv[-1] > 1e5)
    except Exception:
        return False


def weak_functions(s, x, w):
    """Measured: basis functions (1-based rank on the current masked knots) that see data but whose influence
    sum w B^2 is positive and below 1e-6 of the mean weight (the code's own threshold is 1e-10)."""
    try:
        with np.errstate(all='ignore'):
            k = int(s.nord)
            mk = np.array(s.mask, dtype=bool)
            tm = np.asarray(s.breakpoints, dtype='d')[mk]
            if tm.size < 2 * k or np.any(np.diff(tm) <= 0):
                return []
            x = np.asarray(x, dtype='d')
            inr = (x >= tm[k - 1]) & (x <= tm[tm.size - k]) & (w > 0) & np.isfinite(w)
            if not inr.any():
                return []
            A = design_matrix(tm, k, x[inr])
            infl = (A * A * w[inr][:, None]).sum(axis=0)
            thr = 1e-6 * w[inr].sum() / max(1, tm.size - k)
            return [int(j) + 1 for j in np.nonzero((infl > 0) & (infl <= thr))[0]]
    except Exception:
        return []


def masked_record(law, nord, S, pc, maskgood, st, finite, meas, src, data=None, ill=None, gs=None):
    """ill: illcond() of the object BEFORE the fit (the mask a -1 leaves behind is not the one the fit was made on).
    gs: (global state before, after) the fit."""
    gs = gs or (gstate(), gstate())
    if ill is not None:
        meas = dict(meas, condok=bool(meas.get('condok', False) and not ill) if st == 0 else (not ill))
    return {'kind': 'fitlaw', 'law': law, 'nord': nord, 'S': S, 'pc': list(pc), 'mask': sorted(int(g) for g in maskgood),
            'st': [st if isinstance(st, int) else 99], 'finite': bool(finite), 'exc': meas['exc'], 'disc': meas['disc'],
            'bdisc': meas['bdisc'], 'condok': bool(meas.get('condok', False)), 'tol': LAWTOL, 'altered': [], 'zeroidx': [], 'parts': meas['parts'], 'src': src,
            'gsb': list(gs[0]), 'gsa': list(gs[1]), '_data': data}


def judge_records(ctx, recs, chunk=1500):
    """core.validate_records plus the set of law instances whose optimum TLC actually compared (tid = -1)."""
    bad, compared = {}, set()
    for base in range(0, len(recs), chunk):
        part = [{kk: v for kk, v in r.items() if not kk.startswith('_')} for r in recs[base:base + chunk]]
        path = core.write_json('%s/c09_recs_%d.json' % (ctx.scratch, base), part)
        r = ctx.tlc('Trace_BSplineFit.tla', 'Trace_BSplineFit.cfg', dump=True, env={'VERIF_TRACE': path}, count=False,
                    label='Trace_BSplineFit[%d:%d]' % (base, base + len(part)), timeout=1500)
        seen = 0
        for st in core.iter_states(r):
            seen += 1
            if not st['ok']:
                bad[base + st['i'] - 1] = st.get('why', '')
            elif st['tid'] == -1:
                compared.add(base + st['i'] - 1)
        if seen != len(part):
            raise core.MachineryError('Trace_BSplineFit judged %d of %d records' % (seen, len(part)))
    return bad, compared


# ---------------------------------------------------------------------------------------------
# code -> spec: Cholesky records
def band_of(A, bw):
    n = A.shape[0]
    ab = np.zeros((bw, n + bw), dtype=A.dtype)
    for kk in range(bw):
        for j in range(n - kk):
            ab[kk, j] = A[j + kk, j]
    return ab


def chol_record(ab, b, n, bw, intmat, pdclaim):
    with Guard() as g:
        rec = _chol_record(ab, b, n, bw, intmat, pdclaim, g)
    rec['gsb'], rec['gsa'] = g.b, g.a
    return rec


def _chol_record(ab, b, n, bw, intmat, pdclaim, g):
    m = _mod()
    finite = bool(np.all(np.isfinite(ab)))
    keep = ab.copy()
    rec = {'kind': 'chol', 'n': n, 'bw': bw, 'intmat': intmat, 'finite': finite, 'pdclaim': pdclaim,
           'ab': [[int(v) if np.isfinite(v) else 0 for v in row] for row in ab] if intmat else [[0]],
           'b': [int(v) for v in b] if intmat else [0], 'okobs': False, 'same': True, 'exact': False,
           'L': [[0]], 'x': [0], 'ldev': 0, 'xdev': 0, 'resL': 0, 'resX': 0, 'exc': ''}
    try:
        ret = m.cholesky_band(ab)
        g.mark()
        rec['okobs'] = bool(is_success(ret[0]))
        if not rec['okobs']:
            rec['same'] = bool(isinstance(ret[1], np.ndarray) and ret[1].shape == keep.shape and
                               np.array_equal(ret[1], keep, equal_nan=True))
            return rec
        L = np.asarray(ret[1], dtype='d')
        x = np.asarray(m.cholesky_solve(L.copy(), np.asarray(b, dtype='d').copy()), dtype='d')
        g.mark()
    except Exception as ex:
        g.mark()
        rec['exc'] = short_exc(ex)
        return rec
    if L.shape != keep.shape or x.shape != (n + bw,):
        rec['exc'] = 'shape of factor %r / solution %r' % (L.shape, x.shape)
        return rec
    # measured residuals (dense): || L L^T - A || and || A x - b ||, relative, in units of 1e-12
    Ld = np.zeros((n, n))
    Ad = np.zeros((n, n))
    for kk in range(bw):
        for j in range(n - kk):
            Ld[j + kk, j] = L[kk, j]
            Ad[j + kk, j] = Ad[j, j + kk] = keep[kk, j]
    sa = max(1.0, np.abs(Ad).max())
    rl = np.abs(Ld.dot(Ld.T) - Ad).max() / sa
    bx = np.asarray(b, dtype='d')[:n]
    rx = np.abs(Ad.dot(x[:n]) - bx).max() / max(1.0, np.abs(bx).max(), sa * np.abs(x[:n]).max())
    pad = max(np.abs(L[:, n:]).max() if bw else 0.0, np.abs(x[n:]).max() if bw else 0.0,
              max([np.abs(L[kk, n - kk:]).max() for kk in range(bw)]))
    rec['resL'] = min(CAP, int(math.ceil((rl + pad) / 1e-12))) if np.isfinite(rl + pad) else CAP
    rec['resX'] = min(CAP, int(math.ceil(rx / 1e-12))) if np.isfinite(rx) else CAP
    Lr, xr = np.rint(L), np.rint(x)
    ldev, xdev = np.abs(L - Lr).max(), np.abs(x - xr).max()
    if intmat and ldev < 1e-7 and xdev < 1e-7 and np.abs(Lr).max() < 1e6 and np.abs(xr).max() < 1e6:
        rec['exact'] = True
        rec['L'] = [[int(v) for v in row] for row in Lr]
        rec['x'] = [int(v) for v in xr]
        rec['ldev'] = int(math.ceil(ldev / 1e-12))
        rec['xdev'] = int(math.ceil(xdev / 1e-12))
    return rec


def chol_records(rng, count):
    recs = []
    for r in range(count):
        mode = r % 4
        bw = rng.randint(1, 6)
        if mode in (0, 1):                 # integer factor, signature all positive (0) or one entry <= 0 (1)
            n = rng.randint(1, 12)
            L = np.zeros((n, n), dtype=np.int64)
            for i in range(n):
                L[i, i] = rng.randint(1, 4)
                for j in range(max(0, i - bw + 1), i):
                    L[i, j] = rng.randint(-3, 3)
            d = np.ones(n, dtype=np.int64)
            if mode == 1:
                d[rng.randrange(n)] = rng.choice([0, -1])
            A = (L * d).dot(L.T)
            x0 = np.array([rng.randint(-4, 4) for _ in range(n)], dtype=np.int64)
            b = np.concatenate([A.dot(x0), np.zeros(bw, dtype=np.int64)])
            ab = band_of(A, bw).astype('d')
            if r % 16 == 5:                # a non-finite entry inside the band
                kk = rng.randrange(min(bw, n))
                ab[kk, rng.randrange(n - kk)] = rng.choice([np.inf, -np.inf, np.nan])
            recs.append(chol_record(ab, b, n, bw, True, False))
        elif mode == 2:                    # arbitrary small symmetric integer band matrix: TLC decides definiteness
            n = rng.randint(1, 3)
            A = np.zeros((n, n), dtype=np.int64)
            for i in range(n):
                A[i, i] = rng.randint(-1, 6)
                for j in range(max(0, i - bw + 1), i):
                    A[i, j] = A[j, i] = rng.randint(-3, 3)
            b = np.array([rng.randint(-5, 5) for _ in range(n)] + [0] * bw, dtype=np.int64)
            recs.append(chol_record(band_of(A, bw).astype('d'), b, n, bw, True, False))
        else:                              # float, diagonally dominant with positive diagonal: positive definite
            n = rng.randint(bw, 60)
            A = np.zeros((n, n))
            for i in range(n):
                for j in range(max(0, i - bw + 1), i):
                    A[i, j] = A[j, i] = rng.uniform(-1, 1) * 10 ** rng.uniform(-2, 1)
            for i in range(n):
                A[i, i] = np.abs(A[i]).sum() * rng.uniform(1.05, 3.0) + 10 ** rng.uniform(-3, 0)
            b = np.array([rng.uniform(-10, 10) for _ in range(n)] + [0.0] * bw)
            recs.append(chol_record(band_of(A, bw), b, n, bw, False, True))
    return recs


# ---------------------------------------------------------------------------------------------
# code -> spec: law instances on realistic float fits
def float_problem(rng, quick):
    k = rng.choice([1, 2, 3, 4, 4, 5, 6])
    S = rng.randint(1, 8 if quick else 20)
    sparse = rng.random() < 0.4
    if sparse:
        # irregular sampling: cells holding exactly one point next to cells with 0, 2, 3 (whether the system is still
        # determined is TLC's verdict on the support counts)
        k = rng.choice([1, 2, 2, 3, 3, 4])
        S = max(S, 3)
    intx = None
    if rng.random() < 0.35:
        # pixel-index style data: integer breakpoints, distinct integer abscissae, handed over as an integer-typed array
        width = rng.choice([16, 24, 50])
        lo = rng.choice([0, 0, rng.randint(-40, 3000)])
        if lo == 0 and S * width <= 255 and rng.random() < 0.5:
            intx = 'uint8'
        else:
            intx = rng.choice(['int64', 'int32', 'int16'])
        bk = (lo + width * np.arange(S + 1)).astype('d')
        xs = [int(bk[0]), int(bk[-1])]
        for c0 in range(S):
            cnt = rng.randint(k + 2, 14) if not sparse else rng.choice([1, 1, 2, 3] if k == 1 else [1, 1, 1, 2, 2, 3, 0])
            xs.extend(rng.sample(range(int(bk[c0]) + 1, int(bk[c0 + 1])), cnt))
        x = np.array(sorted(xs), dtype=intx)
        xf = x.astype('d')
        amp = 10 ** rng.uniform(-1, 3) * 2.0 ** rng.choice([0, 0, 0, -40, 20, 40])
        wfac = 2.0 ** rng.choice([0, 0, 0, -70, -10, 40])
        y = amp * (np.sin((xf - lo) / width * 1.7) + 0.3 * np.array([rng.gauss(0, 1) for _ in x]))
        w = np.array([0.0 if rng.random() < (0.03 if sparse else 0.08) else rng.choice([0.5, 1.0, 1.0, 2.0, 4.0]) for _ in x],
                     dtype='d') / (0.1 * amp) ** 2 * wfac
        return k, bk, x, y, w, amp, sparse
    lo = rng.uniform(-100, 4000)
    width = 10 ** rng.uniform(-1, 2)
    bk = lo + width * np.arange(S + 1)
    if rng.random() < 0.5 and S > 1:       # uneven interior breakpoints (the padding stays at the first spacing)
        bk[1:-1] += width * np.array([rng.uniform(-0.3, 0.3) for _ in range(S - 1)])
    per = rng.randint(k + 2, 14)
    xs = []
    for c0 in range(S):
        cnt = per if not sparse else rng.choice([1, 1, 2, 3] if k == 1 else [1, 1, 1, 2, 2, 3, 0])
        xs.extend(rng.uniform(bk[c0] + 0.05 * (bk[c0 + 1] - bk[c0]), bk[c0 + 1] - 0.05 * (bk[c0 + 1] - bk[c0])) for _ in range(cnt))
    xs.extend([bk[0], bk[-1]])
    x = np.array(sorted(xs), dtype='d')
    # magnitudes over a wide range: y in "large units" with correspondingly tiny inverse variances and the reverse
    amp = 10 ** rng.uniform(-1, 3) * 2.0 ** rng.choice([0, 0, 0, -40, -20, 20, 30, 40])
    wfac = 2.0 ** rng.choice([0, 0, 0, -70, -40, -10, 10, 40, 70])
    y = amp * (np.sin((x - lo) / width * 1.7) + 0.3 * np.array([rng.gauss(0, 1) for _ in x]))
    pz = 0.03 if sparse else 0.08
    w = np.array([0.0 if rng.random() < pz else rng.choice([0.5, 1.0, 1.0, 2.0, 4.0]) for _ in x], dtype='d') / (0.1 * amp) ** 2 * wfac
    return k, bk, x, y, w, amp, sparse


def sset_on(k, bk, x):
    m = _mod()
    return m.bspline(x, nord=k, bkpt=np.array(bk, dtype='d').copy())


def law_records(rng, count, quick, stats):
    recs = []
    for r in range(count):
        law = ('lstsq', 'zw', 'lin', 'poly')[r % 4]
        k, bk, x, y, w, amp, sparse = float_problem(rng, quick)
        rec = {'kind': 'fitlaw', 'law': law, 'nord': k, 'S': 0, 'pc': [0], 'st': [], 'finite': True, 'exc': '',
               'disc': 0, 'bdisc': 0, 'condok': True, 'mask': [], 'tol': LAWTOL, 'altered': [], 'zeroidx': [],
               '_sparse': sparse, '_xdtype': str(x.dtype), 'gsb': gstate(), 'gsa': gstate()}
        obsl = []
        isint = x.dtype.kind in 'iu'
        if isint:
            rec['tol'] = int(DT_RTOL.get(str(x.dtype), 0) / 1e-9) or LAWTOL      # narrow integers promote to float32
        xf = np.asarray(x, dtype='d')
        try:
            s = sset_on(k, bk, x)
        except Exception as ex:              # constructor trouble is C08's subject
            stats['constructor_failed'] = stats.get('constructor_failed', 0) + 1
            continue
        knots = np.asarray(s.breakpoints, dtype='d').copy()
        ab = support_counts(knots, k, xf, w)
        if ab is None or (k == 1 and any(ab[1][q] for q in range(2, 2 * ab[0] - 1, 2))):
            stats['unabstractable'] = stats.get('unabstractable', 0) + 1
            continue
        rec['S'], rec['pc'] = ab
        rec['mask'] = list(range(1, knots.size + 1))
        # measured conditioning of the weighted design: the unit of the discrepancies grows with cond^2 (the code solves
        # the normal equations); numerically singular systems are not compared
        try:
            sv = np.linalg.svd(design_matrix(knots, k, xf) * np.sqrt(w)[:, None], compute_uv=False)
            kappa = sv[0] / sv[-1] if (sv.size == knots.size - k and sv[-1] > 0) else np.inf
        except Exception:
            kappa = np.inf
        rec['condok'] = bool(kappa <= 1e5)
        cfac = max(1.0, kappa ** 2 * 1.1e-8) if rec['condok'] else 1.0

        def fit1(yy, ww):
            s1 = sset_on(k, bk, x)
            o = call_fit(s1, x, yy, ww)
            obsl.append(o)
            return o, np.asarray(s1.coeff, dtype='d').copy(), s1
        try:
            if law == 'lstsq':
                o, cf, s1 = fit1(y, w)
                rec['st'] = [o['st']]
                rec['finite'] = o['finite']
                if o['exc']:
                    rec['exc'] = o['exc']
                elif o['st'] == 0:
                    ref, rank, A = dense_wls(knots, k, xf, y, w)
                    if rank == ref.size:
                        scale = max(np.abs(ref).max() * cfac, amp * cfac * 1e-3)
                        rec['disc'] = max(units(np.abs(cf - ref).max(), scale), units(np.abs(o['yfit'] - A.dot(ref)).max(), scale))
            elif law == 'zw':
                zi = [int(q) for q in np.nonzero(w == 0)[0]]
                y2 = y.copy()
                alt = [q for q in zi if rng.random() < 0.7]
                for q in alt:
                    y2[q] += rng.choice([-1, 1]) * amp * 10 ** rng.uniform(0, 3)
                o1, c1, _ = fit1(y, w)
                o2, c2, _ = fit1(y2, w)
                rec['st'] = [o1['st'], o2['st']]
                rec['finite'] = o1['finite'] and o2['finite']
                rec['exc'] = o1['exc'] or o2['exc'] or ''
                rec['altered'], rec['zeroidx'] = [q + 1 for q in alt], [q + 1 for q in zi]
                if not rec['exc'] and rec['st'] == [0, 0]:
                    rec['disc'] = units(np.abs(c1 - c2).max(), max(np.abs(c1).max() * cfac, amp * cfac * 1e-3))
            elif law == 'lin':
                ya = amp * np.array([rng.gauss(0, 1) for _ in x])
                al, be = rng.uniform(-3, 3), rng.uniform(-3, 3)
                o1, c1, _ = fit1(y, w)
                o2, c2, _ = fit1(ya, w)
                o3, c3, _ = fit1(al * y + be * ya, w)
                rec['st'] = [o1['st'], o2['st'], o3['st']]
                rec['finite'] = o1['finite'] and o2['finite'] and o3['finite']
                rec['exc'] = o1['exc'] or o2['exc'] or o3['exc'] or ''
                if not rec['exc'] and rec['st'] == [0, 0, 0]:
                    scale = max(np.abs(c1).max() * cfac, np.abs(c2).max() * cfac, amp * cfac * 1e-3) * (abs(al) + abs(be) + 1)
                    rec['disc'] = units(np.abs(c3 - (al * c1 + be * c2)).max(), scale)
            else:
                pcs = [amp * rng.uniform(-1, 1) for _ in range(k)]
                u = (xf - bk[0]) / (bk[-1] - bk[0])
                yp = sum(cv * u ** e for e, cv in enumerate(pcs))
                o, cf, s1 = fit1(yp, w)
                rec['st'] = [o['st']]
                rec['finite'] = o['finite']
                rec['exc'] = o['exc'] or ''
                if not rec['exc'] and o['st'] == 0:
                    if isint:           # integer-typed evaluation points
                        px = np.array(sorted(rng.randint(int(bk[0]), int(bk[-1])) for _ in range(25)), dtype=x.dtype)
                    else:
                        px = np.array(sorted(rng.uniform(bk[0], bk[-1]) for _ in range(25)))
                    pu = (px.astype('d') - bk[0]) / (bk[-1] - bk[0])
                    val, vm = s1.value(px)
                    d = max(np.abs(o['yfit'] - yp).max(), np.abs(val - sum(cv * pu ** e for e, cv in enumerate(pcs))).max())
                    rec['disc'] = units(d, max(np.abs(yp).max() * cfac, amp * cfac * 1e-3)) if np.all(vm) else CAP
        except Exception as ex:
            rec['exc'] = 'harness-side: ' + short_exc(ex)
        rec['st'] = [v if isinstance(v, int) else 99 for v in rec['st']]
        for o in obsl:
            if o['gsb'] != o['gsa']:
                rec['gsb'], rec['gsa'] = o['gsb'], o['gsa']
                break
        stats['maxdisc_' + law] = max(stats.get('maxdisc_' + law, 0), rec['disc'])
        recs.append(rec)
    return recs


# ---------------------------------------------------------------------------------------------
# code -> spec: histories of fit calls
def loop_history(rng, notes, big):
    """Harness-driven loop: fit until 0 / -2 (at most S fits) on a random support pattern."""
    nord = rng.choice([1, 2, 3, 4, 4, 5, 6])
    S = rng.randint(1, 12 if big else 7)
    style = rng.choice(['gaps', 'sparse', 'dense', 'fewpoints', 'allzero', 'edges'])
    pc = [0] * (2 * S + 1)
    for c0 in range(S):
        q = 2 * c0 + 1          # 0-based index of the inside of cell c0
        if style == 'gaps':
            pc[q] = 0 if rng.random() < 0.35 else rng.choice([1, 2, nord + 1])
        elif style == 'sparse':
            pc[q] = rng.choice([0, 1, 1, 2])
        elif style == 'dense':
            pc[q] = rng.choice([nord, nord + 1, nord + 3])
        elif style == 'fewpoints':
            pc[q] = 1 if rng.random() < 1.5 / S else 0
        elif style == 'edges':
            pc[q] = nord + 1 if c0 in (0, S - 1) else 0
    if style not in ('allzero',) and nord > 1:
        for g in range(S + 1):
            if rng.random() < 0.15:
                pc[2 * g] = 1
    elif style != 'allzero':
        for g in (0, S):
            if rng.random() < 0.2:
                pc[2 * g] = 1
    s = make_sset(nord, knots_for(nord, S), notes)
    x, y, w = cell_data(nord, S, pc, rng)
    if style == 'allzero' and rng.random() < 0.5:
        x, y, w = np.array([], dtype='d'), np.array([], dtype='d'), np.array([], dtype='d')     # no data at all
        style = 'empty'
    pf = None
    if rng.random() < 0.5 and x.size:
        pf = poly_for(nord, rng, 0.0, float(S), 3.0)
        y = pf(x)
    # magnitudes: the histories must not depend on the units of y or of the inverse variances
    ysc, wsc = 2.0 ** rng.choice([0, 0, -40, -20, 20, 40]), 2.0 ** rng.choice([0, 0, -70, -40, -10, 10, 40, 70])
    y, w = y * ysc, w * wsc
    if pf is not None:
        pf0 = pf
        pf = lambda xx: pf0(xx) * ysc
    events = []
    mrecs = []
    for _ in range(S):
        ill = illcond(s, x, w)
        weak = weak_functions(s, x, w)
        o = call_fit(s, x, y, w)
        if not o['exc'] and not o['before'].all():
            meas = masked_measure(s, x, y, w, o['yfit'], rng, poly=pf) if o['st'] == 0 else \
                masked_measure(s, x, y, w, None, rng)
            mrecs.append(masked_record('masked-poly' if pf else 'masked', nord, S, pc, good(o['before']), o['st'], o['finite'],
                                       meas, 'loop/' + style, {'x': x.tolist(), 'y': y.tolist(), 'w': w.tolist()}, ill=ill,
                                       gs=(o['gsb'], o['gsa'])))
        if o['exc']:
            events.append({'a': 'raise', 'exc': o['exc'], 'mask': good(o['before'])})
            break
        events.append({'a': 'fit', 'mask': good(o['before']), 'st': o['st'] if isinstance(o['st'], int) else 99,
                       'after': good(o['after']), 'finite': o['finite'], 'illcond': ill, 'gsb': o['gsb'], 'gsa': o['gsa'], 'argsok': True,
                       'weak': weak})
        if o['st'] in (0, -2) or not isinstance(o['st'], int):
            break
    return {'nord': nord, 'S': S, 'pc': pc, 'maxfits': S, 'events': events, 'src': 'loop/' + style,
            'data': {'x': x.tolist(), 'y': y.tolist(), 'w': w.tolist()}, 'masked': mrecs}


def run_phases(nord, S, phases, rng, notes, src):
    """Repeated fit() calls on ONE object while the data change: phases = [(pc, x, y, w), ...]; within a phase the fit
    is repeated while it answers -1.  Returns (events, masked records)."""
    s = make_sset(nord, knots_for(nord, S), notes)
    events, mrecs = [], []
    for ph, (pc, x, y, w) in enumerate(phases):
        if ph:
            events.append({'a': 'data', 'pc': list(pc), 'more': S})
        for _ in range(S):
            ill = illcond(s, x, w)
            weak = weak_functions(s, x, w)
            o = call_fit(s, x, y, w)
            if o['exc']:
                events.append({'a': 'raise', 'exc': o['exc'], 'mask': good(o['before'])})
                return events, mrecs
            if not o['before'].all():
                meas = masked_measure(s, x, y, w, o['yfit'] if o['st'] == 0 else None, rng)
                mrecs.append(masked_record('masked', nord, S, pc, good(o['before']), o['st'], o['finite'], meas, src,
                                           {'x': x.tolist(), 'y': y.tolist(), 'w': w.tolist()}, ill=ill, gs=(o['gsb'], o['gsa'])))
            events.append({'a': 'fit', 'mask': good(o['before']), 'st': o['st'] if isinstance(o['st'], int) else 99,
                           'after': good(o['after']), 'finite': o['finite'], 'illcond': ill, 'gsb': o['gsb'], 'gsa': o['gsa'],
                           'argsok': True, 'weak': weak})
            if o['st'] in (0, -2) or not isinstance(o['st'], int):
                break
    return events, mrecs


def multidata_history(rng, notes, big):
    """One object, data that change between fits: a gap wider than the spacing, then a SECOND gap to the right / to the
    left of / overlapping the region already masked (weights set to zero or points removed), then all data back."""
    nord = rng.choice([1, 2, 2, 3, 3, 4, 4, 5, 6])
    where = rng.choice(['right', 'right', 'left', 'overlap', 'adjacent'])
    # a gap is at least as wide as the support of a basis function (nord cells), so that some function sees no datum
    la, lb = max(2, nord) + rng.randint(0, 2), max(2, nord) + rng.randint(0, 1)
    S = la + lb + rng.randint(5, 12 if big else 8)
    if where == 'left':
        a0 = rng.randint(min(lb + 2, S - la - 1), S - la - 1)
        b0 = rng.randint(0, max(0, a0 - lb - 1))
    else:
        a0 = rng.randint(1, max(1, S - la - lb - 2))
        if where == 'right':
            b0 = min(S - lb, a0 + la + 1 + rng.randint(0, max(0, S - lb - 1 - (a0 + la + 1))))
        elif where == 'overlap':
            b0 = a0 + la - 1
        else:
            b0 = a0 + la
    gapA = set(range(a0, min(S, a0 + la)))
    gapB = set(c for c in range(b0, min(S, b0 + lb)))

    def pattern(gaps):
        pc = [0] * (2 * S + 1)
        for c0 in range(S):
            pc[2 * c0 + 1] = 0 if c0 in gaps else rng.choice([nord + 1, nord + 2])
        return pc
    pcs = [pattern(gapA), pattern(gapA | gapB)]
    if rng.random() < 0.5:
        pcs.append(pattern(set()))                       # the data come back: the mask does not
    ysc, wsc = 2.0 ** rng.choice([0, 0, -20, 20]), 2.0 ** rng.choice([0, 0, -40, 10, 40])
    phases = []
    for pc in pcs:
        x, y, w = cell_data(nord, S, pc, rng)
        phases.append((pc, x, y * ysc, w * wsc))
    src = 'multi/' + where
    events, mrecs = run_phases(nord, S, phases, rng, notes, src)
    return {'nord': nord, 'S': S, 'pc': pcs[0], 'maxfits': S, 'events': events, 'src': src, 'masked': mrecs,
            'data': {'phases': [{'pc': list(pc), 'x': x.tolist(), 'y': y.tolist(), 'w': w.tolist()} for pc, x, y, w in phases]}}


class Recorder(object):
    """Wraps bspline.fit for the duration of one iterfit call."""
    def __init__(self, m, rng=None, poly=None, always=False, expect=None):
        self.m = m
        self.always = always
        self.expect = expect        # the caller's (x, y, invvar): what every fit must be handed, sorted by x
        self.events = []
        self.orig = m.bspline.fit
        self.rng = rng
        self.poly = poly
        self.meas = []          # (good knots before, status, finite, measurements) of fits on objects with dropped breakpoints

    def __enter__(self):
        rec = self

        def fit(sself, xdata, ydata, invvar, x2=None):
            before = np.array(sself.mask, dtype=bool).copy()
            ill = illcond(sself, np.asarray(xdata, dtype='d'), np.asarray(invvar, dtype='d'))
            weak = weak_functions(sself, xdata, np.asarray(invvar, dtype='d'))
            argsok = True
            if rec.expect is not None:
                # abstraction: the fit is handed the caller's triples (weights clipped at 0), in non-decreasing x
                def canon(xx, yy, ww):
                    t3 = np.array([np.asarray(xx, dtype='d'), np.asarray(yy, dtype='d'), np.clip(np.asarray(ww, dtype='d'), 0, None)])
                    return t3[:, np.lexsort(t3[::-1])]
                got, want = canon(xdata, ydata, invvar), canon(*rec.expect)
                argsok = bool(got.shape == want.shape and np.array_equal(got, want) and
                              np.all(np.diff(np.asarray(xdata, dtype='d')) >= 0))
            g = Guard()
            try:
                with g:
                    ret = rec.orig(sself, xdata, ydata, invvar, x2=x2)
            except Exception as ex:
                rec.events.append({'a': 'raise', 'exc': short_exc(ex), 'mask': good(before)})
                raise
            st, yfit = ret
            fin = bool(np.all(np.isfinite(np.asarray(sself.coeff, dtype='d'))) and np.all(np.isfinite(np.asarray(yfit, dtype='d'))))
            rec.events.append({'a': 'fit', 'mask': good(before), 'after': good(np.array(sself.mask, dtype=bool)),
                               'st': int(st) if isinstance(st, (int, np.integer)) else 99, 'finite': fin, 'illcond': ill,
                               'gsb': g.b, 'gsa': g.a, 'argsok': argsok, 'weak': weak})
            if rec.rng is not None and (rec.always or not before.all()) and x2 is None:
                st0 = isinstance(st, (int, np.integer)) and int(st) == 0
                xd, yd, wd = np.asarray(xdata), np.asarray(ydata, dtype='d'), np.asarray(invvar, dtype='d')
                rec.meas.append((good(before), int(st) if isinstance(st, (int, np.integer)) else 99, fin, ill, (g.b, g.a),
                                 masked_measure(sself, xd, yd, wd, np.asarray(yfit, dtype='d') if st0 else None, rec.rng,
                                                poly=rec.poly if st0 else None)))
            return ret
        self.m.bspline.fit = fit
        return self

    def __exit__(self, *a):
        self.m.bspline.fit = self.orig
        return False


def iterfit_history(rng, stats):
    """The real iterfit (rejection disabled by huge limits) on data with gaps / empty cells / few points / zero weights."""
    m = _mod()
    nord = rng.choice([1, 2, 3, 4, 4, 5])
    style = rng.choice(['gap', 'gap', 'twogaps', 'fewpoints', 'allzero', 'dense', 'zeroblock', 'edgegap'])
    span = 10 ** rng.uniform(0, 3)
    x0 = rng.uniform(-50, 5000)
    nseg = rng.randint(3, 14)
    how = rng.choice(['bkspace', 'nbkpts', 'bkpt'])
    n = rng.randint(40, 160)
    u = np.sort(np.array([rng.random() for _ in range(n)]))
    u[0], u[-1] = 0.0, 1.0
    w = np.array([rng.choice([0.5, 1.0, 2.0]) for _ in range(n)], dtype='d')
    if style in ('gap', 'twogaps', 'edgegap'):
        for _ in range(2 if style == 'twogaps' else 1):
            gw = rng.uniform(1.2, 3.5) / nseg
            a = rng.uniform(0.02, 0.98 - gw) if style != 'edgegap' else rng.choice([0.01, 0.99 - gw])
            keep = (u < a) | (u > a + gw)
            keep[0] = keep[-1] = True
            if rng.random() < 0.5:
                u, w = u[keep], w[keep]                  # the gap holds no points at all
            else:
                w = np.where(keep, w, 0.0)               # the gap holds only zero-weight points
    elif style == 'fewpoints':
        idx = sorted(rng.sample(range(len(u)), rng.randint(1, nord + 1)))
        w2 = np.zeros_like(w)
        w2[idx] = 1.0
        w = w2
    elif style == 'allzero':
        w = np.zeros_like(w)
    elif style == 'zeroblock':
        a = rng.uniform(0.1, 0.6)
        w = np.where((u > a) & (u < a + rng.uniform(0.15, 0.35)), 0.0, w)
    x = x0 + span * u
    xdtype = 'd'
    if rng.random() < 0.35:
        # pixel indices: integer abscissae in an integer-typed array (ties possible)
        span = float(40 * nseg)
        x0 = float(rng.choice([0, rng.randint(-50, 5000)]))
        xdtype = rng.choice(['int64', 'int32', 'int16'])
        x = (x0 + np.rint(span * u)).astype(xdtype)
    y = np.sin(4 * u) * 3 + np.array([rng.gauss(0, 0.1) for _ in u])
    pf = None
    if rng.random() < 0.5:
        pf = poly_for(nord, rng, x0, x0 + span, 3.0)
        y = pf(x)
    kw = {'nord': nord}
    if how == 'bkspace':
        kw['bkspace'] = span / nseg * rng.uniform(0.9, 1.1)
    elif how == 'nbkpts':
        kw['nbkpts'] = nseg + 1
    else:
        gx = x[w > 0]
        if gx.size < 2 or gx.min() == gx.max():
            kw['nbkpts'] = nseg + 1
        else:
            kw['bkpt'] = np.linspace(float(gx.min()), float(gx.max()), nseg + 1)
    maxiter = rng.choice([0, 3, 10, 20])
    perm = np.arange(x.size)
    if rng.random() < 0.5:
        rng.shuffle(perm)
    events, sset, exc = [], None, None
    with Recorder(m, rng, pf, always=(xdtype != 'd'), expect=(x, y, w)) as rec:
        try:
            sset, outmask = m.iterfit(x[perm], y[perm], invvar=w[perm], upper=1e30, lower=1e30, maxiter=maxiter, **kw)
        except ValueError as ex:
            exc = short_exc(ex)
            if 'No valid data points' in str(ex) and not rec.events:
                rec.events.append({'a': 'refuse'})
                exc = None
            elif not (rec.events and rec.events[-1]['a'] == 'raise'):
                rec.events.append({'a': 'raise', 'exc': exc, 'mask': []})
        except Exception as ex:
            exc = short_exc(ex)
            if not (rec.events and rec.events[-1]['a'] == 'raise'):
                rec.events.append({'a': 'raise', 'exc': exc, 'mask': []})
        events = rec.events
    src = 'iterfit/%s/%s' % (style, how)
    hist = {'nord': nord, 'maxfits': maxiter + 1, 'events': events, 'src': src,
            'data': {'x': x[perm].tolist(), 'xdtype': xdtype, 'y': y[perm].tolist(), 'w': w[perm].tolist(), 'maxiter': maxiter,
                     'kw': {kk: (v.tolist() if isinstance(v, np.ndarray) else v) for kk, v in kw.items()}}}
    if sset is None:
        if events and events[0]['a'] == 'refuse':
            hist.update(S=1, pc=[0, 0, 0])
            return hist
        if not events or events[-1].get('mask') == []:
            # failed before any fit, outside bspline.fit (constructor: C08's subject)
            stats['iterfit_failed_outside_fit'] = stats.get('iterfit_failed_outside_fit', 0) + 1
            return None
        return dict(hist, S=None, pc=None)
    fin = bool(np.all(np.isfinite(np.asarray(sset.coeff, dtype='d'))))
    events.append({'a': 'return', 'mask': good(np.array(sset.mask, dtype=bool)), 'finite': fin})
    knots = np.asarray(sset.breakpoints, dtype='d')
    ab = support_counts(knots, sset.nord, np.asarray(x, dtype='d'), w)
    if np.any(np.diff(knots) <= 0) or ab is None or (nord == 1 and any(ab[1][q] for q in range(2, 2 * ab[0] - 1, 2))):
        stats['unabstractable'] = stats.get('unabstractable', 0) + 1
        return dict(hist, S=0, pc=[], weak=True)        # judged without a support problem (records mode, kind "run")
    hist['S'], hist['pc'] = ab
    nk = knots.size
    lawname = lambda gk: ('intx' if len(gk) == nk else 'masked-poly' if pf else 'masked')
    hist['masked'] = [masked_record(lawname(gk), nord, ab[0], ab[1], gk, st, fin2, meas, src, hist['data'],
                                    ill=ill2, gs=gs2) for gk, st, fin2, ill2, gs2, meas in rec.meas]
    if xdtype in DT_RTOL:
        for mr in hist['masked']:
            mr['tol'] = int(DT_RTOL[xdtype] / 1e-9)
    return hist


# ---------------------------------------------------------------------------------------------
# code -> spec: process histories (calls of every kind on different objects, nothing restored in between)
def proc_chol(rng, op):
    """op: P positive definite; R refused through the factorisation itself (positive diagonal, indefinite);
    B refused by the diagonal screening (a zero diagonal entry); N a non-finite entry."""
    m = _mod()
    bw = rng.randint(2, 4)
    for _ in range(30):
        n = rng.randint(2, 7)
        L = np.zeros((n, n), dtype=np.int64)
        for i in range(n):
            L[i, i] = rng.randint(1, 3)
            for j in range(max(0, i - bw + 1), i):
                L[i, j] = rng.randint(-3, 3)
        d = np.ones(n, dtype=np.int64)
        if op == 'R':
            d[rng.randrange(n)] = -1
        A = (L * d).dot(L.T)
        if op != 'R' or (np.all(np.diag(A) > 0)):
            break
    else:
        n, bw, A = 2, 2, np.array([[1, 2], [2, 1]], dtype=np.int64)
    if op == 'B':
        A = A.copy()
        j0 = rng.randrange(n)
        A[j0, j0] = 0
    ab = band_of(A, bw).astype('d')
    if op == 'N':
        ab[0, rng.randrange(n)] = rng.choice([np.inf, np.nan])
    keep = ab.copy()
    ev = {'op': 'chol', 'which': op, 'n': n, 'bw': bw, 'finite': bool(np.all(np.isfinite(ab))),
          'ab': [[int(v) if np.isfinite(v) else 0 for v in row] for row in ab], 'okobs': False, 'same': True, 'exc': ''}
    g = Guard()
    try:
        with g:
            ret = m.cholesky_band(ab)
        ev['okobs'] = bool(is_success(ret[0]))
        if not ev['okobs']:
            ev['same'] = bool(isinstance(ret[1], np.ndarray) and ret[1].shape == keep.shape and np.array_equal(ret[1], keep, equal_nan=True))
    except Exception as ex:
        ev['exc'] = short_exc(ex)
    ev['gsb'], ev['gsa'] = g.b, g.a
    return ev


def proc_fit(rng, op, notes):
    """op: W well supported; G a gap wider than the spacing; Z all weights zero; I one non-finite weight;
    Q all data at one abscissa.  The fit is repeated while it answers -1 (as iterfit does)."""
    nord = rng.randint(1, 4)
    S = rng.randint(2, 5)
    pc = [0] * (2 * S + 1)
    for c0 in range(S):
        pc[2 * c0 + 1] = nord + 1
    if op == 'G':
        for c0 in rng.sample(range(S), rng.randint(1, S - 1)):
            pc[2 * c0 + 1] = 0
    x, y, w = cell_data(nord, S, pc, rng, sprinkle=False)
    nonfinite = False
    wclass, pcfin, ibad, wfin = '', pc, None, None
    if op == 'Z':
        w = np.zeros_like(w)
        pc = [0] * (2 * S + 1)
    elif op == 'I':
        w = w.copy()
        ibad = rng.randrange(w.size)
        wclass = rng.choice(['inf', 'nan'])
        w[ibad] = np.inf if wclass == 'inf' else np.nan
        nonfinite = True
        wfin = np.where(np.isfinite(w) & (w > 0), w, 0.0)
        pcfin = support_counts(np.array(knots_for(nord, S), dtype='d'), nord, x, wfin)[1]
    elif op == 'Q':
        c0 = rng.randrange(S)
        x = np.full(6, c0 + 0.5)
        y = np.arange(6, dtype='d')
        w = np.ones(6)
        pc = [0] * (2 * S + 1)
        pc[2 * c0 + 1] = 1
    s = make_sset(nord, knots_for(nord, S), notes)
    out = []
    for _ in range(S):
        with np.errstate(all='ignore'):
            ill = (not nonfinite) and illcond(s, x, w)
        o = call_fit(s, x, y, w)
        out.append({'op': 'fit', 'which': op, 'nord': nord, 'S': S, 'pc': pc, 'mask': good(o['before']), 'after': good(o['after']),
                    'st': o['st'] if isinstance(o['st'], int) else 99, 'finite': bool(o['finite']) or bool(o['exc']),
                    'illcond': bool(ill), 'nonfinite': nonfinite, 'exc': o['exc'] or '', 'gsb': o['gsb'], 'gsa': o['gsa'],
                    'wclass': wclass, 'pcfin': list(pcfin), 'disc': 0, 'tol': LAWTOL, 'condok': False})
        if o['exc'] or o['st'] != -1:
            break
    if nonfinite and out and out[-1]['st'] == 0 and not out[-1]['exc']:
        # an answer 0 with a non-finite weight: measured against what the specification admits
        with np.errstate(all='ignore'):
            if wclass == 'inf':
                sc = max(np.abs(y).max(), 1e-300)
                out[-1]['disc'] = units(abs(float(o['yfit'][ibad]) - float(y[ibad])), sc)
            else:
                meas = masked_measure(s, x, y, wfin, o['yfit'], rng)
                out[-1]['disc'], out[-1]['condok'] = meas['disc'], bool(meas['condok'])
                if meas['exc']:
                    out[-1]['exc'] = meas['exc']
    return out


def process_history(seed, notes):
    """One process history: 6-9 operations in random order, at least one refusal through the factorisation; the global
    state is NOT restored between the calls (it is at the end)."""
    rng = random.Random(seed)
    ops = ['R'] + [rng.choice('RRBNPWWGGZIIQQ') for _ in range(rng.randint(5, 8))]
    rng.shuffle(ops)
    events = []
    err, filt = np.geterr(), list(warnings.filters)
    RESTORE[0] = False
    try:
        for op in ops:
            if op in 'RBNP':
                events.append(proc_chol(rng, op))
            else:
                events.extend(proc_fit(rng, op, notes))
    finally:
        RESTORE[0] = True
        np.seterr(**err)
        warnings.filters[:] = filt
    return {'kind': 'proc', 'events': events, 'ops': ''.join(ops), 'exc': '', '_pseed': seed}


_POS = re.compile(r'<<"C09POS", (\d+), (\d+)>>')


def validate_histories(ctx, hists, label):
    """Returns {index: number of events explained} for the histories TLC refuses."""
    out = {}
    chunk = 400
    for base in range(0, len(hists), chunk):
        part = hists[base:base + chunk]
        path = core.write_json(ctx.scratch + '/c09_runs_%d.json' % base,
                               [{kk: h[kk] for kk in ('nord', 'S', 'pc', 'maxfits', 'events')} for h in part])
        r = ctx.tlc('Trace_BSplineFit.tla', 'Trace_BSplineFit_runs.cfg', env={'VERIF_TRACE': path}, count=False,
                    label='%s[%d:%d]' % (label, base, base + len(part)), timeout=1200)
        far = {}
        for mm in _POS.finditer(r['stdout']):
            t, p = int(mm.group(1)), int(mm.group(2))
            far[t] = max(far.get(t, 1), p)
        if r['distinct'] < len(part):
            raise core.MachineryError('Trace_BSplineFit started fewer histories than given (%d states for %d)' % (r['distinct'], len(part)))
        for t, h in enumerate(part, start=1):
            reached = far.get(t, 1)
            if reached != len(h['events']) + 1:
                out[base + t - 1] = reached - 1
    return out


# ---------------------------------------------------------------------------------------------
def brief_case(c):
    if c['kind'] == 'chol':
        return 'n=%d bw=%d L=%s d=%s bad=%s mininf=%s' % (c['n'], c['bw'], [list(r) for r in c['L']], list(c['d']),
                                                         list(c['bad']), c['minf2'] / 2.0)
    if c['kind'] == 'fit':
        return 'order %d knots %s x=%s y=%s w=%s' % (c['k'], list(c['t']), [str(frac(q)) for q in c['x']], list(c['y']), list(c['w']))
    if c['kind'] == 'poly':
        return 'order %d knots %s, %d points, polynomial %s, w=%s' % (c['k'], list(c['t']), len(c['x']), list(c['pc']), list(c['w'])[:6])
    if c['kind'] == 'fewbk':
        return 'order %d, %d cells, good knots %s' % (c['k'], c['S'], sorted(c['good']))
    return str(c)[:200]


def jsonable(v):
    if isinstance(v, (frozenset, set)):
        return sorted(jsonable(x) for x in v)
    if isinstance(v, (tuple, list)):
        return [jsonable(x) for x in v]
    if isinstance(v, dict):
        return {str(k): jsonable(x) for k, x in v.items()}
    return v


def run_cases(ctx, notes):
    cfg = 'MC_BSplineFit_quick.cfg' if ctx.quick else 'MC_BSplineFit_thorough.cfg'
    r = ctx.tlc('MC_BSplineFit.tla', cfg, dump=True, timeout=3000)
    counts, bads = {}, {}
    nscaled = 0
    for st in core.iter_states(r):
        c, exp = st['c'], st['exp']
        kind = c['kind']
        if kind in ('root', 'seed'):
            continue
        if kind == 'chol':
            bad = run_chol_case(c, exp)
            part = 'chol-' + ('spd' if exp['ok'] else 'nonfinite' if c['bad'] else 'mininf' if c['minf2'] else
                              'indef-posdiag' if exp['posdiag'] else 'indef')
            if c['n'] >= 2:
                ctx.nontriv(('chol', c['n'], c['bw'], c['L'], c['d'], c['bad'], c['minf2']))
        elif kind == 'fit':
            bad = run_fit_case(c, exp, notes)
            part = 'fit-exact' if exp['wellposed'] else 'fit-illposed'
            nscaled += 0 if bad else 1
            if not bad and (not ctx.quick or nscaled % 2 == 0):   # the scale laws: same case, invvar * 2^a, y * 2^b (quick: every 2nd)
                a2, b2 = scale_pair(nscaled // 2 if ctx.quick else nscaled)
                bad = run_fit_case(c, exp, notes, a2, b2)
                ctx.evaluated(1, 'fit-rescaled')
                if bad:
                    part = 'fit-rescaled'
            if not bad:                      # the grid law: integer grid, integer-typed abscissae
                bad = run_fit_case(c, exp, notes, intx=nscaled)
                ctx.evaluated(1, 'fit-intx')
                if bad:
                    part = 'fit-intx'
            if exp['wellposed'] and len(c['x']) > len(c['t']) - c['k']:
                ctx.nontriv(('fit', c['k'], c['t'], c['x'], c['y'], c['w']))
        elif kind == 'poly':
            bad = run_poly_case(c, exp, notes)
            part = 'poly'
            if not bad:
                nscaled += 1
                a2, b2 = scale_pair(nscaled)
                bad = run_poly_case(c, exp, notes, a2, b2)
                ctx.evaluated(1, 'poly-rescaled')
                if bad:
                    part = 'poly-rescaled'
            if not bad:
                bad = run_poly_case(c, exp, notes, intx=nscaled)
                ctx.evaluated(1, 'poly-intx')
                if bad:
                    part = 'poly-intx'
            ctx.nontriv(('poly', c['k'], c['t'], c['pc'], c['w']))
        elif kind == 'fewbk':
            s = make_sset(c['k'], knots_for(c['k'], c['S']), notes)
            mk = np.zeros(s.mask.shape, dtype=bool)
            for g in c['good']:
                mk[g - 1] = True
            s.mask = mk
            pc = [(c['k'] + 1) if q % 2 == 0 else 0 for q in range(1, 2 * c['S'] + 2)]
            x, y, w = cell_data(c['k'], c['S'], pc, random.Random(ctx.seed), sprinkle=False)
            obs = call_fit(s, x, y, w)
            bad = judge_fit(obs, exp['allowed'], set())
            part = 'fewbk'
            ctx.nontriv(('fewbk', c['k'], c['S'], tuple(sorted(c['good']))))
        else:
            raise core.MachineryError('unknown case kind %r' % kind)
        counts[part] = counts.get(part, 0) + 1
        ctx.evaluated(1, part)
        ctx.validated()
        if counts[part] == 1:
            ctx.sample({'case': brief_case(c), 'part': part})
        if bad:
            bads[part] = bads.get(part, 0) + 1
            if bads[part] <= MAXREPORT:
                ctx.violation({'what': '%s: %s [%s]' % (part, bad, brief_case(c)), 'kind': kind, 'c': jsonable(c),
                               'exp': jsonable(exp)}, finding=classify(bad))
    notes['case_counts'] = counts
    notes['case_failures'] = bads
    return counts


def classify(bad):
    """Name the known deviation that explains the failure exactly, if any."""
    if 'maskpoints' in bad or ('IndexError' in bad and 'arrays used as indices' in bad) or \
            ("TypeError" in bad and "'numpy.float64' object cannot be interpreted as an integer" in bad):
        return 'D-C09-1'
    if 'could not broadcast input array' in bad:
        return 'D-C09-2'
    if 'index -1 is out of bounds for axis 0 with size 0' in bad:
        return 'D-C09-3'          # fit / value on empty data arrays raise IndexError in action()
    return None


def run_machine(ctx, notes):
    cfg = 'MC_BSplineFit_machine_quick.cfg' if ctx.quick else 'MC_BSplineFit_machine_thorough.cfg'
    r = ctx.tlc('MC_BSplineFit.tla', cfg, dump=True, timeout=3000)
    rng = random.Random(ctx.seed + 1)
    seen = set()
    nbad = 0
    stat = {}
    masked = []
    nmasked = nmasked_ok = 0
    for st in core.iter_states(r):
        if st['phase'] != 'fitting' or st['status'] not in (1, -1) or st['nfits'] >= st['prob']['maxfits']:
            continue
        P = st['prob']
        key = (P['nord'], P['S'], tuple(P['pc']), tuple(sorted(st['bkmask'])))
        if key in seen:
            continue
        seen.add(key)
        exp = st['exp']
        obs, data, sobj = run_state_fit(P['nord'], P['S'], P['pc'], st['bkmask'], rng, notes)
        bad = judge_fit(obs, exp['allowed'], exp['droppable'])
        if not bad and len(seen) % 3 == 0:
            # scale laws: the same state with invvar * 2^a, y * 2^b answers the same status with the same mask
            a2, b2 = scale_pair(len(seen) // 3)
            obs2, _d2, _s2 = run_state_fit(P['nord'], P['S'], P['pc'], st['bkmask'], rng, notes, data=data, a=a2, b=b2)
            ctx.evaluated(1, 'machine-step-rescaled')
            bad = judge_fit(obs2, exp['allowed'], exp['droppable'])
            if not bad and (obs2['st'] != obs['st'] or good(obs2['after']) != good(obs['after'])):
                bad = 'status %r / good knots %s, but %r / %s on the same data' % (obs2['st'], good(obs2['after']), obs['st'], good(obs['after']))
            if bad:
                bad += ' [replayed with invvar*2^%d, y*2^%d]' % (a2, b2)
                data = (data[0], data[1] * 2.0 ** b2, data[2] * 2.0 ** a2)
                obs = obs2
        if not bad and len(seen) % 3 == 1:
            # grid law: the same state on the integer grid (times 300), abscissae as an integer array
            dt = ['int64', 'int32', 'int16'][(len(seen) // 3) % 3]
            obs3, _d3, _s3 = run_state_fit(P['nord'], P['S'], P['pc'], st['bkmask'], rng, notes, data=data, grid=(300, dt))
            ctx.evaluated(1, 'machine-step-intx')
            bad = judge_fit(obs3, exp['allowed'], exp['droppable'])     # (300 is no power of two: where the class admits
            if bad:                                                       # several answers rounding may pick another one)
                bad += ' [replayed on the integer grid: knots and x times 300, x as %s]' % dt
        if len(st['bkmask']) < P['S'] + 2 * P['nord'] - 1 and not obs['exc']:
            # breakpoints had been dropped before this fit: basis consistency always, optimality when it answered 0
            nmasked += 1
            if obs['st'] == 0 and exp['determined']:
                nmasked_ok += 1
            if True:
                mrng = random.Random(ctx.seed * 31 + nmasked)
                dd = {'x': data[0].tolist(), 'y': data[1].tolist(), 'w': data[2].tolist()}
                meas = masked_measure(sobj, data[0], data[1], data[2], obs['yfit'], mrng)
                masked.append(masked_record('masked', P['nord'], P['S'], P['pc'], good(obs['before']), obs['st'], obs['finite'],
                                            meas, 'machine', dd, ill=obs['ill'], gs=(obs['gsb'], obs['gsa'])))
                if obs['st'] == 0 and (not ctx.quick or nmasked % 2 == 0):
                    # the same object state, polynomial data of degree < order (quick: every 2nd)
                    s2 = make_sset(P['nord'], knots_for(P['nord'], P['S']), notes)
                    s2.mask = obs['before'].copy()
                    pf = poly_for(P['nord'], mrng, 0.0, float(P['S']), 3.0)
                    yp = pf(data[0])
                    o2 = call_fit(s2, data[0], yp, data[2])
                    if o2['exc']:
                        meas2 = {'disc': 0, 'bdisc': 0, 'parts': {}, 'exc': o2['exc'], 'condok': False}
                    else:
                        meas2 = masked_measure(s2, data[0], yp, data[2], o2['yfit'], mrng, poly=pf)
                    masked.append(masked_record('masked-poly', P['nord'], P['S'], P['pc'], good(obs['before']), o2['st'],
                                                o2['finite'], meas2, 'machine', dict(dd, y=yp.tolist()), ill=obs['ill'],
                                                gs=(o2['gsb'], o2['gsa'])))
        ctx.evaluated(1, 'machine-step')
        ctx.validated()
        stat[obs['st']] = stat.get(obs['st'], 0) + 1
        if exp['allowed'] != frozenset([0]):
            ctx.nontriv(('m',) + key)
        if len(seen) in (1, 500):
            ctx.sample({'machine_state': {'nord': P['nord'], 'S': P['S'], 'pc': list(P['pc']), 'mask': sorted(st['bkmask'])},
                        'admissible': sorted(exp['allowed']), 'observed_status': obs['st']})
        if bad:
            nbad += 1
            if nbad <= MAXREPORT:
                ctx.violation({'what': 'fit from a machine state: %s [order %d, %d cells, support %s, good knots %s]' % (
                    bad, P['nord'], P['S'], list(P['pc']), sorted(st['bkmask'])), 'kind': 'machine',
                    'prob': jsonable(P), 'mask': sorted(st['bkmask']), 'exp': jsonable(exp),
                    'data': {'x': data[0].tolist(), 'y': data[1].tolist(), 'w': data[2].tolist()}},
                    finding=classify(bad + (obs.get('tb') or '')))
    notes['machine_steps'] = len(seen)
    notes['machine_status_counts'] = {str(k): v for k, v in stat.items()}
    notes['machine_failures'] = nbad
    notes['machine_masked_fits'] = nmasked
    notes['machine_masked_status0_determined'] = nmasked_ok
    notes['_masked_records'] = masked


def run_histories(ctx, notes):
    rng = random.Random(ctx.seed + 2)
    stats = {}
    hists = []
    nloop, niter = (220, 220) if ctx.quick else (2500, 2500)
    for k in range(nloop):
        hists.append(loop_history(rng, notes, big=not ctx.quick))
    for k in range(80 if ctx.quick else 1200):
        hists.append(multidata_history(rng, notes, big=not ctx.quick))
    for k in range(niter):
        h = iterfit_history(rng, stats)
        if h is not None:
            hists.append(h)
    unabs = [h for h in hists if h['pc'] is None]
    weak = [h for h in hists if h.get('weak')]
    hists = [h for h in hists if h['pc'] is not None and not h.get('weak')]
    notes['weak_histories'] = weak
    refused = validate_histories(ctx, hists, 'Trace_BSplineFit_runs')
    ctx.evaluated(len(hists), 'histories')
    ctx.validated(len(hists))
    srcs = {}
    for h in hists:
        srcs[h['src'].split('/')[0] + '/' + h['src'].split('/')[1]] = srcs.get(h['src'].split('/')[0] + '/' + h['src'].split('/')[1], 0) + 1
        sts = tuple(e.get('st') for e in h['events'] if e['a'] == 'fit')
        if any(s != 0 for s in sts) or not sts:
            ctx.nontriv(('h', h['nord'], h['S'], tuple(h['pc']), sts))
    ctx.sample({'history': {kk: hists[0][kk] for kk in ('nord', 'S', 'pc', 'maxfits', 'events', 'src')}})
    n = 0
    for h in unabs:          # an exception inside fit before the object came back: nothing to abstract, it is a failure anyway
        n += 1
        if n <= MAXREPORT:
            ev = h['events'][-1]
            ctx.violation({'what': 'iterfit: bspline.fit raised %s [%s]' % (ev.get('exc'), h['src']), 'kind': 'history',
                           'history': jsonable({kk: h[kk] for kk in ('nord', 'maxfits', 'events', 'src')}), 'data': h['data']},
                          finding=classify(ev.get('exc') or ''))
    for idx in sorted(refused):
        h = hists[idx]
        n += 1
        if n > MAXREPORT:
            break
        k = refused[idx]
        ev = h['events'][k] if k < len(h['events']) else None
        ctx.violation({'what': 'history refused by the status machine at event %d %s after %s [order %d, %d cells, support %s, %s]' % (
            k + 1, ev, [(e.get('st'), e.get('a')) for e in h['events'][:k]], h['nord'], h['S'], h['pc'], h['src']),
            'kind': 'history', 'history': jsonable({kk: h[kk] for kk in ('nord', 'S', 'pc', 'maxfits', 'events', 'src')}),
            'data': h['data']}, finding=classify((ev or {}).get('exc') or ''))
    # binding self-test of the runs mode: accepted histories with ONE event falsified must all be refused
    fals = []
    for idx, h in enumerate(hists):
        if idx in refused:
            continue
        fe = [j for j, e in enumerate(h['events']) if e['a'] == 'fit']
        if not fe:
            continue
        h2 = {kk: copy.deepcopy(h[kk]) for kk in ('nord', 'S', 'pc', 'maxfits', 'events')}
        e = h2['events'][fe[len(fals) % len(fe)]]
        m = len(fals) % 3
        if m == 0:
            e['finite'] = False                                     # non-finite coefficients
        elif m == 1:
            e['mask'] = e['mask'][:-1]                              # a flipped bit of the mask the fit started from
            e['after'] = [g for g in e['after'] if g in e['mask']]
        else:
            e['st'] = {0: -1, -1: 0, -2: -1}.get(e['st'], 0)        # a wrong status (mask change left as observed)
        fals.append(h2)
        if len(fals) >= (150 if ctx.quick else 600):
            break
    if not fals:
        raise core.MachineryError('binding self-test of the runs mode: nothing to falsify')
    refused_f = validate_histories(ctx, fals, 'Trace_BSplineFit_runs self-test')
    missed = [k for k in range(len(fals)) if k not in refused_f]
    ctx.cov['parts']['selftest_histories'] = {'falsified_histories': len(fals), 'refused': len(fals) - len(missed)}
    if missed:
        raise core.MachineryError('binding self-test of the runs mode: %d of %d falsified histories were accepted, e.g. %r'
                                  % (len(missed), len(fals), fals[missed[0]]))
    notes['_masked_records'] = notes.get('_masked_records', []) + [mr for h in hists for mr in h.get('masked', [])]
    stats['masked_fit_records'] = sum(len(h.get('masked', [])) for h in hists)
    stats['histories'] = srcs
    stats['refused'] = len(refused) + len(unabs)
    notes['histories'] = stats


def run_records(ctx, notes):
    rng = random.Random(ctx.seed + 3)
    stats = {}
    recs = chol_records(rng, 400 if ctx.quick else 6000)
    recs += law_records(rng, 240 if ctx.quick else 4000, ctx.quick, stats)
    weak = notes.pop('weak_histories', [])
    recs += [{'kind': 'run', 'events': h['events'], 'src': h['src'], '_data': h['data'], 'exc': ''} for h in weak]
    stats['weak_histories_judged'] = len(weak)
    masked = notes.pop('_masked_records', [])
    recs += masked
    procs = [process_history(ctx.seed * 1000 + k, notes) for k in range(60 if ctx.quick else 600)]
    recs += procs
    stats['process_histories'] = len(procs)
    stats['process_history_calls'] = sum(len(pr['events']) for pr in procs)
    stats['process_history_fallback_refusals'] = sum(1 for pr in procs for e in pr['events'] if e['op'] == 'chol' and e['which'] == 'R')
    bad, compared = judge_records(ctx, recs)
    # binding self-test: accepted records with ONE observed field falsified must all be rejected by the same judge
    fals = []
    cand = [k for k in range(len(recs)) if k not in bad]
    step = max(1, len(cand) // (400 if ctx.quick else 1200))
    for k in cand[::step]:
        rec = recs[k]
        r2 = copy.deepcopy({kk: v for kk, v in rec.items() if not kk.startswith('_')})
        m = len(fals) % 3
        if rec['kind'] == 'chol':
            if rec['exc']:
                continue
            if rec['okobs'] and rec['exact']:
                if m == 0:
                    r2['L'][0][0] += 1              # a wrong factor entry
                elif m == 1:
                    r2['x'][0] += 1                 # a wrong solution entry
                else:
                    r2['okobs'] = False             # a positive definite matrix reported as refused
            elif rec['okobs'] and not rec['intmat']:
                r2['resL' if m else 'resX'] = 10 ** 7
            elif not rec['okobs']:
                r2['same'] = False                  # problem signalled but the input not handed back
            else:
                continue
        elif rec['kind'] == 'fitlaw':
            if k not in compared:
                continue
            if len(fals) % 7 == 3:
                r2['gsa'] = list(r2['gsa'][:3]) + ['raise']      # global state left changed
            elif m == 0:
                r2['disc'] = r2['tol'] * 50 + 7     # coefficients beyond tolerance
            elif m == 1:
                r2['finite'] = False
            else:
                r2['bdisc'] = r2['tol'] * 50 + 7    # basis / value() inconsistent
        elif rec['kind'] == 'proc':
            e0 = r2['events'][len(fals) % len(r2['events'])]
            if m == 0:
                e0['gsa'] = ['raise'] + list(e0['gsa'][1:])       # floating-point error handling left changed
            elif m == 1:
                e0['exc'] = 'FloatingPointError: invalid value encountered in multiply'
            elif e0['op'] == 'chol':
                e0['gsa'] = [e0['gsa'][0], 'raise'] + list(e0['gsa'][2:])        # overflow handling left changed
            else:
                e0['st'] = 7
        elif rec['kind'] == 'run':
            ev = [e for e in r2['events'] if e['a'] == 'fit']
            if not ev:
                continue
            if m == 0:
                ev[0]['finite'] = False
            elif m == 1:
                ev[0]['st'] = 7                     # undocumented status
            else:
                ev[0]['after'] = ev[0]['mask'] + [max(ev[0]['mask']) + 1]      # a mask that grew
        fals.append(r2)
    core.binding_selftest(ctx, 'Trace_BSplineFit', fals, 'records')
    # the optimality laws on objects with dropped breakpoints must not be vacuous
    mcomp = {'machine': 0, 'loop': 0, 'iterfit': 0, 'multi': 0}
    stats['intx_law_records'] = sum(1 for r0 in recs if r0.get('_xdtype', 'float64')[0] in 'iu')
    stats['intx_law_records_optimum_compared'] = sum(1 for k, r0 in enumerate(recs) if r0.get('_xdtype', 'float64')[0] in 'iu' and k in compared)
    stats['intx_iterfit_fits_optimum_compared'] = sum(1 for k, r0 in enumerate(recs) if r0.get('law') == 'intx' and k in compared)
    for k, rec in enumerate(recs):
        if rec.get('law') in ('masked', 'masked-poly') and (k in compared):
            mcomp[rec['src'].split('/')[0]] += 1
            for nm, v in rec['parts'].items():
                stats['max_masked_' + nm] = max(stats.get('max_masked_' + nm, 0), v)
    stats['sparse_law_records'] = sum(1 for r0 in recs if r0.get('_sparse'))
    stats['sparse_law_records_optimum_compared'] = sum(1 for k, r0 in enumerate(recs) if r0.get('_sparse') and k in compared)
    stats['law_records_optimum_compared'] = sum(1 for k, r0 in enumerate(recs) if r0.get('law') in ('lstsq', 'zw', 'lin', 'poly') and k in compared)
    stats['masked_records'] = len(masked)
    stats['masked_optimum_compared'] = mcomp
    need = {'machine': 150, 'loop': 10, 'iterfit': 10} if ctx.quick else {'machine': 1500, 'loop': 300, 'iterfit': 300}
    mcomp = dict(mcomp, sparse=stats['sparse_law_records_optimum_compared'])
    need['multi'] = 60 if ctx.quick else 900
    need['sparse'] = 15 if ctx.quick else 300
    mcomp['intx-records'] = stats['intx_law_records_optimum_compared']
    mcomp['intx-iterfit'] = stats['intx_iterfit_fits_optimum_compared']
    need['intx-records'] = 25 if ctx.quick else 400
    need['intx-iterfit'] = 10 if ctx.quick else 200
    short = {kk: (mcomp[kk], need[kk]) for kk in need if mcomp[kk] < need[kk]}
    if short and not bad and not ctx.violations:
        raise core.MachineryError('too few status-0 fits on objects with dropped breakpoints had their optimum compared: %r' % short)
    ctx.evaluated(len(recs), 'records')
    ctx.validated(len(recs))
    for k, rec in enumerate(recs):
        if rec['kind'] == 'chol':
            ctx.nontriv(('rc', k))
        elif rec['kind'] == 'fitlaw' and rec['st'] and all(s == 0 for s in rec['st']):
            ctx.nontriv(('rl', k))
    ctx.sample({'record': {kk: v for kk, v in recs[0].items() if kk not in ('ab', 'L')}})
    n = 0
    for k in sorted(bad):
        n += 1
        if n > MAXREPORT:
            break
        rec = recs[k]
        brief = {kk: v for kk, v in rec.items() if kk not in ('ab', 'L', 'x', 'b', 'pc', 'altered', 'zeroidx', '_data', 'events')}
        ctx.violation({'what': 'recorded %s refused by Trace_BSplineFit (%s): %s' % (rec['kind'], bad[k], brief),
                       'kind': 'record', 'record': rec, 'why': bad[k], 'seed': ctx.seed},
                      finding=classify(rec.get('exc') or ''))
    stats['records_refused'] = len(bad)
    notes['records'] = stats


def run(ctx):
    ctx.level = 'model_checking'
    ctx.rule = ('cases: every TLC state of MC_BSplineFit (cases mode) is one call (banded Cholesky call / tiny exact fit / '
                'polynomial problem / too-few-breakpoints fit) executed on the real code; machine: every distinct (support '
                'pattern, breakpoint mask) of the status machine in which a fit is due = one real fit; histories and records = '
                'real runs judged by TLC.  Non-trivial = Cholesky calls with n >= 2, over-determined exact fits, polynomial '
                'problems, machine states and histories whose admissible / observed statuses are not just 0, accepted records')
    ctx.assumptions = [
        'TLC 32-bit integers: exact optima only for <= 3 coefficients (order 1: any number), data on halves/thirds; larger '
        'and float problems are law instances judged on harness-measured discrepancies (exploration level for that part: '
        'numpy lstsq on a dense Cox-de Boor design matrix is the independent solver)',
        'support classes: status 0 is DEMANDED when the positively weighted data determine every coefficient (Schoenberg-'
        'Whitney) and every cell holds a datum; status 0 is EXCLUDED when some basis function sees no datum; in between '
        '(too few data, every basis function touched) detection happens at rounding level, any documented status is '
        'accepted but coefficients must be finite',
        'weights within a few orders of magnitude of each other and data not within 1e-2 cell widths of a knot in the '
        'machine replay (the code\'s min_influence threshold 1e-10 * mean weight is not part of the statement)',
        'iterfit has no status return: ValueError("No valid data points.") for all-zero weights and the early return with '
        'a warning for fewer good points than the order are accepted as its failure reports',
        'order-1 problems keep data off interior breakpoints (cell attribution of such a point is left open)',
        'requiren (iterfit keyword) is not exercised',
        'global state: every real call (cholesky_band / cholesky_solve / fit / action / value) must leave numpy\'s floating-point '
        'error handling as it found it (np.geterr before = after, judged by TLC on every record and fit event); process '
        'histories interleave refused factorisations with ill-posed (gap, all-zero weights, a non-finite weight, all data at '
        'one abscissa) and well-posed fits on different objects in every order without restoring anything in between.  The '
        'list of warning filters is not observed (pydl never edits it; lazy imports inside numpy/scipy append to it).  '
        'Non-finite y values are outside the statement (it speaks of a non-finite normal matrix, i.e. weights)',
        'breakpoint mask: while some basis function sees no datum a -1 may drop only good interior breakpoints that are knots '
        'of, or within max(1, nord div 2) knots of, the support of such a function (or of a function whose measured influence '
        'sum w B^2 is below 1e-6 of the mean weight - the code treats those as unsupported too); when every function sees data '
        'but they are too few, any interior breakpoint may go.  Histories on ONE object with data that change between fits '
        '(a second gap right of / left of / overlapping / adjacent to an already masked region, then the data back) are '
        'judged fit by fit against the support of the data of that call and the mask left by the earlier calls',
        'iterfit runs: every fit must be handed the caller\'s own (x, y, weight) triples in non-decreasing x (weights '
        'clipped at 0) - otherwise the status / optimum judged here would be those of other data',
        'representations of the data: abscissae and evaluation points are also handed over as integer-typed arrays (int64 / '
        'int32 / int16 / uint8) wherever the values are integral - every exact case is replayed on the integer grid of the '
        'grid law (knots and x times L), recorded float fits and iterfit runs include pixel-index data; expected values are '
        'the same, no per-dtype allowance.  Length-1 data and empty data arrays are inside the domain (too few data: status, '
        'not an exception).  0-d arrays are outside: the statement speaks of sorted data sequences and bspline.fit documents '
        'its arguments as arrays of data; a 0-d array cannot be indexed or sorted',
    ]
    notes = {}
    run_cases(ctx, notes)
    run_machine(ctx, notes)
    run_histories(ctx, notes)
    run_records(ctx, notes)
    ctx.cov['c09'] = notes
    ctx.exhaustive = False


def replay(ctx, case):
    """bin/check C09 --replay <file>: re-execute the failing case of a replay file."""
    ctx.level = 'model_checking'
    ctx.rule = 'single replayed case'
    notes = {}
    kind = case.get('kind')
    bad = None
    if kind in ('chol', 'fit', 'poly'):
        c, exp = _untuple(case['c']), _untuple(case['exp'])
        if 'allowed' in exp:
            exp['allowed'] = frozenset(exp['allowed'])
        bad = {'chol': lambda: run_chol_case(c, exp), 'fit': lambda: run_fit_case(c, exp, notes),
               'poly': lambda: run_poly_case(c, exp, notes)}[kind]()
    elif kind == 'fewbk':
        c = case['c']
        s = make_sset(c['k'], knots_for(c['k'], c['S']), notes)
        mk = np.zeros(s.mask.shape, dtype=bool)
        for g in c['good']:
            mk[g - 1] = True
        s.mask = mk
        pc = [(c['k'] + 1) if q % 2 == 0 else 0 for q in range(1, 2 * c['S'] + 2)]
        x, y, w = cell_data(c['k'], c['S'], pc, random.Random(ctx.seed), sprinkle=False)
        bad = judge_fit(call_fit(s, x, y, w), frozenset(case['exp']['allowed']), set())
    elif kind == 'machine':
        P = case['prob']
        s = make_sset(P['nord'], knots_for(P['nord'], P['S']), notes)
        mk = np.zeros(s.mask.shape, dtype=bool)
        for g in case['mask']:
            mk[g - 1] = True
        s.mask = mk
        d = case['data']
        obs = call_fit(s, np.array(d['x']), np.array(d['y']), np.array(d['w']))
        bad = judge_fit(obs, frozenset(case['exp']['allowed']), set(case['exp']['droppable']))
        print('observed:', {kk: obs[kk] for kk in ('st', 'exc', 'finite')}, 'mask after:', good(obs['after']))
    elif kind == 'history':
        h, d = case['history'], case['data']
        m = _mod()
        if h['src'].startswith('iterfit'):
            kw = {kk: (np.array(v) if isinstance(v, list) else v) for kk, v in d['kw'].items()}
            with Recorder(m) as rec:
                try:
                    m.iterfit(np.array(d['x'], dtype=d.get('xdtype', 'd')), np.array(d['y']), invvar=np.array(d['w']), upper=1e30, lower=1e30,
                              maxiter=d['maxiter'], **kw)
                except Exception as ex:
                    print('iterfit raised', short_exc(ex))
                    if not ('No valid data points' in str(ex) and not rec.events):
                        bad = 'iterfit raised ' + short_exc(ex)
            print('events now:', rec.events)
            if rec.events != [e for e in h['events'] if e['a'] in ('fit', 'raise')]:
                bad = bad or None
            if bad is None and 'S' in h:
                ref = validate_histories(ctx, [dict(h, events=rec.events)], 'replay')
                bad = 'history still refused at event %d' % (ref[0] + 1) if ref else None
        elif h['src'].startswith('multi'):
            ev, _m = run_phases(h['nord'], h['S'], [(p0['pc'], np.array(p0['x']), np.array(p0['y']), np.array(p0['w']))
                                                    for p0 in d['phases']], random.Random(1), notes, h['src'])
            print('events now:', ev)
            ref = validate_histories(ctx, [dict(h, events=ev)], 'replay')
            bad = 'history still refused at event %d' % (ref[0] + 1) if ref else None
        else:
            s = make_sset(h['nord'], knots_for(h['nord'], h['S']), notes)
            ev = []
            for _ in range(h['S']):
                ill = illcond(s, np.array(d['x']), np.array(d['w']))
                weak = weak_functions(s, np.array(d['x']), np.array(d['w']))
                o = call_fit(s, np.array(d['x']), np.array(d['y']), np.array(d['w']))
                if o['exc']:
                    ev.append({'a': 'raise', 'exc': o['exc'], 'mask': good(o['before'])})
                    break
                ev.append({'a': 'fit', 'mask': good(o['before']), 'st': o['st'], 'after': good(o['after']), 'finite': o['finite'],
                           'illcond': ill, 'gsb': o['gsb'], 'gsa': o['gsa'], 'argsok': True, 'weak': weak})
                if o['st'] in (0, -2):
                    break
            print('events now:', ev)
            ref = validate_histories(ctx, [dict(h, events=ev)], 'replay')
            bad = 'history still refused at event %d' % (ref[0] + 1) if ref else None
    elif kind == 'record':
        rec = dict(case['record'])
        d = rec.get('_data')
        if rec.get('law') in ('masked', 'masked-poly') and d and rec.get('src', '').split('/')[0] in ('machine', 'loop'):
            # re-execute: same knots, same mask, same data
            s = make_sset(rec['nord'], knots_for(rec['nord'], rec['S']), notes)
            mk = np.zeros(s.mask.shape, dtype=bool)
            for g in rec['mask']:
                mk[g - 1] = True
            s.mask = mk
            x, y, w = np.array(d['x']), np.array(d['y']), np.array(d['w'])
            ill = illcond(s, x, w)
            o = call_fit(s, x, y, w)
            print('fit on the masked object now: status %r exc %r' % (o['st'], o['exc']))
            meas = {'disc': 0, 'bdisc': 0, 'parts': {}, 'exc': o['exc']} if o['exc'] else \
                masked_measure(s, x, y, w, o['yfit'] if o['st'] == 0 else None, random.Random(1))
            print('measured now (units of 1e-9):', meas)
            rec = masked_record(rec['law'], rec['nord'], rec['S'], rec['pc'], rec['mask'], o['st'], o['finite'], meas, rec['src'],
                                ill=ill, gs=(o['gsb'], o['gsa']))
        elif rec.get('kind') == 'proc' and '_pseed' in rec:
            rec = process_history(rec['_pseed'], notes)
            print('process history re-executed: operations %s' % rec['ops'])
            for e in rec['events']:
                print('  ', {kk: e[kk] for kk in ('op', 'which', 'st', 'okobs', 'exc', 'gsb', 'gsa') if kk in e})
        else:
            print('recorded observation (re-judged by TLC as recorded; regenerate with VERIF_SEED=%s):' % case.get('seed'))
        b, _cmp = judge_records(ctx, [rec])
        bad = b.get(0)
    else:
        raise core.MachineryError('unknown replay kind %r' % kind)
    print('replay verdict:', bad or 'conforms')
    ctx.evaluated(1)
    ctx.nontriv('a')
    ctx.nontriv('b')
    if bad:
        ctx.violation(dict(case, what='replay: ' + str(bad)))


def _untuple(v):
    """JSON lists back to the tuples / structures the case runners expect (they only index and iterate)."""
    return v
