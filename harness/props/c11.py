"""C11 - combine1fiber / preprocess_spectra: finite flux, conservative inverse variance.

Spec: spec/Resample.tla; MC: mc/MC_Resample (+ _quick/_thorough cfg); Trace: trace/Trace_Resample.

spec -> code: every case state of MC_Resample (good pattern(s), output grid in rational pixel units, the set of
output pixels whose inverse variance must be zero, the exact interpolated inverse variances) is realised on a real
log-lambda grid 3.5 + 1e-4*position and pushed through the real combine1fiber.
code -> spec: seeded random realistic spectra (300-2000 pixels, 1-4 exposures) go through combine1fiber /
preprocess_spectra; the observed outputs (zero set, scaled inverse variances, measured law discrepancies) are
judged by TLC with the operators of Resample (Trace_Resample).
Python only concretises (rational position -> float log-lambda) and abstracts (float -> scaled integer).
"""
import collections
import math
import os
import random
import warnings
from fractions import Fraction

import numpy as np

from .. import core

METHODS = [None, 'traditional', 'noconst', 'mean', 'damp', 'nothing']
LL0, DLL = 3.5, 1.0e-4
IVAR_SCALE = 100000          # Resample!IvarScale
BIG = 2000000000
REC_TYPES = ['f8', 'i8', 'mask-i4', 'i4', 'i2', 'mask-bool', 'u2', 'u1']
SMALL_EXPONENTS = [-17, -12, -25, -4, -60, -8, -120]      # 1/c^2 stays below float64 overflow (1e308) with margin down to 1e-120

_PAR = '''typedef struct {
    char flag[20]; # Flag name
    short bit; # Bit number, 0-indexed
    char label[30]; # Bit label
    char description[100]; # text description
} maskbits;

typedef struct {
    char flag[20]; # Flag name
    short datatype; # Data type {8, 16, 32, 64}
    char description[100]; # text description
} masktype;

masktype SPPIXMASK 32 "Mask bits for an SDSS spectrum"
maskbits SPPIXMASK  0 NOPLUG "Fiber not listed in plugmap file"
maskbits SPPIXMASK 22 NOSKY "Sky level unknown at this wavelength"
maskbits SPPIXMASK 23 BRIGHTSKY "Sky level > flux + 10*(flux_err)"
maskbits SPPIXMASK 24 NODATA "No data available in combine B-spline"
maskbits SPPIXMASK 25 COMBINEREJ "Rejected in combine B-spline"
'''


def load_maskbits(ctx):
    """combine1fiber looks up SPPIXMASK bits; load a table (real SDSS bit numbers) through pydl's own reader."""
    import pydl.pydlutils.sdss as sdss
    path = os.path.join(ctx.scratch, 'sppixmask.par')
    with open(path, 'w') as fh:
        fh.write(_PAR)
    sdss.maskbits = sdss.set_maskbits(maskbits_file=path)
    try:
        from astropy import log
        log.setLevel('ERROR')
    except Exception:
        pass


# ---------------------------------------------------------------------------------------------
# concretisation: rational pixel positions -> real arrays
# ---------------------------------------------------------------------------------------------
def frac(x):
    return Fraction(int(x[0]), int(x[1]))


def loglam(pos):
    """log-lambda of rational pixel positions; equal rationals give bit-identical floats."""
    return LL0 + DLL * np.array([float(p) for p in pos], dtype='d')


def grid_positions(grid):
    s, t = frac(grid['start']), frac(grid['step'])
    return [s + j * t for j in range(int(grid['count']))]


def curve(x, kind, period=40.0, level=10.0):
    if kind == 'const':
        return np.full(x.shape, level, dtype='d')
    if kind == 'counts':            # integral values (detector counts), for the integer-typed cases
        return np.round(10.0 * curve(x, 'smooth', period, level))
    return level + 3.0 * np.sin(2.0 * np.pi * x / period) + 2.0 * np.cos(2.0 * np.pi * x / (2.3 * period))


AMPL = 5.0      # amplitude of variation of curve(..., 'smooth')


def concretise(exps, grid, ivs, fluxkind, period=40.0, level=10.0, noise=None):
    """exps: [(good tuple, sh Fraction)]; ivs: [float array]. Returns inloglam, flux, ivar, newloglam."""
    lls, fls = [], []
    for good, sh in exps:
        pos = [Fraction(k) + sh for k in range(len(good))]
        lls.append(loglam(pos))
        fls.append(curve(np.array([float(p) for p in pos]), fluxkind, period, level))
    if noise is not None:
        for e in range(len(fls)):
            sig = np.where(ivs[e] > 0, 1.0 / np.sqrt(np.where(ivs[e] > 0, ivs[e], 1.0)), 1.0)
            fls[e] = fls[e] + noise[e] * sig
    newll = loglam(grid_positions(grid))
    if len(exps) == 1:
        return lls[0], fls[0], ivs[0], newll
    return np.vstack(lls), np.vstack(fls), np.vstack(ivs), newll


# Memory-layout variants of the same VALUES (Resample.tla: the outcome depends on the values only).
VARIANTS = ['plain', 'readonly', 'strided', 'swapped', 'zerod']


def as_variant(a, variant, readonly_ok=True, flip=False):
    """The values of `a` as a fresh array with the given memory property."""
    a = np.array(a, copy=True)
    if variant == 'readonly':
        if readonly_ok:
            a.setflags(write=False)
        return a
    if variant == 'strided':
        if a.ndim == 1:
            big = np.zeros(2 * a.size + 1, dtype=a.dtype)
            big[1::2] = a
            return big[1::2]                     # every second element of a longer array
        if flip:
            return np.asfortranarray(a)          # Fortran-ordered (transposed memory)
        big = np.zeros((a.shape[0], 2 * a.shape[1]), dtype=a.dtype)
        big[:, ::2] = a
        return big[:, ::2]
    if variant == 'swapped':
        return a.astype(a.dtype.newbyteorder())  # as read from a FITS file
    return a


# Numeric types of the same VALUES: integral flux / inverse variance / masks are also handed over with an integer dtype.
NUMTYPES = ['f8', 'i8', 'i4', 'i2', 'u2', 'u1']
INT_SCALARS = [int, np.int64, np.int32, np.int16, np.uint16]       # 8-bit numpy scalars for nord fail loudly (wrap-around inside bspline): not in the statement


def as_type(a, t):
    """`a` with dtype t when that keeps every value (integral and in range), else unchanged."""
    if a is None or t == 'f8':
        return a
    with np.errstate(all='ignore'):
        b = np.asarray(a).astype(bool if t == 'bool' else t)
    return b if np.array_equal(b.astype('d'), np.asarray(a, dtype='d')) else a


def run_call(inll, flux, newll, ivar, method, variant='plain', noiseless=True, numtype='f8', ivartype=None):
    """One real call; never lets the caller's arrays be modified.  Returns (flux, ivar, exception text).
    variant: memory layout of the arguments.  A read-only objivar is only handed over when nothing has to be written into
    it: 1-D and noiseless (the 2-D branch median-smooths the caller's objivar in place, rejected outliers are zeroed in it)."""
    from pydl.pydlspec2d.spec2d import combine1fiber
    kw = {}
    if method is not None:
        kw['aesthetics'] = method
    flux = as_type(flux, numtype)
    if ivar is not None:
        ivar = as_type(ivar, ivartype or numtype)
        kw['objivar'] = as_variant(ivar, variant, readonly_ok=(ivar.ndim == 1 and noiseless), flip=bool(ivar.size % 2))
    if numtype != 'f8':         # integer scalar where a scalar is admitted (the default order of the spline)
        kw['nord'] = INT_SCALARS[flux.size % len(INT_SCALARS)](3)
    if variant == 'zerod':
        kw['binsz'] = np.array(inll.flat[1] - inll.flat[0])      # 0-d array where a scalar is admitted (the default value)
    flip = bool(inll.size % 2)
    try:
        with warnings.catch_warnings(), np.errstate(all='ignore'):
            warnings.simplefilter('ignore')
            f, v = combine1fiber(as_variant(inll, variant, flip=flip), as_variant(flux, variant, flip=flip),
                                 as_variant(newll, variant), **kw)
    except Exception as ex:
        return None, None, '%s: %s' % (type(ex).__name__, str(ex)[:140])
    return np.asarray(f), np.asarray(v), None


def judge(f, v, exc, count, mz, ivx):
    """Compare one observed outcome with what TLC said (mz: set of must-be-zero pixels, ivx: exact interpolated
    inverse variances as floats or None).  Returns [(clause, detail)]."""
    if exc:
        return [('raised', exc)]
    if f.shape != (count,) or v.shape != (count,):
        return [('length', 'flux %s, ivar %s for a grid of %d pixels' % (f.shape, v.shape, count))]
    probs = []
    if not (np.isfinite(f).all() and np.isfinite(v).all()):
        probs.append(('nonfinite', '%d non-finite flux, %d non-finite ivar values' % ((~np.isfinite(f)).sum(), (~np.isfinite(v)).sum())))
    if (v < 0).any():
        probs.append(('negative', 'min ivar %r' % float(v.min())))
    bad = [j for j in sorted(mz) if v[j] != 0]
    if bad:
        probs.append(('mustbezero', 'newivar[%d] = %r on a pixel not between two adjacent good input pixels' % (bad[0], float(v[bad[0]]))))
    if ivx is not None:
        for j in np.nonzero(v)[0]:
            if j in mz or not np.isfinite(v[j]):
                continue
            if abs(v[j] - ivx[j]) > 1e-9 * (1.0 + abs(ivx[j])):
                probs.append(('interp', 'newivar[%d] = %r, linear interpolation of the input is %r' % (j, float(v[j]), ivx[j])))
                break
    return probs


def classify(clause, detail, method, use_ivar, no_good_output):
    """The known deviation that explains this failure exactly, if any (ids of DESIGN.md section 6)."""
    if clause == 'raised' and detail.startswith('AttributeError') and not use_ivar:
        return 'D-C11-1'
    if clause == 'raised' and detail.startswith('TypeError') and 'bitwise_or' in detail:
        return 'D-C11-2'
    if clause == 'nonfinite' and method == 'mean' and no_good_output:
        return 'D-C11-3'
    if clause == 'raised' and method == 'damp' and detail.startswith('ValueError: zero-size array'):
        return 'D-C11-3'
    if clause == 'raised' and 'is not supported by medfilt' in detail:
        return 'D-C11-6'
    return None


class Reporter:
    """At most LIMIT replay files per (part, clause, finding) class; every failing call is counted."""
    LIMIT = 3

    def __init__(self, ctx):
        self.ctx = ctx
        self.counts = collections.Counter()

    def report(self, part, clause, case, finding=None):
        key = '%s/%s%s' % (part, clause, ('/' + finding) if finding else '')
        self.counts[key] += 1
        if self.counts[key] <= self.LIMIT:
            self.ctx.violation(case, finding=finding)

    def finish(self):
        if self.counts:
            self.ctx.cov['failing_calls_by_class'] = dict(self.counts)


# ---------------------------------------------------------------------------------------------
# spec -> code
# ---------------------------------------------------------------------------------------------
def mc_case(st):
    """TLC state -> plain case description (also the content of a replay file)."""
    c, exp = st['c'], st['exp']
    return {'family': c['kind'], 'pat': c['pat'], 'pat2': c.get('pat2', -1), 'g': c['g'],
            'exps': [{'good': ''.join('1' if b else '0' for b in e['good']), 'sh': list(e['sh'])} for e in c['exps']],
            'iv': [list(q) for q in c.get('iv', ())],
            'grid': {'start': list(c['grid']['start']), 'step': list(c['grid']['step']), 'count': c['grid']['count']},
            'mz': sorted(exp['mz']), 'strict': sorted(exp['strict']), 'ivx': [list(q) for q in exp['ivx']],
            'kept': exp['kept']}


def mc_arrays(case, fluxkind):
    exps = [(tuple(ch == '1' for ch in e['good']), frac(e['sh'])) for e in case['exps']]
    if case['iv']:
        ivs = [np.array([float(frac(q)) for q in case['iv']], dtype='d')]
    else:
        cyc = [1.0, 3.0, 2.0]
        ivs = [np.array([cyc[(k + 2 * e) % 3] if g else 0.0 for k, g in enumerate(good)], dtype='d')
               for e, (good, _) in enumerate(exps)]
    return concretise(exps, case['grid'], ivs, fluxkind)


def describe_exposure(e):
    good = e['good']
    if len(good) <= 24:
        txt = good
    else:
        bad = [k for k, ch in enumerate(good) if ch == '0']
        txt = '%d pixels, zero weight at %s' % (len(good), bad if len(bad) <= 8 else '%d pixels in %d..%d' % (len(bad), bad[0], bad[-1]))
    return txt if e['sh'][0] == 0 else '%s offset %s' % (txt, '/'.join(map(str, e['sh'])) if e['sh'][1] != 1 else e['sh'][0])


def mc_run_one(ctx, rep, case, method, use_ivar, fluxkind, stats, variant='plain', numtype='f8'):
    """Execute one call of a TLC case and judge it; returns True if it conforms."""
    if numtype != 'f8' and fluxkind == 'smooth':
        fluxkind = 'counts'
    inll, flux, ivar, newll = mc_arrays(case, fluxkind)
    f, v, exc = run_call(inll, flux, newll, ivar if use_ivar else None, method, variant, numtype=numtype)
    stats['variant_' + variant] += 1
    stats['numtype_' + numtype] += 1
    mz = set(case['mz'])
    ivx = [float(frac(q)) for q in case['ivx']] if (case['ivx'] and use_ivar) else None
    probs = judge(f, v, exc, case['grid']['count'], mz, ivx)
    ctx.evaluated(1, 'replay-' + case['family'])
    ctx.validated()
    if v is not None and v.shape == (case['grid']['count'],):
        nzero = int((v != 0).sum())
        stats['last_zero'] = case['grid']['count'] - nzero
        stats['kept_by_code'] += nzero
        stats['kept_by_model'] += case['kept']
        stats['on_isolated_good_nonzero'] += sum(1 for j in set(case['strict']) - mz if v[j] != 0)
        stats['on_isolated_good'] += len(set(case['strict']) - mz)
        if nzero and mz:
            ctx.nontriv((case['family'], case['pat'], case['pat2'], case['g']))
    for clause, detail in probs:
        no_good_out = v is not None and not (v > 0).any()
        call = dict(case, method=method, use_ivar=use_ivar, flux=fluxkind, variant=variant, numtype=numtype)
        call['what'] = ('combine1fiber on pattern %s -> grid %s (aesthetics=%s, objivar %s, %s %s arrays): %s: %s' % (
            '+'.join(describe_exposure(e) for e in case['exps']),
            case['grid'], method, 'given' if use_ivar else 'absent', variant, numtype, clause, detail))
        call['clause'] = clause
        rep.report('replay-' + case['family'], clause, call, classify(clause, detail, method, use_ivar, no_good_out))
    return not probs


def run_mc(ctx, rep):
    cfg = 'MC_Resample_quick.cfg' if ctx.quick else 'MC_Resample_thorough.cfg'
    r = ctx.tlc('MC_Resample.tla', cfg, dump=True, timeout=1500)
    rng = random.Random(ctx.seed)
    keep_single = 0.2 if ctx.quick else 1.0
    keep_stack = 0.07 if ctx.quick else 0.15       # 2-D calls on >= 105-pixel exposures cost ~0.1 s each
    stats = collections.Counter()
    n = 0
    sampled = 0
    for st in core.iter_states(r):
        kind = st['c'].get('kind')
        if kind not in ('single', 'infl', 'pair', 'pairinfl', 'stack', 'edge'):
            continue
        stats['cases_' + kind] += 1
        if kind == 'pair':
            continue            # spec-level laws only: exposures of <= 6 pixels are below the >= 101 good pixels of the statement
        if kind == 'single' and rng.random() >= keep_single:
            continue
        if kind == 'edge' and ctx.quick and rng.random() >= 0.10:
            continue            # thorough: every combination of exactly 101/102/103/all good pixels
        if kind == 'stack':
            # the family exists for isolated zero-weight pixels in the singly covered ends: those cases (slot bits 2, 3 of
            # either pattern) are sampled three times as densely as the others
            w = 1.5 if ((st['c']['pat'] | st['c']['pat2']) & 6) else 0.5
            if rng.random() >= keep_stack * w:
                continue
        n += 1
        case = mc_case(st)
        fluxkind = 'smooth' if n % 2 else 'const'
        method = METHODS[n % len(METHODS)]
        variant = VARIANTS[(n + ctx.seed) % len(VARIANTS)]      # layout variants rotate over the cases, by seed
        numtype = NUMTYPES[(n // len(VARIANTS) + ctx.seed) % len(NUMTYPES)]      # ... and so do the numeric types
        good = mc_run_one(ctx, rep, case, method, True, fluxkind, stats, variant, numtype)
        allgood = len(case['exps']) == 1 and '0' not in case['exps'][0]['good']
        if allgood:
            for m in METHODS:       # without inverse variance: every pixel has unit weight
                mc_run_one(ctx, rep, case, m, False, fluxkind, stats, variant, numtype)
        if n % 11 == 0 and kind not in ('pairinfl', 'stack', 'edge'):
            for m in METHODS:
                if m != method:
                    mc_run_one(ctx, rep, case, m, True, fluxkind, stats, VARIANTS[(n // 11 + METHODS.index(m)) % len(VARIANTS)],
                                   NUMTYPES[(n // 11 + 2 * METHODS.index(m)) % len(NUMTYPES)])
        if sampled < 3 and good and case['mz'] and len(case['mz']) < case['grid']['count'] and kind != 'single':
            sampled += 1
            ctx.sample({'tlc_case': {'family': case['family'], 'pattern': case['pat'], 'block': len(case['exps'][0]['good']),
                                     'grid': case['grid'], 'must_be_zero_pixels': len(case['mz'])},
                        'aesthetics': method or 'default', 'nonzero_ivar_pixels_observed': case['grid']['count'] - stats.get('last_zero', 0)})
    stats.pop('last_zero', None)
    ctx.cov['replay_stats'] = dict(stats)
    return stats


# ---------------------------------------------------------------------------------------------
# code -> spec
# ---------------------------------------------------------------------------------------------
def random_iv(rng, n):
    vals = [1, 2, 3, 4, 6, 8, 12]
    iv = np.array([rng.choice(vals) for _ in range(n)], dtype=np.int64)
    for _ in range(max(1, n // rng.choice([40, 80, 150]))):
        a = rng.randrange(0, n)
        iv[a:a + rng.choice([1, 1, 2, 3, 5, 8, 12, 20])] = 0
    for _ in range(rng.randrange(0, 3)):        # an isolated good pixel between two bad ones
        a = rng.randrange(2, n - 3)
        iv[a - 1] = 0
        iv[a + 1] = 0
        iv[a] = iv[a] or 4
    if rng.random() < 0.3:
        iv[:rng.randrange(1, 15)] = 0
    if rng.random() < 0.3:
        iv[n - rng.randrange(1, 15):] = 0
    return iv


def random_grid(rng, n):
    den = rng.choice([2, 3, 4, 5, 8, 10])
    fr = Fraction(rng.randrange(1, den), den)
    kind = rng.choice(['same', 'shift', 'wider', 'narrower', 'coarser', 'finer', 'mixed'])
    if kind == 'same':
        s, t, cnt = Fraction(0), Fraction(1), n
    elif kind == 'shift':
        s, t, cnt = fr, Fraction(1), n
    elif kind == 'wider':
        s, t = Fraction(-rng.randrange(1, 30)) + rng.choice([Fraction(0), fr]), Fraction(1)
        cnt = n + rng.randrange(20, 60)
    elif kind == 'narrower':
        s, t, cnt = Fraction(rng.randrange(5, n // 3)) + rng.choice([Fraction(0), fr]), Fraction(1), n // 2
    elif kind == 'coarser':
        t = rng.choice([Fraction(3, 2), Fraction(2), Fraction(5, 2), Fraction(3)])
        s, cnt = rng.choice([Fraction(0), fr, -fr]), int(n / t) + 3
    elif kind == 'finer':
        t = rng.choice([Fraction(1, 2), Fraction(2, 3), Fraction(3, 4)])
        s, cnt = rng.choice([Fraction(0), fr]), min(int(n / t), 2600)
    else:
        t = rng.choice([Fraction(1), Fraction(3, 2), Fraction(2, 3)])
        s, cnt = Fraction(-7) + fr, min(int((n + 14) / t), 2600)
    return {'start': [s.numerator, s.denominator], 'step': [t.numerator, t.denominator], 'count': int(cnt)}, kind


def scaled(x, scale):
    x = float(x)
    if not math.isfinite(x):
        return BIG
    return int(min(BIG, round(abs(x) * scale)))


def item_resample(sub, quick):
    """One observed call on a realistic noisy spectrum -> a "resample" record."""
    rng = random.Random(sub)
    nexp = rng.choice([1, 1, 1, 1, 1, 1, 2, 2, 3, 4]) if sub % 7 else 2
    n = rng.randrange(300, 2001) if nexp == 1 else rng.randrange(300, 500 if quick else 700)
    q = 4
    use_ivar = not (nexp == 1 and rng.random() < 0.12)
    # sub-pixel dithers and exposures whose coverage differs by several pixels (either direction)
    shifts = [Fraction(0)] + [rng.choice([Fraction(0), Fraction(1, 2), Fraction(1, 3), Fraction(1, 4), Fraction(2, 3), Fraction(-1, 2), Fraction(5, 2),
                                          Fraction(3), Fraction(7), Fraction(20), Fraction(-5), Fraction(60), Fraction(-41, 2), Fraction(31, 3)])
                              for _ in range(nexp - 1)]
    rng.shuffle(shifts)
    ivs = []
    for _ in range(nexp):
        iv = random_iv(rng, n) if use_ivar else np.ones(n, dtype=np.int64)
        while (iv > 0).sum() < 101:
            iv = random_iv(rng, n)
        if nexp > 1 and rng.random() < 0.4:
            # the lower edge of the stated domain: exactly 101, 102 or 103 good pixels in this exposure, either one
            # contiguous stretch or the surplus removed as isolated pixels / short runs
            target = rng.choice([101, 101, 102, 103])
            if rng.random() < 0.5:
                a = rng.randrange(0, n - target)
                iv[:a] = 0
                iv[a:a + target] = np.where(iv[a:a + target] > 0, iv[a:a + target], 4)
                iv[a + target:] = 0
            else:
                while (iv > 0).sum() > target:
                    goodidx = np.nonzero(iv > 0)[0]
                    a = int(goodidx[rng.randrange(goodidx.size)])
                    iv[a:a + min(rng.choice([1, 1, 2, 9, 40]), int((iv > 0).sum()) - target)] = 0
            exact = True
        else:
            exact = False
        if use_ivar and nexp > 1 and not exact:        # isolated zero-weight pixels near the ends, where another exposure may not reach
            for lo in (0, n - 4):
                if rng.random() < 0.7:
                    iv[lo:lo + 4] = [rng.choice([1, 2, 4, 8]) for _ in range(4)]
                    iv[lo + rng.choice([1, 2])] = 0
        ivs.append(iv)
    if not use_ivar:
        q = 1
    grid, gkind = random_grid(rng, n)
    method = rng.choice(METHODS)
    nprng = np.random.default_rng(sub)
    noise = [nprng.standard_normal(n) for _ in range(nexp)]
    exps = [(tuple(bool(x > 0) for x in ivs[e]), shifts[e]) for e in range(nexp)]
    # numeric type: float64, or integer counts with integer inverse variance, or a 0/1 good-pixel mask (int / bool) as weights
    rtype = REC_TYPES[(sub // len(VARIANTS)) % len(REC_TYPES)] if use_ivar else 'f8'
    if rtype == 'mask-bool' and nexp > 1:
        rtype = 'mask-u1'        # a bool objivar is not an inverse variance the 2-D branch can median-smooth (see assumptions)
    if rtype.startswith('mask'):
        ivs = [(iv > 0).astype(np.int64) for iv in ivs]
    if rtype != 'f8':
        q = 1
    inll, flux, ivar, newll = concretise(exps, grid, [iv / float(q) for iv in ivs], 'smooth',
                                         period=rng.choice([40.0, 75.0, 130.0]), noise=noise)
    garbage = use_ivar and rtype == 'f8' and rng.random() < 0.15
    if garbage:        # masked pixels of real data hold arbitrary values
        flux = np.where(ivar > 0, flux, rng.choice([float('nan'), float('inf'), -1.0e30]))
    if rtype != 'f8':
        flux = np.round(10.0 * flux)          # counts
    variant = VARIANTS[sub % len(VARIANTS)]
    f, v, exc = run_call(inll, flux, newll, ivar if use_ivar else None, method, variant, noiseless=False,
                         numtype=('i4' if rtype.startswith('mask') else rtype), ivartype=(rtype[5:] if rtype.startswith('mask') else None))
    desc = {'kind': 'resample', 'sub': sub, 'garbage_under_mask': garbage, 'variant': variant, 'numtype': rtype, 'quick': quick, 'n': n, 'nexp': nexp, 'grid': grid, 'gridkind': gkind, 'method': method,
            'use_ivar': use_ivar, 'shifts': [[s.numerator, s.denominator] for s in shifts]}
    if exc:
        return None, desc, ('raised', exc), None
    fin = bool(np.isfinite(f).all() and np.isfinite(v).all())
    vv = np.where(np.isfinite(v), v, 0.0)
    rec = {'kind': 'resample', 'q': q,
           'exps': [{'iv': [int(x) for x in ivs[e]], 'sh': [shifts[e].numerator, shifts[e].denominator]} for e in range(nexp)],
           'grid': grid, 'nflux': int(f.size), 'nivar': int(v.size), 'finite': fin,
           'nonneg': bool((vv >= 0).all()),
           'nz': [int(x != 0) for x in v], 'out': [scaled(x, q * IVAR_SCALE) for x in vv],
           'interp': bool(nexp == 1 and use_ivar)}
    desc['nonzero_out'] = int((v != 0).sum())
    desc['no_good_output'] = not bool((v > 0).any())
    return rec, desc, None, v


def item_law(sub, quick):
    """Law instances measured on a noiseless smooth spectrum: identity, constant, scaling."""
    rng = random.Random(sub)
    nexp = 2 if sub % 9 == 0 else 1
    n = rng.randrange(300, 2001) if nexp == 1 else rng.randrange(300, 450)
    period = rng.choice([40, 60, 100, 150])
    shifts = [Fraction(0), Fraction(1, 2)][:nexp]
    ivs = []
    for _ in range(nexp):
        iv = random_iv(rng, n)
        while (iv > 0).sum() < 101:
            iv = random_iv(rng, n)
        ivs.append(iv / 4.0)
    exps = [(tuple(bool(x > 0) for x in ivs[e]), shifts[e]) for e in range(nexp)]
    plain = [m for m in METHODS if m != 'damp']       # 'damp' tapers the whole spectrum by design
    variant = VARIANTS[(sub // 3) % len(VARIANTS)]
    desc = {'kind': 'law', 'sub': sub, 'quick': quick, 'n': n, 'nexp': nexp, 'period': period, 'variant': variant}
    recs, errs = [], []

    def call(grid, kind, ivl, method, level=10.0, mult=1.0, numtype='f8'):
        inll, flux, ivar, newll = concretise(exps, grid, ivl, kind, period=float(period), level=level)
        return run_call(inll, flux * mult, newll, ivar, method, variant, numtype=numtype)

    # physical units: the same spectrum expressed in units 10^uexp times smaller (flux * u, ivar / u^2), e.g. SDSS
    # 1e-17 erg/s/cm^2/A written out in cgs.  Cycled deterministically so that every run holds small units.
    uexp = SMALL_EXPONENTS[(sub // 2) % len(SMALL_EXPONENTS)] if sub % 2 else 0
    u = 10.0 ** uexp
    ivs_u = [iv / u ** 2 for iv in ivs]
    desc['unit_exp10'] = uexp

    # identity: the same grid, and a shifted grid against the underlying curve
    for shift in ([Fraction(0)] if nexp > 1 else [Fraction(0), rng.choice([Fraction(1, 2), Fraction(1, 3), Fraction(3, 4)])]):
        grid = {'start': [shift.numerator, shift.denominator], 'step': [1, 1], 'count': n}
        m = rng.choice(plain)
        # every other plain-unit item with a short period: the spectrum as integer counts (1000 x the curve, rounded: the rounding
        # is 100 ppm of the amplitude, well inside the identity tolerance for periods <= 60) with integer inverse variance
        itype = ['i8', 'i4', 'i2', 'u2'][(sub // 4) % 4] if (uexp == 0 and period <= 60 and nexp == 1 and (sub // 2) % 2 == 0) else 'f8'
        if itype != 'f8':
            inll, flux, ivar, newll = concretise(exps, grid, [iv * 4.0 for iv in ivs], 'smooth', period=float(period))
            f, v, exc = run_call(inll, np.round(1000.0 * flux), newll, ivar, m, variant, numtype=itype)
            u_id = 1000.0
        else:
            f, v, exc = call(grid, 'smooth', ivs_u, m, mult=u)
            u_id = u
        if exc:
            errs.append(('identity', m, exc))
            continue
        truth = curve(np.array([float(p) for p in grid_positions(grid)]), 'smooth', float(period))
        g = v > 0
        dev = float(np.abs(f / u_id - truth)[g].max()) / AMPL if g.any() else 0.0
        recs.append({'kind': 'law', 'law': 'identity', 'period': period, 'devppm': scaled(dev, 1e6), 'ngood': int(g.sum()), 'unit_exp10': uexp,
                     'numtype': itype,
                     'shift': [shift.numerator, shift.denominator], 'method': m or 'default', 'nexp': nexp})
    # a constant spectrum stays constant
    grid, _ = random_grid(rng, n)
    level = rng.choice([0.5, 2.5, 7.3, 50.0])
    m = rng.choice(plain)
    numtype = NUMTYPES[(sub // 2) % len(NUMTYPES)] if uexp == 0 else 'f8'
    if numtype != 'f8':          # integer counts with integer inverse variance
        level = 50.0
        f, v, exc = call(grid, 'const', [iv * 4.0 for iv in ivs], m, level=level, numtype=numtype)
    else:
        f, v, exc = call(grid, 'const', ivs_u, m, level=level, mult=u)
    if exc:
        errs.append(('const', m, exc))
    else:
        g = v > 0
        dev = float(np.abs(f / u - level)[g].max()) / level if g.any() else 0.0
        recs.append({'kind': 'law', 'law': 'const', 'devppb': scaled(dev, 1e9), 'ngood': int(g.sum()), 'method': m or 'default', 'unit_exp10': uexp,
                     'numtype': numtype,
                     'nexp': nexp})
    # aesthetics() called directly: the same values in another memory layout give the same cleaned-up spectrum
    atype = NUMTYPES[(sub // 5) % len(NUMTYPES)]
    if variant != 'plain' or atype != 'f8':
        from pydl.pydlspec2d.spec2d import aesthetics
        fl = curve(np.arange(n, dtype='d'), 'smooth' if atype == 'f8' else 'counts', float(period))
        aiv = ivs[0] if atype == 'f8' else ivs[0] * 4.0
        for m in METHODS[1:]:
            if m == 'mean' and atype != 'f8':
                # aesthetics(integer flux, 'mean') fills the masked pixels with the TRUNCATED mean (flux.copy() keeps the integer
                # dtype).  combine1fiber always hands aesthetics a floating spectrum, so the statement does not cover it: noted only.
                desc['aesthetics_mean_integer_flux_not_covered'] = True
                continue
            try:
                with warnings.catch_warnings(), np.errstate(all='ignore'):
                    warnings.simplefilter('ignore')
                    ref = np.asarray(aesthetics(fl.copy(), aiv.copy(), m))
                    got = np.asarray(aesthetics(as_variant(as_type(fl, atype), variant), as_variant(as_type(aiv, atype), variant), m))
                same = got.shape == ref.shape and bool(np.isfinite(got).all())
                dev = float(np.abs(got - ref).max() / np.abs(ref).max()) if same else float('inf')
                recs.append({'kind': 'law', 'law': 'layout', 'fn': 'aesthetics', 'devppb': scaled(dev, 1e9), 'method': m, 'variant': variant,
                             'numtype': atype})
            except Exception as ex:
                errs.append(('layout', m, 'aesthetics(%s %s arrays): %s: %s' % (variant, atype, type(ex).__name__, str(ex)[:120])))
    # scaling (single exposure: the 2-D branch smooths the variance before the fit, the law is the same but costly)
    if nexp == 1:
        grid, _ = random_grid(rng, n)
        m = rng.choice(METHODS)
        # c in [0.1, 10] and, every other item, a power of ten down to 1e-120 (large c stays excluded: the function compares the
        # smoothed inverse variance with an absolute float32 eps)
        if sub % 2 == 0:
            cexp = SMALL_EXPONENTS[(sub // 2) % len(SMALL_EXPONENTS)]
            cnum, cden, cc = 1, 1, 10.0 ** cexp
        else:
            cnum, cden = rng.choice([(1, 10), (1, 4), (37, 100), (3, 1), (10, 1), (73, 10)])
            cexp, cc = 0, cnum / cden
        f1, v1, e1 = call(grid, 'smooth', ivs, m)
        f2, v2, e2 = call(grid, 'smooth', [iv / cc ** 2 for iv in ivs], m, mult=cc)
        if e1 or e2:
            errs.append(('scale', m, e1 or e2))
        else:
            fin = np.isfinite(f1).all() and np.isfinite(f2).all()
            fd = float(np.abs(f2 - cc * f1).max() / (cc * max(1e-300, np.abs(f1).max()))) if fin else float('inf')
            vd = float(np.abs(v2 * cc ** 2 - v1).max() / max(1e-300, np.abs(v1).max())) if (v1 != 0).any() else float(np.abs(v2).max())
            recs.append({'kind': 'law', 'law': 'scale', 'cnum': cnum, 'cden': cden, 'cexp10': cexp, 'fluxppb': scaled(fd, 1e9), 'ivarppb': scaled(vd, 1e9),
                         'zerodiff': int(((v1 == 0) != (v2 == 0)).sum()), 'method': m or 'default'})
    return recs, desc, errs


def item_shift(sub, quick):
    """preprocess_spectra: a narrow feature at pixel k0 of each object, de-redshifted by a whole number of pixels."""
    from pydl.pydlspec2d.spec1d import preprocess_spectra
    rng = random.Random(sub)
    nobj = rng.choice([1, 2, 3])
    n = rng.randrange(300, 900)
    o1 = rng.choice([0, 0, 120, -35])
    x = np.arange(n, dtype='d')
    k0 = [rng.randrange(n // 3, 2 * n // 3) for _ in range(nobj)]
    mode = ['given', 'given-offset', 'derived'][sub % 3]            # all (mode, loglam shape) combinations every 6 items
    off = rng.randrange(-40, 40) if mode == 'given-offset' else 0
    ncount = n + 60 if mode == 'given-offset' else n
    stype = NUMTYPES[(sub // 2) % len(NUMTYPES)]
    zero_z = stype != 'f8' and sub % 4 < 2          # zfit = 0 given as an integer array (the only integral redshift)
    m = []
    for k in k0:        # whole-pixel redshifts that keep the feature at least 15 pixels inside the output grid
        mm = 0 if zero_z else rng.randrange(-60, 90)
        while not (15 <= k - mm - off <= ncount - 16):
            mm = rng.randrange(-60, 90)
        m.append(mm)
    flux = np.vstack([1.0 + 5.0 * np.exp(-0.5 * ((x - k) / 2.0) ** 2) + 0.2 * np.sin(x / 31.0) for k in k0])
    ivar = np.ones(flux.shape)
    for i in range(nobj):
        iv = random_iv(rng, n)
        iv[max(0, k0[i] - 25):k0[i] + 26] = 4      # the feature itself is well measured
        ivar[i] = iv / 4.0
    if stype != 'f8':           # integer counts, integer inverse variance
        flux = as_type(np.round(100.0 * flux), 'i4' if stype in ('i2', 'u1') else stype)
        ivar = as_type(ivar * 4.0, stype)
    ll = LL0 + DLL * (x + o1)
    z = np.array([10.0 ** (DLL * mm) - 1.0 for mm in m])
    if zero_z:
        z = np.zeros(nobj, dtype=stype)
    two_d = (sub // 3) % 2 == 1
    kw = {}
    if mode == 'given':
        kw['newloglam'] = ll.copy()
    elif mode == 'given-offset':
        kw['newloglam'] = LL0 + DLL * (np.arange(ncount, dtype='d') + o1 + off)
    aes = rng.choice(['mean', 'traditional', 'noconst', 'nothing'])
    variant = VARIANTS[sub % len(VARIANTS)]
    if variant == 'zerod' and mode == 'derived':      # 0-d arrays where scalars are admitted; far outside the data, so without effect
        if sub % 2:
            kw['wavemin'] = np.array(10.0 ** (LL0 + DLL * (o1 - 500)))
            kw['wavemax'] = np.array(10.0 ** (LL0 + DLL * (o1 + n + 500)))
        else:                                          # Python / numpy integers where scalars are admitted
            kw['wavemin'] = 1
            kw['wavemax'] = np.int64(10000000)
    if 'newloglam' in kw:
        kw['newloglam'] = as_variant(kw['newloglam'], variant)
    desc = {'kind': 'shift', 'sub': sub, 'quick': quick, 'variant': variant, 'numtype': stype, 'zfit_integer_zero': zero_z, 'nobj': nobj, 'n': n, 'k0': k0, 'm': m, 'o1': o1, 'mode': mode, 'aesthetics': aes,
            'loglam2d': two_d}
    try:
        with warnings.catch_warnings(), np.errstate(all='ignore'):
            warnings.simplefilter('ignore')
            ff, ii, nl = preprocess_spectra(as_variant(flux, variant, flip=bool(sub % 2)), as_variant(ivar, variant, flip=bool(sub % 2)),
                                            loglam=as_variant(np.tile(ll, (nobj, 1)) if two_d else ll, variant, flip=bool(sub % 2)),
                                            zfit=as_variant(z, variant), aesthetics=aes, **kw)
    except Exception as ex:
        return [], desc, [('shift', aes, '%s: %s' % (type(ex).__name__, str(ex)[:140]))]
    recs = []
    o2f = (nl[0] - LL0) / DLL
    o2 = int(round(o2f))
    for i in range(nobj):
        row = np.where(np.isfinite(ff[i]), ff[i], -np.inf)
        kout = int(row.argmax())
        want = ll[k0[i]] - math.log10(1.0 + z[i])
        resid = abs(nl[kout] - want) / DLL
        recs.append({'kind': 'law', 'law': 'shift', 'k0': k0[i], 'o1': o1, 'm': m[i], 'o2': o2, 'kout': kout,
                     'residmilli': scaled(resid, 1e3), 'gridmisfit_milli': scaled(o2f - o2, 1e3), 'mode': mode,
                     'finite': bool(np.isfinite(ff[i]).all() and np.isfinite(ii[i]).all())})
    return recs, desc, []


def judge_records(ctx, records, label, chunk=150):
    """Trace_Resample over the records; returns {index: why} of the rejected ones."""
    bad = {}
    for base in range(0, len(records), chunk):
        part = records[base:base + chunk]
        path = os.path.join(ctx.scratch, 'trace_c11_%d.json' % base)
        core.write_json(path, part)
        r = ctx.tlc('Trace_Resample.tla', 'Trace_Resample.cfg', dump=True, env={'VERIF_TRACE': path}, count=False,
                    label='%s[%d:%d]' % (label, base, base + len(part)), timeout=1200)
        seen = 0
        for st in core.iter_states(r):
            if st['why'] == 'init':
                continue
            seen += 1
            if not st['ok']:
                bad[base + st['i'] - 1] = st['why']
        if seen != len(part):
            raise core.MachineryError('Trace_Resample judged %d of %d records' % (seen, len(part)))
        os.remove(path)
    return bad


def falsify(rec, k):
    """One observed field of an accepted record changed beyond tolerance (None if this record offers nothing to change)."""
    r = dict(rec)
    if rec['kind'] == 'resample':
        mode = k % 5
        lo = min(Fraction(*e['sh']) for e in rec['exps'])
        hi = max(Fraction(*e['sh']) + len(e['iv']) - 1 for e in rec['exps'])
        pos = grid_positions(rec['grid'])
        outside = [j for j, p in enumerate(pos) if (p < lo or p > hi) and rec['nz'][j] == 0]
        nonzero = [j for j in range(len(pos)) if rec['nz'][j] == 1]
        if mode == 0 and outside:               # weight reported on an output pixel beyond every exposure
            j = outside[k % len(outside)]
            r['nz'] = list(rec['nz'])
            r['out'] = list(rec['out'])
            r['nz'][j], r['out'][j] = 1, IVAR_SCALE
        elif mode == 1 and rec['interp'] and nonzero:      # an inverse variance that is not the interpolated one
            j = nonzero[k % len(nonzero)]
            r['out'] = list(rec['out'])
            r['out'][j] += 1000
        elif mode == 2:
            r['finite'] = False
        elif mode == 3:
            r['nonneg'] = False
        else:
            r['nivar'] = rec['nivar'] - 1
        return r
    law = rec['law']
    if law == 'identity':
        r['devppm'] = BIG
    elif law in ('const', 'layout'):
        r['devppb'] = BIG
    elif law == 'scale':
        r[['zerodiff', 'fluxppb', 'ivarppb'][k % 3]] = BIG if k % 3 else 1
    elif law == 'shift':
        if k % 2:
            r['kout'] = rec['kout'] + (1 if k % 4 == 1 else -1)
        else:
            r['residmilli'] = 1000
    else:
        return None
    return r


def selftest(ctx, accepted):
    """Binding self-test: every accepted record with one falsified observed field must be rejected by the same verdicts."""
    fals = [f for f in (falsify(rec, k) for k, rec in enumerate(accepted[:300])) if f is not None]
    if fals:
        core.binding_selftest(ctx, 'Trace_ResampleSelf', fals, 'recorded_calls')


def run_trace(ctx, rep):
    n_res, n_law, n_shift = (36, 10, 8) if ctx.quick else (450, 120, 90)
    records, meta = [], []
    for k in range(n_res):
        sub = ctx.seed * 1000 + k
        rec, desc, err, v = item_resample(sub, ctx.quick)
        ctx.evaluated(1, 'recorded-resample')
        ctx.validated()
        if err:
            desc['what'] = 'combine1fiber on a %d-pixel spectrum (%d exposure(s), grid %s, aesthetics=%s, objivar %s, %s %s arrays) %s: %s' % (
                desc['n'], desc['nexp'], desc['gridkind'], desc['method'], 'given' if desc['use_ivar'] else 'absent', desc['variant'], desc['numtype'],
                err[0], err[1])
            rep.report('recorded-resample', err[0], desc, classify(err[0], err[1], desc['method'], desc['use_ivar'], False))
            continue
        records.append(rec)
        meta.append(desc)
        if desc['nonzero_out']:
            ctx.nontriv(('resample', sub))
    for k in range(n_law):
        sub = ctx.seed * 1000 + 500 + k
        recs, desc, errs = item_law(sub, ctx.quick)
        for r in recs:
            records.append(r)
            meta.append(dict(desc, law=r['law'], measured={x: r[x] for x in r if x.endswith(('ppm', 'ppb', 'exp10')) or x in ('zerodiff', 'ngood')}))
            ctx.evaluated(1, 'law-' + r['law'])
            ctx.validated()
            if r.get('ngood', 1):
                ctx.nontriv(('law', r['law'], sub))
        for law, m, exc in errs:
            d = dict(desc, law=law, method=m)
            d['what'] = 'law %s: combine1fiber raised %s (aesthetics=%s, %d pixels)' % (law, exc, m, desc['n'])
            ctx.evaluated(1, 'law-' + law)
            rep.report('law-' + law, 'raised', d, classify('raised', exc, m, True, False))
    for k in range(n_shift):
        sub = ctx.seed * 1000 + 800 + k
        recs, desc, errs = item_shift(sub, ctx.quick)
        for r in recs:
            records.append(r)
            meta.append(dict(desc, law='shift', measured={'kout': r['kout'], 'residmilli': r['residmilli']}))
            ctx.evaluated(1, 'law-shift')
            ctx.validated()
            ctx.nontriv(('shift', sub, r['k0'], r['m']))
        for law, m, exc in errs:
            d = dict(desc, law=law)
            d['what'] = 'preprocess_spectra(%d objects x %d pixels, aesthetics=%s, newloglam %s, %s %s arrays) raised %s' % (
                desc['nobj'], desc['n'], m, desc['mode'], desc['variant'], desc['numtype'], exc)
            ctx.evaluated(1, 'law-shift')
            known = ('D-C11-5' if desc['mode'] == 'derived' and desc['loglam2d'] and exc.startswith(('TypeError: only 0-dimensional', 'IndexError: index 1 is out of bounds'))
                     else classify('raised', exc, m, True, False))
            rep.report('law-shift', 'raised', d, known)
    if not records:
        return
    bad = judge_records(ctx, records, 'Trace_Resample')
    for k in sorted(bad):
        d = dict(meta[k])
        rec = records[k]
        clause = bad[k]
        finding = None
        if rec['kind'] == 'resample':
            if clause.startswith('non-finite'):
                finding = classify('nonfinite', '', d['method'], d['use_ivar'], d['no_good_output'])
            d['what'] = 'recorded combine1fiber call (%d pixels, %d exposure(s), grid %s %s, aesthetics=%s) rejected by Trace_Resample: %s' % (
                d['n'], d['nexp'], d['gridkind'], d['grid'], d['method'], clause)
        else:
            if rec['law'] == 'shift' and not rec.get('finite', True):
                clause += ' (non-finite output row)'
            d['what'] = 'law instance %s rejected by Trace_Resample: %s; measured %s' % (rec['law'], clause, d.get('measured'))
        d['clause'] = clause
        rep.report('recorded-' + rec.get('law', 'resample'), clause[:40], d, finding)
    # a non-finite row returned by preprocess_spectra is a violation of the finiteness clause even when the feature is in place
    for k, rec in enumerate(records):
        if rec['kind'] == 'law' and rec['law'] == 'shift' and not rec['finite'] and k not in bad:
            d = dict(meta[k])
            d['what'] = 'preprocess_spectra returned non-finite values for an object (%s)' % (meta[k],)
            d['clause'] = 'nonfinite'
            rep.report('recorded-shift', 'nonfinite', d)
    ok = [k for k in range(len(records)) if k not in bad]
    selftest(ctx, [records[k] for k in ok])
    for k in ok[:1]:
        ctx.sample({'recorded_call': meta[k]})
    for k in ok:
        if records[k]['kind'] == 'law':
            ctx.sample({'law_instance': {x: records[k][x] for x in records[k] if x != 'kind'}}, limit=6)
            break


def run(ctx):
    ctx.level = 'model_checking'
    ctx.rule = ('MC_Resample case = (good pattern(s), output grid) with TLC\'s must-be-zero set and exact interpolated inverse '
                'variances, replayed into combine1fiber (every aesthetics method, with/without objivar); non-trivial = case with '
                'at least one must-be-zero pixel and at least one non-zero output inverse variance; recorded calls / law '
                'instances on 300-2000 pixel spectra judged by Trace_Resample')
    ctx.assumptions = [
        'an output pixel that falls exactly on a good input pixel whose two neighbours are bad is accepted with zero or non-zero '
        'inverse variance (Resample!MustBeZero vs StrictZero; the code returns the sample\'s inverse variance there)',
        'numeric laws (identity, constant, scaling, redshift) are exploration: seeded realistic spectra, thresholds '
        'IdentityTolPpm / ConstTolPpb / ScaleTolPpb / ShiftResidTolMilli of Resample.tla; identity and constant laws exclude '
        'aesthetics="damp", which tapers the whole spectrum by design',
        'positions are rationals with denominators <= 10 in pixel units; offsets below the function\'s float32-eps tolerance '
        '(1e-3 pixel) are not exercised',
        'pair cases of <= 6 pixels (incl. a shorter second exposure) are checked at spec level only; 2-D replays use inflated patterns '
        'and the "stack" family (110-pixel exposures displaced by 3/7/20 pixels, isolated zero-weight pixels in the singly covered '
        'ends, a seeded sample of the TLC cases) with >= 101 good pixels per exposure; rows of a real stack have equal length',
        'scaling / identity / constant laws: c in [0.1, 10] and powers of ten 1e-4 .. 1e-120 (flux*c, ivar/c^2); the unchanged code '
        'is scale-free to 1e-14 over that whole range (probed to 1e-150); smaller c is not used because 1/c^2 approaches the float64 '
        'overflow (1e308), larger c because the function compares the smoothed inverse variance with an absolute float32 eps',
        'the "edge" family and 40 % of the recorded stacks put exactly 101, 102 or 103 good pixels into an exposure (the lower edge of '
        'the stated domain "at least 101 good pixels each")',
        'numeric types: integral flux (counts), integral inverse variance and 0/1 good-pixel masks (int32, uint8, bool) are also handed '
        'over as int64 / int32 / int16 / uint16 / uint8 (as the values fit), nord / wavemin / wavemax as Python and numpy integers, zfit = 0 '
        'as an integer array, rotated over the cases like the layouts; expectations are TLC\'s for the values.  Not covered: (a) an '
        'integer-typed inloglam / newloglam - a sampled log-wavelength grid is never integral, and the unchanged code refuses it loudly '
        '(UFuncTypeError / "Grouping tricks did not work!"), which is also why the reverted bspline integer-abscissa fixes (be0af88, 7239a84) '
        'are unreachable through combine1fiber; (b) a bool objivar for a 2-D stack (ValueError from medfilt: a bool array is not an inverse '
        'variance that can be median-smoothed); (c) aesthetics() called directly with integer flux and method "mean" (truncated fill value; '
        'combine1fiber always hands it a floating spectrum); (d) float32 log-wavelengths (positions are then not exact rationals)',
        'the statement is about the returned flux / inverse variance and does not promise that the inputs are left untouched: combine1fiber '
        'zeroes rejected pixels in the caller\'s objivar and the 2-D branch median-smooths it in place; the harness always passes copies',
        'an output pixel within float32 eps (1.2e-7 pixel, 1.2e-11 dex) of a good input pixel is treated by the function as lying ON that '
        'pixel (smask >= 1 - EPS) and then carries its inverse variance even if both neighbours are bad: the same open boundary case as exact '
        'coincidence (Resample!OnGood); grids 15/16 (shifted by +-1e-6 pixel) pin the tolerance: there the inverse variance must be 0 and is',
        'memory layout: every argument array is also handed over read-only, as a non-contiguous view (strided / Fortran order), '
        'byte-swapped, and binsz / wavemin / wavemax as 0-d arrays, rotated over the cases by seed; expectations are TLC\'s for the values. '
        'A read-only objivar is used only for 1-D noiseless input: the 2-D branch median-smooths the caller\'s objivar in place and '
        'rejected outliers are zeroed in it (known in-place behaviour, so read-only is left out there); finalmask is not exercised',
        'SPPIXMASK bit numbers come from a generated parameter file read by pydl\'s own set_maskbits']
    load_maskbits(ctx)
    rep = Reporter(ctx)
    run_mc(ctx, rep)
    run_trace(ctx, rep)
    rep.finish()
    ctx.exhaustive = False
    ctx.explanation = None


def replay(ctx, case):
    """bin/check C11 --replay <file>: re-execute the failing call / law instance of a replay file."""
    ctx.level = 'model_checking'
    ctx.rule = 'single replayed case'
    load_maskbits(ctx)
    rep = Reporter(ctx)
    ctx.nontriv('a')
    ctx.nontriv('b')
    if 'family' in case:
        stats = collections.Counter()
        ok = mc_run_one(ctx, rep, case, case.get('method'), case.get('use_ivar', True), case.get('flux', 'smooth'), stats,
                        case.get('variant', 'plain'), case.get('numtype', 'f8'))
        print('replayed TLC case %s pattern %d grid %s aesthetics=%s: %s' % (case['family'], case['pat'], case['grid'], case.get('method'),
                                                                             'conforms' if ok else 'VIOLATES'))
        return
    sub, kind = case['sub'], case['kind']
    if kind == 'resample':
        rec, desc, err, v = item_resample(sub, case.get('quick', True))
        ctx.evaluated(1)
        if err:
            desc['what'] = 'replayed recorded call %s: %s' % err
            rep.report('recorded-resample', err[0], desc)
            return
        recs, metas = [rec], [desc]
    elif kind == 'law':
        recs, desc, errs = item_law(sub, case.get('quick', True))
        metas = [dict(desc, law=r['law']) for r in recs]
        for law, m, exc in errs:
            rep.report('law-' + law, 'raised', dict(desc, law=law, what='replayed law %s raised %s' % (law, exc)))
    else:
        recs, desc, errs = item_shift(sub, case.get('quick', True))
        metas = [dict(desc, law='shift') for r in recs]
        for law, m, exc in errs:
            rep.report('law-shift', 'raised', dict(desc, law=law, what='replayed preprocess_spectra raised %s' % exc))
    ctx.evaluated(len(recs))
    if recs:
        bad = judge_records(ctx, recs, 'Trace_Resample-replay')
        for k in sorted(bad):
            d = dict(metas[k], clause=bad[k])
            d['what'] = 'replayed %s rejected: %s' % (recs[k].get('law', 'resample'), bad[k])
            rep.report('replayed', bad[k][:40], d)
        print('replayed %d record(s) of item %d: %d rejected' % (len(recs), sub, len(bad)))
